"""C20 — memory and goroutines stay bounded, shutdown accounting is exact
(spec/Bounded.tla, spec/Unblind.tla, spec/Collector.tla).

Parts (each: TLC-made scenarios -> real code -> recorded trace -> TLC trace validation):
  ctl    long runs of ONE real controller + attester + sync committee messenger / aggregator set per scenario
         (virtual time, recording scheduler), and the in-flight batch: short runs in which the duties of the
         current epoch are refreshed while one of its attestation jobs is running (held at the node);
         calls complete OUT OF SLOT ORDER: gates behind the real messenger (head root provider), attester
         (attestation data) and controller (beacon committee subscriber) hold chosen slots' requests while
         the jobs of later slots run and release them late (up to 13 slots) / in reverse order; Trace_Bounded
  real   the same services on the real scheduler (wall clock, short slots); Trace_Bounded (Sample lines,
         InFlight lines for attestations held while their epoch is refreshed)
  bids   the real block relay's builderBidsCache, auctions held inside the bid strategy and answered up to
         40 slots late; Trace_Bounded (AucStart / AucEnd lines)
  passes the WIRED family: one real controller on the REAL scheduler (scheduler/advanced, jobs started with its
         RunJob, virtual time) + real attester / messenger / aggregator per TLC-generated history; the scripted node
         keeps the answers to attester duties requests back (gate), several head events per slot: scheduling passes
         of start-up, "Prepare for epoch" and refreshes for ONE epoch overlap and end in any order (the real
         scheduler answers the second ScheduleJob for a slot ErrJobAlreadyExists); Trace_Bounded
  strat  the seven `first` strategies: goroutines left blocked in their send; Trace_Unblind
  unb    unblindProposal: blocked senders, waiting for ever; Trace_Unblind
"""
import json
import os
import random
import threading
import time
from concurrent.futures import ThreadPoolExecutor

import vf

PID = "C20"

ASPECTS = ["PendingExact", "AttestedBounded", "SubsBounded", "RootsBounded", "RecordsBounded", "BidsBounded",
           "JobsBounded"]
PINNED = ["PendingExact", "AttestedBounded", "SubsBounded", "RootsBounded", "RecordsBounded", "BidsBounded"]

SITES = ["attestationdata/first", "aggregateattestation/first", "beaconblockproposal/first",
         "synccommitteecontribution/first", "beaconblockroot/first", "beaconblockheader/first",
         "signedbeaconblock/first"]

PARTS = {
    "ctl": ("./services/controller/standard", "TestVerifC20", "Trace_Bounded"),
    "real": ("./services/controller/standard", "TestVerifC20Real", "Trace_Bounded"),
    "passes": ("./services/controller/standard", "TestVerifC20Passes", "Trace_Bounded"),
    "bids": ("./services/blockrelay/standard", "TestVerifC20Bids", "Trace_Bounded"),
    "strat": ("./strategies", "TestVerifC20Strategies", "Trace_Unblind"),
    "unb": ("./services/beaconblockproposer/standard", "TestVerifC20Unblind", "Trace_Unblind"),
}

_lock = threading.Lock()
_nviol = [0]


def sub(part):
    return PID + "/" + part


def drive(part, scenarios, tag, patient=False):
    pkg, test, _ = PARTS[part]
    if patient:
        scenarios = [dict(s, patient=1) for s in scenarios]
    return vf.run_driver(sub(part), pkg, test, scenarios, tag, timeout=2400)


# --------------------------------------------------------------------------------------
# scenarios

def inflight_cover(h):
    """how often the scenario refreshes the duties of an epoch while an attestation job of that epoch runs"""
    p, running, n = h[0].get("p", 4), set(), 0
    for x in h:
        if x["ev"] == "AttStart":
            running.add(x["s"])
        elif x["ev"] == "AttEnd":
            running.discard(x["s"])
        elif x["ev"] == "Head":
            n += sum(1 for e in x.get("r", []) if any(s // p == e for s in running))
    return n


def bounded_scenarios(part, cfg, want, num, depth, base, name="scen", inflight=False):
    hs = vf.tlc_scenarios(sub(part), "Scen_Bounded", cfg, num=num, depth=depth, timeout=900, name=name)
    if inflight:
        # the in-flight batch is there for one situation: it must be in every scenario of it
        hs = [h for h in hs if inflight_cover(h) >= 3]
        # a behaviour may be printed twice with a different last step
        firsts, kept = set(), []
        for h in hs:
            k = json.dumps(h[:120], sort_keys=True)
            if k not in firsts:
                firsts.add(k)
                kept.append(h)
        hs = kept
    # cover the options of the services: inclusion verification on / off, aggregator never / sometimes / always
    chosen, seen = [], set()
    for h in hs:
        k = (h[0].get("verify"), h[0].get("agg"))
        if k not in seen:
            seen.add(k)
            chosen.append(h)
    for h in hs:
        if len(chosen) >= want:
            break
        if h not in chosen:
            chosen.append(h)
    order = {(False, "never"): 0, (True, "third"): 1, (False, "always"): 2, (True, "never"): 3, (False, "third"): 4,
             (True, "always"): 5}
    if part != "bids":
        chosen.sort(key=lambda h: order.get((h[0].get("verify"), h[0].get("agg")), 9))
    chosen = chosen[:want]
    if not chosen:
        raise vf.Broken("no %s scenario generated" % part)
    out = []
    for i, h in enumerate(chosen):
        s = {"sc": base + i, "part": part, "fam": h[0].get("fam", "all"), "steps": h}
        if inflight:
            s["batch"] = "inflight"
        if part == "real":
            s["slotms"] = 150
        out.append(s)
    return out


def passes_scenarios(want, num, base):
    """histories of the wired family: every scheduling pass is kept back, head events come several to the slot"""
    hs = vf.tlc_scenarios(sub("passes"), "Scen_Bounded", "Scen_Bounded_passes.cfg", num=num, depth=400, timeout=900,
                          name="scen-passes")

    def overlaps(h):
        # passes under way per epoch as the design has them: Start / Prepare / Head with split start passes, Resched ends one
        now, p, out, n = h[0]["now"], h[0].get("p", 4), [], 0
        for x in h:
            ev = x["ev"]
            if ev == "Advance":
                now += 1
            started = []
            if ev == "Start" and x.get("split"):
                started = [now // p, now // p + 1]
            elif ev == "Prepare" and x.get("split"):
                started = [x["e"]]
            elif ev == "Head" and x.get("split"):
                started = list(x.get("r", []))
            for e in started:
                if e in out:
                    n += 1
                out.append(e)
            if ev == "Resched" and x["e"] in out:
                out.remove(x["e"])
        return n

    firsts, kept = set(), []
    for h in hs:
        k = json.dumps(h[:60], sort_keys=True)
        if k not in firsts and overlaps(h) >= 2:
            firsts.add(k)
            kept.append(h)
    if len(kept) < min(want, 4):
        raise vf.Broken("only %d histories with overlapping scheduling passes were generated" % len(kept))
    return [{"sc": base + i, "part": "passes", "fam": h[0].get("fam", "att"), "batch": "passes", "steps": h}
            for i, h in enumerate(kept[:want])]


def overlapping_passes(s, rows):
    """what the binding really did: scheduling passes that ended while / after another pass for the same epoch set the
    slot's job up (the REAL scheduler answered ErrJobAlreadyExists), lines recorded with two and more passes for one
    epoch under way"""
    n = {"passes_answered_exists": 0, "lines_with_overlapping_passes": 0, "passes_ended": 0}
    for r in rows:
        if r.get("ev") == "Resched" and r.get("fired"):
            n["passes_ended"] += 1
            if r.get("exists", 0) > 0:
                n["passes_answered_exists"] += 1
        es = [x["e"] for x in r.get("passes", [])]
        if len(es) != len(set(es)):
            n["lines_with_overlapping_passes"] += 1
    return n


def call_scenarios(tier, rnd):
    inits = vf.tlc_scenarios(sub("strat"), "Scen_Unblind", "Scen_Unblind.cfg", exhaustive=True, timeout=600,
                             name="scen")
    first = [s for s in inits if s["kind"] == "first"]
    unb = [s for s in inits if s["kind"] == "unblind"]
    if len(first) < 300 or len(unb) < 3000:
        raise vf.Broken("scenario enumeration of Unblind.tla is incomplete (%d, %d)" % (len(first), len(unb)))
    # The strategy / the proposer is ONE long-lived instance (UnblindInst.tla: NextCall starts any further call on
    # it): a scenario is a HISTORY - `hist` = the calls made on the same real instance before the scenario's own
    # call, each of them a call configuration enumerated by TLC; every call of the history is logged and judged.
    strat, k = [], 3000
    crowded = [s for s in first if s["plan"].count("ok") >= 3]
    for site in SITES:
        pick = rnd.sample(crowded, 3) + rnd.sample(first, 8 if tier == "quick" else 120)
        for j, s in enumerate(pick):
            k += 1
            same = [x for x in first if x["n"] == s["n"]]
            hist = []
            if j < 3:
                # every node answers, twice in a row (what a result channel kept on the instance cannot take)
                hist = [rnd.choice([x for x in crowded if x["n"] == s["n"]])["plan"] for _ in range(2)]
            elif j % 2 == 1:
                hist = [x["plan"] for x in rnd.sample(same, 1 + j % 4 // 2)]
            strat.append({"sc": k, "part": "strat", "site": site, "kind": "first", "n": s["n"], "plan": s["plan"], "T": 150,
                          "hist": hist})
    calls, k = [], 5000
    allok = [s for s in unb if s["n"] >= 3 and s["plan"].count("ok") == s["n"]]
    allfail = [s for s in unb if all(x in ("err400", "err3", "nil") for x in s["plan"])]
    pick = allok + rnd.sample(allfail, 6 if tier == "quick" else 40) + rnd.sample(unb, 36 if tier == "quick" else 400)
    quickreply = [s for s in unb if all(x in ("ok", "err400", "nil") for x in s["plan"])]
    for j, s in enumerate(pick):
        for hold in (True, False):
            k += 1
            hist = []
            if j < len(allok) and hold:
                hist = [dict(rnd.choice(allok), hold=True)]
            elif j >= len(allok) and j % 4 == 0:
                hist = [dict(rnd.choice(quickreply), hold=hold)]
            calls.append({"sc": k, "part": "unb", "site": "unblindProposal", "kind": "unblind", "n": s["n"],
                          "deadline": s["deadline"], "plan": s["plan"], "hold": hold,
                          "hist": [{"n": h["n"], "deadline": h["deadline"], "plan": h["plan"], "hold": h["hold"]} for h in hist]})
    return strat, calls


# --------------------------------------------------------------------------------------
# what a rejection is about

def late_completions(s, rows):
    """what the binding really did out of order: head roots set for a slot more than an epoch late (MsgEnd lines
    of a request that the node kept back while the requests of later slots were answered), pairs of neighbouring
    slots answered in reverse order, late subscriptions, late attestation jobs, late auctions"""
    p = s["steps"][0].get("p", 4)
    n = {"late_roots": 0, "reversed_pairs": 0, "late_subs": 0, "late_atts": 0, "late_auctions": 0}
    ended = set()
    for r in rows:
        ev = r.get("ev")
        if ev == "MsgEnd" and r.get("fired") and r.get("ok"):
            if r.get("late", 0) > p:
                n["late_roots"] += 1
            if r["s"] + 1 in ended:
                n["reversed_pairs"] += 1
            ended.add(r["s"])
        elif ev == "SubEnd" and r.get("fired") and r["e"] + 1 < r.get("now", 0) // p:
            n["late_subs"] += 1
        elif ev == "AttEnd" and r.get("gated") and r.get("now", 0) > r["s"] + 1:
            n["late_atts"] += 1
        elif ev == "AucEnd" and r.get("late", 0) > 32:
            n["late_auctions"] += 1
    return n


def sig_bounded(s, aspect):
    h = s["steps"][0]
    return {"part": s["part"], "aspect": aspect, "verify": bool(h.get("verify")), "agg": h.get("agg", "never")}


def sig_call(s, line):
    return {"part": s["part"], "site": s["site"], "event": (line or {}).get("ev", "?")}


def refreshed_in_flight(s, rows):
    """lines recorded from the real code at which the duties of an epoch were fetched again (a refresh) while
    an attestation job of that epoch was running: CancelJob failed for it"""
    p = s["steps"][0].get("p", 4)
    n = 0
    for r in rows:
        if r.get("ev") == "Head" and any(x // p in r.get("fetched", []) for x in r.get("running", [])):
            n += 1
        if r.get("ev") == "InFlight" and r.get("running") and r.get("refreshed"):
            n += 1
    return n


def nontrivial_bounded(s, rows):
    """the antecedents of the property occur: a refresh that withdraws a scheduled attestation, an epoch
    without duties or without head event, an attestation run that fails; a refresh of the epoch of an
    attestation job that is running"""
    prev, withdrew, failed = set(), False, False
    for r in rows:
        cur = set(r.get("attjobs", []))
        if r.get("ev") == "Head" and r.get("fetched") and (prev - cur):
            withdrew = True
        if r.get("ev") == "AttEnd" and r.get("ok") is False:
            failed = True
        prev = cur
    if s["part"] == "bids":
        return sum(1 for r in rows if r.get("ev") in ("Auction", "AucEnd")) > 64 and late_completions(s, rows)["late_auctions"] > 0
    if s["part"] == "real":
        return any(r.get("ev") == "Sample" and r.get("njobs", 0) > 0 for r in rows)
    if s["part"] == "passes":
        return overlapping_passes(s, rows)["passes_answered_exists"] > 0
    return (withdrew and failed) or refreshed_in_flight(s, rows) > 0 or late_completions(s, rows)["late_roots"] > 0


def nontrivial_call(s, rows):
    oks = sum(1 for r in rows if r.get("ev") == "Reply" and r.get("r") == "ok")
    return oks >= 3 or (s["part"] == "unb" and oks == 0 and not s.get("deadline") and "never" not in s["plan"])


# --------------------------------------------------------------------------------------
# conformance of one part

def conform(v, part, scenarios, tier, aspects, sig_of, nontrivial, confirm_patient=False):
    """Replay the scenarios of one part, validate the recorded traces; every rejection is confirmed by
    re-running its scenario alone (up to three times) before it is reported.  aspects: list of
    (name, cfg); the first entry is the configuration with everything in it (fast path), the others
    single the invariants out so that each violated one is reported on its own."""
    _, _, module = PARTS[part]
    by_id = {s["sc"]: s for s in scenarios}
    rows = drive(part, scenarios, "batch")
    per = {}
    for r in rows:
        per.setdefault(r.get("sc"), []).append(r)
    missing = [i for i in by_id if i not in per]
    if missing:
        raise vf.Broken("driver of part %s produced no trace for scenarios %s" % (part, missing[:5]))
    if part == "ctl":
        # the binding must have reached the situation the in-flight batch is made for (else it proves nothing)
        hits = sum(refreshed_in_flight(s, per[s["sc"]]) for s in scenarios)
        with _lock:
            v.coverage["refreshes_with_job_in_flight"] = v.coverage.get("refreshes_with_job_in_flight", 0) + hits
        if len(scenarios) > 1 and hits < 5:
            raise vf.Broken("only %d refreshes were recorded while an attestation job of the epoch was running" % hits)
    if part in ("ctl", "bids"):
        # ... and the out-of-order completions the long runs are made for
        tot = {}
        for s in scenarios:
            for k, x in late_completions(s, per[s["sc"]]).items():
                tot[k] = tot.get(k, 0) + x
        with _lock:
            for k, x in tot.items():
                if x or part == "ctl" and k != "late_auctions":
                    v.coverage[k] = v.coverage.get(k, 0) + x
        if len(scenarios) > 1:
            need = {"late_roots": 20, "reversed_pairs": 5, "late_subs": 5, "late_atts": 5} if part == "ctl" else {"late_auctions": 40}
            for k, m in need.items():
                if tot.get(k, 0) < m:
                    raise vf.Broken("only %d %s were recorded (need %d): calls completed in slot order" % (tot.get(k, 0), k, m))
    if part == "passes":
        tot = {}
        for s in scenarios:
            for k, x in overlapping_passes(s, per[s["sc"]]).items():
                tot[k] = tot.get(k, 0) + x
        with _lock:
            for k, x in tot.items():
                v.coverage[k] = v.coverage.get(k, 0) + x
        if len(scenarios) > 1 and (tot.get("passes_answered_exists", 0) < 5 or tot.get("lines_with_overlapping_passes", 0) < 10):
            raise vf.Broken("only %d scheduling passes were answered 'exists' by the real scheduler, %d lines with overlapping "
                            "passes: the passes of an epoch did not overlap" % (tot.get("passes_answered_exists", 0),
                                                                               tot.get("lines_with_overlapping_passes", 0)))
    if part == "real":
        with _lock:
            v.coverage["real_refreshes_with_job_in_flight"] = v.coverage.get("real_refreshes_with_job_in_flight", 0) + \
                sum(refreshed_in_flight(s, per[s["sc"]]) for s in scenarios)
    order = [s["sc"] for s in scenarios]
    dfs = module == "Trace_Unblind"
    rejected = set()

    def validate(ids, cfg, tag):
        tp = os.path.join(vf.outdir(sub(part)), "validate-%s.ndjson" % tag)
        sel = [r for i in ids for r in per[i]]
        vf.write_ndjson(tp, sel)
        return vf.validate_trace(sub(part), module, cfg, tp, name="trace-" + tag, dfs=dfs, timeout=1500), sel

    reruns = {}

    def confirm(sid, cfg):
        # the scenario re-run alone; one re-run serves every aspect it is judged by
        for attempt in range(3):
            if (sid, attempt) not in reruns:
                reruns[(sid, attempt)] = drive(part, [by_id[sid]], "confirm%d" % (attempt + 1), patient=confirm_patient)
            rr = reruns[(sid, attempt)]
            tp = os.path.join(vf.outdir(sub(part)), "confirm.ndjson")
            vf.write_ndjson(tp, rr)
            res = vf.validate_trace(sub(part), module, cfg, tp, name="trace-confirm", dfs=dfs, timeout=1500)
            if not res["accepted"]:
                return True, rr, res
        return False, None, None

    def drain(name, cfg, ids, tag):
        reports = 0
        ids = list(ids)
        while ids and reports < 2:
            res, sel = validate(ids, cfg, tag)
            if res["accepted"]:
                break
            sid = vf.scenario_of_line(sel, res["line"])
            if sid is None or sid not in by_id:
                raise vf.Broken("cannot attribute rejection at line %s" % res["line"])
            pos = ids.index(sid)
            ok, rr, res2 = confirm(sid, cfg)
            ids = ids[pos + 1:]
            if not ok:
                with _lock:
                    v.unreproduced.append("part %s scenario %s: %s" % (part, sid, res["why"]))
                vf.log("rejection of scenario %s (%s) did not reproduce (%s)" % (sid, part, res["why"]))
                continue
            rejected.add(sid)
            local = res2["line"]
            line = rr[local - 1] if local and local <= len(rr) else None
            aspect = res2.get("invariant") or name
            sig = sig_of(by_id[sid], aspect if module == "Trace_Bounded" else line)
            small = {k: x for k, x in (line or {}).items() if not isinstance(x, list) or len(x) <= 12}
            note = "%s\nnext/offending trace line: %s" % (res2["why"], json.dumps(small))
            with _lock:
                _nviol[0] += 1
                n = _nviol[0]
                saved = dict(by_id[sid], aspect=name)
                d = vf.save_replay(PID, n, saved, rr, note)
                v.report(sig, "%s; part %s scenario %s; %s" % (res2["why"], part, sid, json.dumps(small)[:400]), d)
            reports += 1

    name0, cfg0 = aspects[0]
    res, _ = validate(order, cfg0, "all")
    if not res["accepted"]:
        if len(aspects) == 1:
            drain(name0, cfg0, order, "main")
        else:
            # steps the specification does not allow at all are reported once, the invariants one by one
            drain("envelope", aspects[1][1], order, "envelope")
            rest = [i for i in order if i not in rejected]
            for name, cfg in aspects[2:]:
                drain(name, cfg, rest, name)
    with _lock:
        v.coverage["evaluations"] += len(scenarios)
        v.coverage["traces_validated_against_impl"] += len([i for i in order if i not in rejected])
        seen = set()
        for s in scenarios:
            if nontrivial(s, per[s["sc"]]):
                k = dict(s)
                k.pop("sc", None)
                seen.add(json.dumps(k, sort_keys=True))
        v.coverage["distinct_nontrivial"] += len(seen)
        if part in ("ctl", "unb"):
            s = scenarios[0]
            v.coverage["samples"].append({"part": part, "scenario": dict(s, steps=s["steps"][:10]) if "steps" in s else s,
                                          "trace": [{k: x for k, x in r.items() if k != "records"} for r in per[s["sc"]][:8]]})
    vf.log("part %s: %d scenarios, %d rejected" % (part, len(scenarios), len(rejected)))


BOUNDED_ASPECTS = [("all", "Trace_Bounded.cfg"), ("envelope", "Trace_Bounded_none.cfg")] + \
                  [(a, "Trace_Bounded_%s.cfg" % a) for a in ASPECTS]
# the run on the real scheduler follows the wall clock: head events may slip into the next epoch under load,
# so its epoch-keyed bounds allow for longer outages (G = 4)
REAL_ASPECTS = [(a, c.replace("Trace_Bounded", "Trace_Bounded_real")) for a, c in BOUNDED_ASPECTS]
CALL_ASPECTS = [("all", "Trace_Unblind.cfg")]


# --------------------------------------------------------------------------------------

def model_checking(v, tier):
    """Exhaustive runs of the designs, and the sensitivity of the models: the housekeeping and the
    channel capacities of the code as found must violate each invariant (else the model is vacuous)."""
    jobs = [("Bounded", "MC_Bounded.cfg", 8), ("Unblind", "MC_Unblind.cfg", 4), ("Collector", "MC_Collector_c20.cfg", 4),
            # histories of calls on one strategy / proposer instance; a result channel kept on the instance is right on
            # every fresh instance
            ("UnblindInst", "MC_UnblindInst.cfg", 2), ("UnblindInst", "MC_UnblindInst_carrychan_fresh.cfg", 2),
            # a refresh that clears the mark of every slot of the epoch: invisible while no job is running
            ("Bounded", "MC_Bounded_clearall_atrest.cfg", 2),
            # calls that complete out of slot order: sync committee message jobs and auctions answered 1 slot
            # (reverse order of neighbours) and 3 slots (beyond the window) late; the subscription of a Prepare step
            # 5 slots late; attestation jobs 3 slots late (across the epoch boundary)
            ("Bounded", "MC_Bounded_sync.cfg", 4), ("Bounded", "MC_Bounded_sub.cfg", 2),
            # pruning by a carried low-water mark: invisible while calls complete in slot order
            ("Bounded", "MC_Bounded_sweep_inorder.cfg", 2),
            # scheduling passes as processes: up to two passes for ONE epoch under way at once (start-up / Prepare /
            # refresh passes kept back by the node, two head events per slot), ending in any order; and a pass that
            # takes its note back when ScheduleJob answers "exists": invisible while passes never overlap
            ("Bounded", "MC_Bounded_passes.cfg", 4), ("Bounded", "MC_Bounded_schederr_nooverlap.cfg", 2)]
    if tier == "thorough":
        jobs += [("Bounded", "MC_Bounded_big.cfg", 8), ("Unblind", "MC_Unblind_big.cfg", 8),
                 ("Bounded", "MC_Bounded_sync_big.cfg", 4), ("Bounded", "MC_Bounded_late_big.cfg", 4),
                 ("Bounded", "MC_Bounded_attlate.cfg", 2)]
    res = []
    with ThreadPoolExecutor(max_workers=5) as ex:
        futs = [ex.submit(vf.tlc_exhaustive, sub("mc"), m, c, w, 2400, "6g", tier == "thorough" and m != "Collector")
                for m, c, w in jobs]
        pinned = [ex.submit(vf.tlc, sub("mc"), "sim-" + a, "Bounded", "MC_Bounded_pinned_%s.cfg" % a, 2, 600, None,
                            "num=4000", 900, "2g", False, False, None, 1) for a in PINNED]
        pinned_calls = [ex.submit(vf.tlc, sub("mc"), "pin-" + c, m, c + ".cfg", 2, 600)
                        for m, c in [("Unblind", "MC_Unblind_pinned_first"), ("Unblind", "MC_Unblind_pinned_cap"),
                                     ("Unblind", "MC_Unblind_pinned_wait"), ("Collector", "MC_Collector_c20_cap1"),
                                     # ... and is rejected over histories; the second call of a history is reachable
                                     ("UnblindInst", "MC_UnblindInst_carrychan"), ("UnblindInst", "MC_UnblindInst_reach")]]
        # jobs with duration: the model contains a refresh over a running job (CancelJob fails), the late
        # reschedule over a running job, two jobs running; and clearing every mark of the epoch violates
        # PendingExact
        sens = [(c, inv, ex.submit(vf.tlc, sub("mc"), "sens-" + c, "Bounded", c + ".cfg", 2, 600))
                for c, inv in [("MC_Bounded_clearall", "PendingExact"),
                               # ... and must violate PendingExact once the passes of an epoch overlap
                               ("MC_Bounded_schederr", "PendingExact")] +
                [("MC_Bounded_reach_" + x, x) for x in ("NeverRefreshOverRunning", "NeverReschedOverRunning", "NeverTwoRunning",
                                                         # out-of-order completion is in the model: a head root / bid /
                                                         # subscription info set for a key far below one set earlier, two
                                                         # message jobs under way at once
                                                         "NeverLateRoot",
                                                         # two scheduling passes for one epoch under way; a pass about to
                                                         # be answered "exists"; the same with an attestation job running
                                                         "NeverPassOverlap", "NeverExists") +
                 (("NeverLateBid", "NeverLateSub", "NeverTwoMessages", "NeverExistsRunning") if tier == "thorough" else ())]]
        # ... and a housekeeping that prunes with a carried low-water mark (right whenever keys arrive in order:
        # MC_Bounded_sweep_inorder above) must break each bound once they do not
        sens += [("MC_Bounded_sweep_" + a, a, ex.submit(vf.tlc, sub("mc"), "sweep-" + a, "Bounded", "MC_Bounded_sweep_%s.cfg" % a,
                                                         2, 600, None, "num=4000", 900, "2g", False, False, None, 1))
                 for a in ("RootsBounded", "BidsBounded", "SubsBounded")]
        for f in futs:
            res.append(f.result())
        for c, inv, f in sens:
            r = f.result()
            if r["kind"] != "invariant" or r["violated"] != inv:
                raise vf.Broken("%s no longer violates %s: the model lacks the running-job / out-of-order situations (%s %s)"
                                % (c, inv, r["kind"], r["violated"]))
        for a, f in zip(PINNED, pinned):
            r = f.result()
            if r["kind"] != "invariant" or r["violated"] != a:
                raise vf.Broken("the housekeeping as found no longer violates %s in Bounded.tla: vacuous model (%s %s)"
                                % (a, r["kind"], r["violated"]))
        for f in pinned_calls:
            r = f.result()
            if r["kind"] != "invariant":
                raise vf.Broken("channel capacity 1 / no all-failed exit no longer violates the specification: vacuous model")
    for r in res:
        v.add_mc(r)


def run(tier):
    v = vf.Verdict(PID, tier)
    rnd = random.Random(vf.seed())
    v.assumptions = [
        "Env_OutageBounded: at most G = 2 consecutive epochs without any head event, and at most 2 consecutive epochs in which attestations ran but none succeeded (bounds 4 + G on the epoch-keyed maps)",
        "a timely scheduler: every job of a slot has STARTED when the slot ends (the driver fires the recording scheduler's due jobs; the real scheduler is observed as it is); jobs end when the node answers: at most 2 requests of a kind (6 auctions) are kept back beyond their slot at a time, for at most 13 slots (subscriptions 14, auctions 44) - the bounds leave room for these entries on top of the window",
        "beacon node, relays, signers, submitters, accounts are scripted fakes at the services' interfaces; sync committee duties are constant (validator 1), three validators attest",
        "a goroutine parked in a channel send of a call that has returned stays parked (the caller is the only receiver); judged after every fake has answered and a quiescence period, confirmed by re-running the call alone with a longer period",
        "unblindProposal is steered at the relay's answer and at the trace-level log line between its semaphore check and its final acquire (the log writer blocks there): a legitimate interleaving, made deterministic",
    ]
    errors = []

    def guarded(fn, *a):
        try:
            fn(*a)
        except Exception as e:  # noqa: BLE001
            errors.append(e)

    big = tier == "thorough"
    t0 = time.time()
    threads = [threading.Thread(target=guarded, args=(model_checking, v, tier))]

    def both(*fns):
        out = [None] * len(fns)

        def one(i):
            try:
                out[i] = fns[i]()
            except Exception as e:  # noqa: BLE001
                out[i] = e
        ts = [threading.Thread(target=one, args=(i,)) for i in range(len(fns))]
        for t in ts:
            t.start()
        for t in ts:
            t.join()
        for x in out:
            if isinstance(x, Exception):
                raise x
        return [s for x in out for s in x]

    def part_ctl():
        sc = both(lambda: bounded_scenarios("ctl", "Scen_Bounded_big.cfg" if big else "Scen_Bounded.cfg", 16 if big else 4,
                                            48 if big else 9, 30000 if big else 8000, 1),
                  lambda: bounded_scenarios("ctl", "Scen_Bounded_inflight.cfg", 48 if big else 10, 90 if big else 36,
                                            700, 101, name="scen-inflight", inflight=True))
        conform(v, "ctl", sc, tier, BOUNDED_ASPECTS, sig_bounded, nontrivial_bounded)

    def part_real():
        sc = both(lambda: bounded_scenarios("real", "Scen_Bounded_real_big.cfg" if big else "Scen_Bounded_real.cfg",
                                            3 if big else 1, 12, 8000, 1001),
                  lambda: bounded_scenarios("real", "Scen_Bounded_real_inflight.cfg", 3 if big else 1, 8, 8000, 1051,
                                            name="scen-inflight", inflight=True))
        conform(v, "real", sc, tier, REAL_ASPECTS, sig_bounded, nontrivial_bounded)

    def part_passes():
        sc = passes_scenarios(120 if big else 32, 1500 if big else 200, 4001)
        conform(v, "passes", sc, tier, BOUNDED_ASPECTS, sig_bounded, nontrivial_bounded)

    def part_bids():
        sc = bounded_scenarios("bids", "Scen_Bounded_bids.cfg", 3 if big else 2, 4, 4000, 2001)
        conform(v, "bids", sc, tier, BOUNDED_ASPECTS, sig_bounded, nontrivial_bounded)

    def part_calls():
        strat, calls = call_scenarios(tier, rnd)
        t1 = threading.Thread(target=guarded, args=(conform, v, "strat", strat, tier, CALL_ASPECTS, sig_call,
                                                    nontrivial_call, True))
        t1.start()
        conform(v, "unb", calls, tier, CALL_ASPECTS, sig_call, nontrivial_call, True)
        t1.join()

    # VERIF_C20_PARTS=passes,ctl,... restricts a run to some parts (development aid on a loaded machine; a run
    # restricted this way says so in its log and is not what evidence/ is written from)
    only = [x for x in os.environ.get("VERIF_C20_PARTS", "").split(",") if x]
    parts = {"mc": None, "ctl": part_ctl, "real": part_real, "passes": part_passes, "bids": part_bids, "calls": part_calls}
    if only:
        vf.log("RESTRICTED RUN: parts %s only" % only)
        vf.EVIDENCE = os.path.join(vf.OUT, "evidence-restricted")    # never the committed evidence
        os.makedirs(vf.EVIDENCE, exist_ok=True)
        threads = [t for t in threads if "mc" in only]
    for name, fn in parts.items():
        if fn is None or (only and name not in only):
            continue
        threads.append(threading.Thread(target=guarded, args=(fn,)))
    for t in threads:
        t.start()
    for t in threads:
        t.join()
    for e in errors:
        if not isinstance(e, vf.Broken):
            raise e
    if errors:
        raise errors[0]
    vf.log("all parts done in %.1fs" % (time.time() - t0))
    v.coverage["rule"] = (
        "ctl/real/bids: TLC-simulated behaviours of Bounded.tla (duty patterns incl. empty epochs, head events and "
        "whole-epoch gaps, reorgs that refresh scheduled duties, node outages, aggregator never/sometimes/always, inclusion "
        "verification on/off; attestation jobs with duration: head events, refreshes of the running job's epoch, late "
        "duty replies, the next slot's job, probes and the clock between AttStart and AttEnd; calls that complete out of slot "
        "order on the one set of instances: the head root request of a sync committee message job, the attestation data "
        "request, the beacon committee subscription of a Prepare step and the block auction are kept back by gates behind the "
        "real services for 0-13 (auctions 0-44) slots while the calls of later slots run, two neighbouring slots answered in "
        "reverse order, at most 2 (auctions 6) kept back at a time) of 64+ epochs (quick) / 256+ "
        "(thorough), plus an in-flight batch of 11-epoch behaviours in which the current epoch is only refreshed while one "
        "of its attestation jobs is running, replayed on the real controller + attester + sync "
        "committee messenger/aggregator (virtual time), on the real scheduler (wall clock), and on the real block relay; "
        "passes: TLC-simulated three-epoch histories of Bounded.tla in which every scheduling pass that may be kept back is "
        "(start-up, Prepare for epoch, refreshes; up to 3 passes of one epoch under way, 3 head events per slot, ended in any "
        "order), each replayed on ONE wired instance: the real controller on the REAL advanced scheduler (jobs started with "
        "its RunJob, virtual time), real attester, a scripted node with a gate on attester duties; "
        "strat/unb: initial states of Unblind.tla (enumerated by TLC, sampled) replayed on the seven `first` strategies and "
        "on unblindProposal, as HISTORIES: up to two earlier TLC-enumerated calls on the same real strategy instance / proposer "
        "before the scenario's own call, every call judged. non-trivial = a refresh withdrew a scheduled attestation and an attestation run failed, or an "
        "epoch was refreshed while one of its attestation jobs was running, or a head root was set more than an epoch late (ctl), jobs seen in the real table (real), a scheduling pass answered ErrJobAlreadyExists by the real scheduler (passes), more auctions than the window and one answered more than 32 slots late (bids), three or more providers "
        "answering, or every relay failing under a context without deadline (calls); distinct by scenario content")
    return v.finish()


def replay(path):
    v = vf.Verdict(PID, "quick")
    with open(os.path.join(path, "scenario.json")) as fh:
        s = json.load(fh)
    s.pop("aspect", None)
    part = s["part"]
    if PARTS[part][2] == "Trace_Bounded":
        conform(v, part, [s], "quick", REAL_ASPECTS if part == "real" else BOUNDED_ASPECTS, sig_bounded, nontrivial_bounded)
    else:
        conform(v, part, [s], "quick", CALL_ASPECTS, sig_call, nontrivial_call, True)
    return 1 if v.violations else 0
