"""C11 — relays and beacon nodes are told exactly what the configuration says (spec/BlockRelay.tla,
registration part: registration rounds, preparation rounds, forwarding of REST registrations)."""
import json
import os
import random
from concurrent.futures import ThreadPoolExecutor
import vf

PID = "C11"
PKG = "./services/blockrelay/standard"
TEST = "TestVerifC11"
TRACE = ("Trace_BlockRelay_C11", "Trace_BlockRelay_C11.cfg")


def driver(scenarios, tag):
    # bounded wait for the preparation goroutine to have called every node (only ever expires when a
    # node is not called at all); longer on the confirming re-runs
    # lat: how long a "slow" relay / node fake stays in flight watching its context (an ordering device: on a
    # tree where the property holds no context is cancelled, whatever the period)
    wd, lat = 1500, 8
    if tag.startswith("confirm"):
        wd, lat = 8000, 40
    return vf.run_driver(PID, PKG, TEST, scenarios, tag, env={"VERIF_WATCHDOG_MS": wd, "VERIF_C11_LAT_MS": lat},
                         timeout=1500)


def _bad_docs(s):
    return {d["id"]: set(d.get("bad", [])) for d in s["steps"][0].get("docs", [])}


def sig_of(s):
    """Which ingredients of the property a scenario has (used to match open findings)."""
    bad = _bad_docs(s)
    active, unresolvable_round, failures, changes = 0, False, False, 0
    for st in s["steps"][1:]:
        if st["ev"] == "Fetch" and st.get("out") == "good":
            changes += 1 if st["doc"] != active else 0
            active = st["doc"]
        elif st["ev"] == "Round":
            accts = set(st.get("accts", []))
            if accts & bad.get(active, set()) and accts - bad.get(active, set()):
                unresolvable_round = True
            if st.get("signfail") or st.get("relayfail") or st.get("nodefail"):
                failures = True
        elif st["ev"] == "Fwd" and st.get("relayfail"):
            failures = True
        elif st["ev"] == "Prep" and any(no[1] != "ok" for no in st.get("nodeout", [])):
            failures = True
    return {"round_with_unresolvable_and_resolvable_validator": unresolvable_round,
            "has_failures": failures, "kinds": sorted({st["ev"] for st in s["steps"][1:]})}


def nontrivial(s, rows):
    # the antecedent: a round in which registrations (or preparations) were really submitted, together
    # with a failure, an unresolvable validator, or an earlier round (reuse / change of content)
    submits = [r for r in rows if r.get("ev") in ("RelayStart", "NodeStart") and r.get("regs")]
    preps = [r for r in rows if r.get("ev") == "PrepCall" and r.get("preps")]
    if not submits and not preps:
        return False
    sg = sig_of(s)
    rounds = sum(1 for st in s["steps"] if st["ev"] in ("Round", "Prep"))
    return sg["has_failures"] or sg["round_with_unresolvable_and_resolvable_validator"] or rounds >= 2


def scenarios(tier):
    quick = tier == "quick"
    n = 160 if quick else 2500
    sim = vf.tlc_scenarios(PID, "Scen_BlockRelay_C11", "Scen_BlockRelay_C11.cfg", num=n, depth=12, timeout=900)[:n]
    matrix = vf.tlc_scenarios(PID, "Scen_BlockRelay_C11",
                              "Scen_BlockRelay_C11_matrix.cfg" if quick else "Scen_BlockRelay_C11_matrix_big.cfg",
                              exhaustive=True, name="scen-matrix", timeout=900)
    history = vf.tlc_scenarios(PID, "Scen_BlockRelay_C11",
                               "Scen_BlockRelay_C11_history.cfg" if quick else "Scen_BlockRelay_C11_history_big.cfg",
                               exhaustive=True, name="scen-history", timeout=900)
    if quick:
        rnd = random.Random(vf.seed())
        rnd.shuffle(matrix)
        matrix = matrix[:120]
    hs = matrix + history + sim
    return [{"sc": i + 1, "steps": h} for i, h in enumerate(hs)]


SHARED_CANCEL = [("relays", "FailureIsolated"), ("nodes", "FailureIsolated"), ("prep", "PreparationIsolated"),
                 ("fwd", "ForwardedAll")]


def design_checks(v, tier):
    # long histories with a coarse fan-out (whole payloads, calls succeed) ...
    v.add_mc(vf.tlc_exhaustive(PID, "BlockRelay", "MC_BlockRelay_C11.cfg"))
    # ... and the fan-out in full detail (overlapping calls, partial deliveries, every outcome) on short ones
    v.add_mc(vf.tlc_exhaustive(PID, "BlockRelay", "MC_BlockRelay_C11_fanout.cfg"))
    if tier == "thorough":
        v.add_mc(vf.tlc_exhaustive(PID, "BlockRelay", "MC_BlockRelay_C11_fanout3.cfg", timeout=1500))
        v.add_mc(vf.tlc_exhaustive(PID, "BlockRelay", "MC_BlockRelay_C11_big.cfg", timeout=1500))
        v.add_mc(vf.tlc_exhaustive(PID, "BlockRelay", "MC_BlockRelay_C11_big2.cfg", timeout=1500))
    # the model must keep its discriminating power: a fan-out whose calls share one context that the first
    # failing call cancels (errgroup.WithContext) violates the isolation invariants
    with ThreadPoolExecutor(max_workers=len(SHARED_CANCEL)) as ex:
        rs = list(ex.map(lambda a: vf.tlc(PID, "mc-sharedcancel-" + a[0], "BlockRelay",
                                          "MC_BlockRelay_C11_sharedcancel_%s.cfg" % a[0], workers=2, timeout=600),
                         SHARED_CANCEL))
    for (name, inv), r in zip(SHARED_CANCEL, rs):
        if not (r["kind"] == "invariant" and r["violated"] == inv):
            raise vf.Broken("a %s fan-out with a shared context cancelled by the first failure no longer violates %s "
                            "in the model (%s %s)" % (name, inv, r["kind"], r["violated"]))
    vf.log("model self-check: shared-cancel fan-outs violate FailureIsolated / PreparationIsolated / ForwardedAll (as they must)")


def run(tier):
    v = vf.Verdict(PID, tier)
    v.assumptions = [
        "rounds, fetches and REST registrations do not overlap (the registration part is sequential; overlap with fetches is C12)",
        "relay and beacon-node fakes honour the call's context like an HTTP client; how the calls of one fan-out overlap is "
        "scripted per round (all at once / failing ones first, healthy ones in flight meanwhile / relay payload in batches)",
        "configuration source, accounts, relays, beacon nodes and scheduler are scripted fakes at the services' interfaces; "
        "the signer is the real standard signer with BLS keys (every 4th scenario in quick, all in thorough) or a hashing one",
    ]
    design_checks(v, tier)
    sc = scenarios(tier)
    vf.conformance(v, sc, driver, TRACE[0], TRACE[1], sig_of, nontrivial, tlc_timeout=1500, chunk=150)
    v.coverage["rule"] = ("input sequences defined by Scen_BlockRelay_C11.tla: every failure combination of one round per "
                          "document and every sequence of three configuration changes with a round after each (enumerated), "
                          "and TLC-simulated histories of fetches / rounds / preparations / REST "
                          "registrations (seeded), replayed on the real block relay and proposal preparer; non-trivial = "
                          "something was submitted and the scenario has a failure, an unresolvable validator or a second round; "
                          "distinct by step list")
    return v.finish()


def replay(path):
    v = vf.Verdict(PID, "quick")
    with open(os.path.join(path, "scenario.json")) as fh:
        s = json.load(fh)
    vf.conformance(v, [s], driver, TRACE[0], TRACE[1], sig_of, nontrivial)
    return 1 if v.violations else 0
