"""C11 — relays and beacon nodes are told exactly what the configuration says (spec/BlockRelay.tla,
registration part: registration rounds, preparation rounds, forwarding of REST registrations)."""
import json
import os
import random
from concurrent.futures import ThreadPoolExecutor
import vf

PID = "C11"
PKG = "./services/blockrelay/standard"
TEST = "TestVerifC11"
TRACE = ("Trace_BlockRelay_C11", "Trace_BlockRelay_C11.cfg")
# fifth round - the resolution clause on the WIRED instance (spec/BlockRelayResolve.tla): every entry point of the block
# relay that resolves proposer settings, on one instance, in every order, between installs
WIRED_TEST = "TestVerifC11Wired"
WIRED_TRACE = ("Trace_BlockRelayResolve", "Trace_BlockRelayResolve.cfg")
ACCT_DOCS = {1: (1,), 2: (1,), 3: (2,), 5: (1, 2)}     # document -> validators whose settings depend on the account


def driver(scenarios, tag):
    # bounded wait for the preparation goroutine to have called every node (only ever expires when a
    # node is not called at all); longer on the confirming re-runs
    # lat: how long a "slow" relay / node fake stays in flight watching its context (an ordering device: on a
    # tree where the property holds no context is cancelled, whatever the period)
    # a step (round, fetch, forwarding call, preparation) that has not returned after 2 * wd + 500 ms is recorded by the
    # driver's watchdog as Hung and the instance is abandoned
    wd, lat = 1500, 8
    if tag.startswith("confirm"):
        wd, lat = 5000, 40
    return vf.run_driver(PID, PKG, TEST, scenarios, tag, env={"VERIF_WATCHDOG_MS": wd, "VERIF_C11_LAT_MS": lat},
                         timeout=1500)


def wired_driver(scenarios, tag):
    # real block relay + real wallet account manager / validators manager + real signer + real preparer + go-builder-client
    # HTTP clients to recording relay servers; one instance per history; a step that does not return within the
    # watchdog is a Hung line (a wedge is a deadlock: it reproduces whatever the period)
    # (15 s: at a load average of 500 a refresh of the wallet account manager was once seen to take more than 5 s)
    wd = 15000
    if tag.startswith("confirm"):
        wd = 30000
    return vf.run_driver(PID, PKG, WIRED_TEST, scenarios, "wired-" + tag, env={"VERIF_WATCHDOG_MS": wd}, timeout=900)


def is_wired(s):
    return s.get("family", "").startswith("wired")


def wired_sig(s):
    st = s["steps"]
    return {"family": s["family"], "init": st[0].get("init", 0),
            "start": {"active": st[0].get("active", []), "pending": st[0].get("pending", [])},
            "steps": [x["ev"] + (":" + x["kind"] if x["ev"] == "Call" else "") +
                      (":%d" % x["doc"] if x["ev"] == "Fetch" else "") for x in st[1:]]}


def wired_nontrivial(s, rows):
    # the antecedent of the clause: in the lifetime of one installed document whose settings for a validator depend on
    # the ACCOUNT, an entry point other than the round / the preparer resolved that validator, and afterwards a round
    # registered it or the preparer prepared it
    doc, touched = 0, set()
    for r in rows:
        ev = r.get("ev")
        if ev == "Reset":
            doc, touched = r.get("init", 0), set()
        elif ev == "Fetch" and r.get("out") == "good" and r.get("asked"):
            doc, touched = r["doc"], set()
        elif ev == "Call":
            touched.add(r["v"])
        elif ev in ("Round", "Prep") and any(v in touched and v in ACCT_DOCS.get(doc, ()) for v in r.get("vs", [])):
            return True
    return False


def _bad_docs(s):
    return {d["id"]: set(d.get("bad", [])) for d in s["steps"][0].get("docs", [])}


def sig_of(s):
    """Which ingredients of the property a scenario has (used to match open findings)."""
    if is_wired(s):
        return wired_sig(s)
    bad = _bad_docs(s)
    active, unresolvable_round, failures, changes, errkinds = 0, False, False, 0, set()
    for st in s["steps"][1:]:
        if st["ev"] == "Fetch" and st.get("out") == "good":
            changes += 1 if st["doc"] != active else 0
            active = st["doc"]
        elif st["ev"] == "Round":
            accts = set(st.get("accts", []))
            if accts & bad.get(active, set()) and accts - bad.get(active, set()):
                unresolvable_round = True
            if st.get("signfail") or st.get("relayout") or st.get("nodeout"):
                failures = True
                errkinds |= {x[1] for x in st.get("relayout", []) + st.get("nodeout", [])}
                if st.get("signfail"):
                    errkinds.add(st.get("signkind", "err"))
        elif st["ev"] in ("Fwd", "Fwd2") and st.get("relayout"):
            failures = True
            errkinds |= {x[1] for x in st["relayout"]}
        elif st["ev"] == "Prep" and any(no[1] != "ok" for no in st.get("nodeout", [])):
            failures = True
            errkinds |= {no[1] for no in st["nodeout"] if no[1] != "ok"}
    return {"round_with_unresolvable_and_resolvable_validator": unresolvable_round,
            "has_failures": failures, "kinds": sorted({st["ev"] for st in s["steps"][1:]}),
            "error_kinds": sorted(errkinds), "family": s.get("family", "?")}


def nontrivial(s, rows):
    # the antecedent: a round in which registrations (or preparations) were really submitted, together
    # with a failure, an unresolvable validator, or an earlier round (reuse / change of content)
    submits = [r for r in rows if r.get("ev") in ("RelayStart", "NodeStart", "F2RelayStart") and r.get("regs")]
    preps = [r for r in rows if r.get("ev") == "PrepCall" and r.get("preps")]
    if not submits and not preps:
        return False
    sg = sig_of(s)
    rounds = sum(1 for st in s["steps"] if st["ev"] in ("Round", "Prep"))
    return sg["has_failures"] or sg["round_with_unresolvable_and_resolvable_validator"] or rounds >= 2


def scenarios(tier):
    quick = tier == "quick"
    n = 160 if quick else 2000
    gen = lambda cfg, name, **kw: vf.tlc_scenarios(PID, "Scen_BlockRelay_C11", cfg, name=name, timeout=900, heap="2g", **kw)
    # (the five generator runs are independent: run side by side)
    with ThreadPoolExecutor(max_workers=8) as ex:
        # (simulated histories: a step that picks the kind and the failure palette of the next one goes before every step)
        f_sim = ex.submit(gen, "Scen_BlockRelay_C11.cfg", "scen", num=n, depth=26)
        f_matrix = ex.submit(gen, "Scen_BlockRelay_C11_matrix.cfg" if quick else "Scen_BlockRelay_C11_matrix_big.cfg",
                             "scen-matrix", exhaustive=True)
        f_history = ex.submit(gen, "Scen_BlockRelay_C11_history.cfg" if quick else "Scen_BlockRelay_C11_history_big.cfg",
                              "scen-history", exhaustive=True)
        # a round with failures FOLLOWED by further rounds and a forwarding call on the same instance (every failure
        # combination x latency script x document), and the overlap family (a forwarding call and a fetch inside the
        # window of a held round)
        f_after = ex.submit(gen, "Scen_BlockRelay_C11_after.cfg", "scen-after", exhaustive=True)
        f_window = ex.submit(gen, "Scen_BlockRelay_C11_window.cfg", "scen-window", exhaustive=True)
        # the KIND of a failure (ordinary / the client's own time-out = wraps context.DeadlineExceeded / wraps
        # context.Canceled / ErrNotActive) and the POSITION of the failing node or relay, enumerated: every assignment
        # of the three preparation nodes, of the relays and of the secondary nodes of a registration round, of the relays
        # of a REST forwarding call - each followed by a healthy call of the same sort on the same instance
        f_kinds = [ex.submit(gen, "Scen_BlockRelay_C11_%s.cfg" % k, "scen-" + k, exhaustive=True)
                   for k in ("prepkinds", "regkinds", "fwdkinds")]
        sim, matrix, history = f_sim.result()[:n], f_matrix.result(), f_history.result()
        after, window = f_after.result(), f_window.result()
        prepkinds, regkinds, fwdkinds = [f.result() for f in f_kinds]
    rnd = random.Random(vf.seed())

    def single_first(hs, step, quota):
        """Every history whose step has exactly one failing relay / node - each position x each kind - first, then a
        sample of the others."""
        hs = list(hs)
        rnd.shuffle(hs)
        seen, must, rest = set(), [], []
        for h in hs:
            st = h[step]
            f = [("R", x[0], x[1]) for x in st.get("relayout", []) if x[1] != "ok"] + \
                [("N", x[0], x[1]) for x in st.get("nodeout", []) if x[1] != "ok"]
            if len(f) == 1 and f[0] not in seen:
                seen.add(f[0])
                must.append(h)
            else:
                rest.append(h)
        return must + rest[:max(0, quota - len(must))]

    rnd.shuffle(matrix)
    matrix = matrix[:100 if quick else 1000]
    # every failing relay set x document once, the rest sampled
    rnd.shuffle(after)
    seen, must, rest = set(), [], []
    for h in after:
        k = (h[1]["doc"], tuple(x[0] for x in h[2]["relayout"]))
        (rest if k in seen else must).append(h)
        seen.add(k)
    after = must + rest[:36 if quick else 700]
    rnd.shuffle(window)
    window = window[:60 if quick else 576]
    if quick:
        prepkinds = single_first(prepkinds, 2, 90)
        regkinds = single_first(regkinds, 2, 50)
        fwdkinds = single_first(fwdkinds, 2, 24)
    fams = [("matrix", matrix), ("history", history), ("after", after), ("window", window),
            ("prepkinds", prepkinds), ("regkinds", regkinds), ("fwdkinds", fwdkinds), ("sim", sim)]
    out = []
    for fam, hs in fams:
        for h in hs:
            out.append({"sc": len(out) + 1, "family": fam, "steps": h})
    return out


def wired_scenarios(tier, first_id):
    """Histories of the entry points that RESOLVE (Scen_BlockRelayResolve.tla): the two scripted families are enumerated
    by TLC and run completely (a wired history costs ~10 ms), the simulated ones are seeded."""
    n = 120 if tier == "quick" else 1500
    gen = lambda cfg, name, **kw: vf.tlc_scenarios(PID, "Scen_BlockRelayResolve", cfg, name=name, timeout=900, heap="1g", **kw)
    with ThreadPoolExecutor(max_workers=3) as ex:
        f_poison = ex.submit(gen, "Scen_BlockRelayResolve_poison.cfg", "scen-res-poison", exhaustive=True)
        f_refetch = ex.submit(gen, "Scen_BlockRelayResolve_refetch.cfg", "scen-res-refetch", exhaustive=True)
        f_sim = ex.submit(gen, "Scen_BlockRelayResolve.cfg", "scen-res", num=n, depth=12)
        fams = [("wired-poison", f_poison.result()), ("wired-refetch", f_refetch.result()), ("wired-sim", f_sim.result()[:n])]
    out = []
    for fam, hs in fams:
        for h in hs:
            out.append({"sc": first_id + len(out), "family": fam, "steps": h})
    return out


RESOLVE_MC = ["MC_BlockRelayResolve.cfg", "MC_BlockRelayResolve_memo_acct.cfg",
              # the control design under the alphabets the check used to have: only the entry points that hand the
              # account over / only documents whose entries name public keys - nothing to see there (must pass)
              "MC_BlockRelayResolve_memo_pubkey_old_kinds.cfg", "MC_BlockRelayResolve_memo_pubkey_old_docs.cfg"]
# 'memo keyed by public key' with every entry point, and with each nil-account sibling alone: TLC must reject
RESOLVE_CONTROLS = ["memo_pubkey", "memo_pubkey_fwd", "memo_pubkey_unblind", "memo_pubkey_bid"]


def resolve_design_checks(v, tier):
    with ThreadPoolExecutor(max_workers=4) as ex:
        mcs = [ex.submit(vf.tlc_exhaustive, PID, "BlockRelayResolve", c, workers=2, timeout=900, heap="1g",
                         name="mc-res-" + c[len("MC_BlockRelayResolve"):-4].strip("_")) for c in RESOLVE_MC]
        rs = list(ex.map(lambda c: vf.tlc(PID, "mc-res-" + c, "BlockRelayResolve", "MC_BlockRelayResolve_%s.cfg" % c,
                                          workers=2, timeout=600, heap="1g"), RESOLVE_CONTROLS))
        for c, r in zip(RESOLVE_CONTROLS, rs):
            if not (r["kind"] == "invariant" and r["violated"] in ("RegistrationsFollowConfig", "PreparationsFollowConfig")):
                raise vf.Broken("the control model %s (resolved settings remembered per PUBLIC KEY until the next install, "
                                "the account left out of the key) is no longer rejected (%s %s)" % (c, r["kind"], r["violated"]))
        done = [f.result() for f in mcs]
    vf.log("model self-check (resolution clause): settings remembered per public key until the next install violate "
           "RegistrationsFollowConfig / PreparationsFollowConfig as soon as a nil-account entry point (forwarded registration, "
           "unblinding, immediate bid - each alone) resolves a validator before the round; the same design passes when only the "
           "round / preparer / auction resolve or when every entry names a public key; remembered per (public key, account) "
           "everything holds (as they must)")
    return done


KIND_CONTROLS = [("prep_giveup", ("PreparationIsolated",)), ("reg_giveup", ("FailureIsolated",)),
                 ("kindcancel", ("FailureIsolated", "PreparationIsolated", "ForwardedAll"))]

SHARED_CANCEL = [("relays", "FailureIsolated"), ("nodes", "FailureIsolated"), ("prep", "PreparationIsolated"),
                 ("fwd", "ForwardedAll")]


def _leaky(r):
    # "Temporal property RoundReturns was violated" / "Temporal properties RoundReturns and F2Returns were violated"
    import re
    return re.search(r"Temporal propert(y|ies) [^\n]*(RoundReturns|F2Returns)[^\n]* w(as|ere) violated", r["out"]) is not None


def design_checks(v, tier):
    # long histories with a coarse fan-out (whole payloads, calls succeed); the fan-out in full detail (overlapping
    # calls, partial deliveries, every outcome) on short ones; and histories of three calls on one instance in full
    # detail, with the forwarding call that overlaps a round (second lane) and a fetch inside a round: every invariant,
    # and CallsProgress (a call in flight is never stuck, whatever the earlier calls on the instance did)
    # (these three with the alphabet of failures narrowed to one kind - ErrKinds <- ErrKindsOne: no action or invariant of
    # the intended protocol tells the kinds apart); the FULL alphabet (ordinary / time-out / cancelled / not active, at any
    # point of a call, any position among three preparation nodes) one fan-out at a time: MC_.._kinds_prep / _kinds_reg
    mcs = [("MC_BlockRelay_C11.cfg", 900), ("MC_BlockRelay_C11_fanout.cfg", 900), ("MC_BlockRelay_C11_calls.cfg", 900),
           ("MC_BlockRelay_C11_kinds_prep.cfg", 900), ("MC_BlockRelay_C11_kinds_reg.cfg", 900),
           # the control models of the failure KIND under the alphabet the model used to have: they change nothing there
           ("MC_BlockRelay_C11_kinds_plain.cfg", 900)]
    if tier == "thorough":
        mcs += [("MC_BlockRelay_C11_fanout3.cfg", 1500), ("MC_BlockRelay_C11_big.cfg", 1500), ("MC_BlockRelay_C11_big2.cfg", 1500)]
    mc_pool = ThreadPoolExecutor(max_workers=len(mcs))
    # (heaps: the largest quick configuration has 58 k states; the machine's 62 GB are shared by every builder's TLC runs
    # and the kernel's OOM killer ends the largest JVMs first)
    mc_heap = "2g" if tier == "quick" else "4g"
    mc_futs = [mc_pool.submit(vf.tlc_exhaustive, PID, "BlockRelay", c, workers=4, timeout=t, heap=mc_heap) for c, t in mcs]
    # the model must keep its discriminating power: a fan-out whose calls share one context that the first
    # failing call cancels (errgroup.WithContext) violates the isolation invariants; and - state carried on the
    # instance between calls - a per-relay submission slot that is not given back after a relay's error makes a
    # later round get stuck (CallsProgress / RoundReturns), although every single round on a fresh instance is right;
    # with the slot given back on every path everything holds (thorough).
    # and - the KIND of a failure - designs that read "our own context is done" from the error value a relay / node
    # returned (a preparation loop that abandons the nodes configured after one that timed out; a registration round that
    # does not go on to the beacon nodes; a fan-out context cancelled by such a failure): right under the old alphabet
    # (MC_.._kinds_plain passes, above), rejected under the full one.
    jobs = [("sharedcancel_" + a[0], 600) for a in SHARED_CANCEL] + [("slot_leaky", 900)] + [(k[0], 600) for k in KIND_CONTROLS]
    if tier == "thorough":
        # the same with TLC's liveness checking (RoundReturns, F2Returns as temporal properties)
        jobs += [("live", 1500), ("slot_defer", 1500), ("slot_leaky_live", 1500)]
    with ThreadPoolExecutor(max_workers=len(jobs)) as ex:
        rs = dict(zip([j[0] for j in jobs],
                      ex.map(lambda j: vf.tlc(PID, "mc-" + j[0], "BlockRelay", "MC_BlockRelay_C11_%s.cfg" % j[0],
                                              workers=2, timeout=j[1], heap="2g" if j[1] <= 900 else "4g"), jobs)))
    for name, inv in SHARED_CANCEL:
        r = rs["sharedcancel_" + name]
        if not (r["kind"] == "invariant" and r["violated"] == inv):
            raise vf.Broken("a %s fan-out with a shared context cancelled by the first failure no longer violates %s "
                            "in the model (%s %s)" % (name, inv, r["kind"], r["violated"]))
    for name, invs in KIND_CONTROLS:
        r = rs[name]
        if not (r["kind"] == "invariant" and r["violated"] in invs):
            raise vf.Broken("the control model %s (a failure of the time-out / cancelled kind taken for the caller's own context "
                            "being done) is no longer rejected under the full alphabet of failure kinds (%s %s)"
                            % (name, r["kind"], r["violated"]))
    r = rs["slot_leaky"]
    if not (r["kind"] == "invariant" and r["violated"] == "CallsProgressSlotLeaky"):
        raise vf.Broken("a per-relay slot that is kept after a relay's error no longer gets a later call stuck in the model "
                        "(%s %s)" % (r["kind"], r["violated"]))
    if "slot_leaky_live" in rs and not _leaky(rs["slot_leaky_live"]):
        raise vf.Broken("a per-relay slot that is kept after a relay's error no longer violates RoundReturns in the model")
    for name in ("live", "slot_defer"):
        if name in rs:
            r = rs[name]
            if r["timed_out"] or not r["ok"]:
                raise vf.Broken("TLC run of MC_BlockRelay_C11_%s.cfg did not pass (%s %s)\n%s"
                                % (name, r["kind"], r["violated"], r["out"][-2500:]))
            v.add_mc(r)
            vf.log("TLC BlockRelay/MC_BlockRelay_C11_%s.cfg: %d states generated, %d distinct, %.1fs"
                   % (name, r["generated"], r["distinct"], r["wall_s"]))
    for f in mc_futs:
        v.add_mc(f.result())
    mc_pool.shutdown()
    vf.log("model self-check: shared-cancel fan-outs violate FailureIsolated / PreparationIsolated / ForwardedAll; a leaked "
           "per-relay slot violates RoundReturns; giving up on the other nodes / relays after a failure of the time-out or "
           "cancelled kind violates PreparationIsolated / FailureIsolated under the full alphabet and nothing under the old one "
           "(as they must)")


def run(tier):
    v = vf.Verdict(PID, tier)
    v.assumptions = [
        "one service instance per history; steps run one after the other except inside the window of a held round (the "
        "healthy relays keep the round's calls in flight while a REST forwarding call and a fetch run to completion); "
        "two registration rounds never overlap (the service skips a round while one is in progress)",
        "relay and beacon-node fakes honour the call's context like an HTTP client; how the calls of one fan-out overlap is "
        "scripted per round (all at once / failing ones first, healthy ones in flight meanwhile / relay payload in batches)",
        "a scripted-failing relay / beacon node / signing request / configuration source fails with the KIND of error the "
        "scenario names, built as go-eth2-client / go-builder-client build theirs (a derived per-call context that really "
        "times out or is cancelled while the caller's is live, wrapped with errors.Join + *url.Error, pkg/errors, %w or bare)",
        "configuration source, accounts, relays, beacon nodes and scheduler are scripted fakes at the services' interfaces; "
        "the signer is the real standard signer with BLS keys (every 4th scenario in quick, all in thorough) or a hashing one",
    ]
    v.assumptions.append(
        "wired family (resolution clause): real block relay, wallet account manager over a filesystem wallet store, validators "
        "manager, signer, preparer and go-builder-client HTTP clients; fakes at the configuration source, the relay HTTP "
        "servers, the beacon-node interfaces and the bid strategy; steps of a history run one after the other")
    # VERIF_C11_PART=wired|fakes runs one half only (a development aid on a loaded machine; a run for the record sets nothing)
    part = os.environ.get("VERIF_C11_PART", "")
    def wired_part(f_wsc):
        # the wired family runs beside the model checking (its replay directories are numbered from 101; nothing else
        # saves a replay while it runs)
        wsc = f_wsc.result()
        orig = vf.save_replay
        vf.save_replay = lambda pid, n, *a: orig(pid, n + 100, *a)
        try:
            vf.conformance(v, wsc, wired_driver, WIRED_TRACE[0], WIRED_TRACE[1], sig_of, wired_nontrivial, tlc_timeout=900,
                           chunk=250, max_failures=3, heap="1g")
        finally:
            vf.save_replay = orig

    with ThreadPoolExecutor(max_workers=5) as ex:      # model checking, scenario generation and the wired family side by side
        f_sc = ex.submit(scenarios, tier) if part != "wired" else None
        f_wsc = ex.submit(wired_scenarios, tier, 1000001) if part != "fakes" else None
        f_res = ex.submit(resolve_design_checks, v, tier) if part != "fakes" else None
        f_w = ex.submit(wired_part, f_wsc) if f_wsc else None
        if part != "wired":
            design_checks(v, tier)
        for r in (f_res.result() if f_res else []):
            v.add_mc(r)
        sc = f_sc.result() if f_sc else []
        if f_w:
            f_w.result()
    if sc:
        vf.conformance(v, sc, driver, TRACE[0], TRACE[1], sig_of, nontrivial, tlc_timeout=1500, chunk=150, heap="2g")
    v.coverage["rule"] = ("input sequences defined by Scen_BlockRelay_C11.tla: every failure combination of one round per "
                          "document, every sequence of three configuration changes with a round after each, a round with "
                          "every failure combination followed by further rounds and a forwarding call on the same instance, "
                          "a forwarding call and a fetch inside the window of a held round, every assignment of failure kinds "
                          "(ordinary / time-out / cancelled / not active) to the three preparation nodes, to the relays and "
                          "secondary nodes of a round and to the relays of a forwarding call, each followed by a healthy call "
                          "(enumerated; quick samples, every single position x kind always), "
                          "and TLC-simulated histories of fetches / rounds (also held ones with such windows) / preparations "
                          "/ REST registrations (seeded), replayed on ONE real block relay and proposal preparer per history; non-trivial = "
                          "something was submitted and the scenario has a failure, an unresolvable validator or a second round; "
                          "distinct by step list. Wired family (resolution clause, Scen_BlockRelayResolve.tla): every history "
                          "'fetch a document ; another entry point - forwarded registration, unblinding, auction, immediate bid - "
                          "resolves a validator that is pending / foreign / active ; it becomes active (activation epoch reported / "
                          "account imported) ; round ; preparation (either order)' and 'fetch ; round ; preparation ; fetch ; other "
                          "entry point ; round ; preparation' over five version-2 documents with account-regex entries (enumerated, "
                          "all run), and TLC-simulated histories over every entry point (seeded), each on ONE wired instance; "
                          "non-trivial = an entry point other than the round / preparer resolved a validator whose settings depend "
                          "on the account within the lifetime of the installed document, and the validator was registered / prepared "
                          "afterwards")
    return v.finish()


def replay(path):
    v = vf.Verdict(PID, "quick")
    with open(os.path.join(path, "scenario.json")) as fh:
        s = json.load(fh)
    if is_wired(s):
        vf.conformance(v, [s], wired_driver, WIRED_TRACE[0], WIRED_TRACE[1], sig_of, wired_nontrivial)
        return 1 if v.violations else 0
    vf.conformance(v, [s], driver, TRACE[0], TRACE[1], sig_of, nontrivial)
    return 1 if v.violations else 0
