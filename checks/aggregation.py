"""The aggregation pipelines that run after the duties of C14 / C15 (spec/Aggregation.tla).

Not a check of its own: checks/C14.py runs pipeline (A) (attestationaggregator/standard Aggregate) and
checks/C15.py pipeline (B) (synccommitteeaggregator/standard SetBeaconBlockRoot / Aggregate) as an
additional conformance block; states and traces are counted in the Verdict of the calling check.

  start(pid, pipeline, tier)         exhaustive TLC run(s) and the scenario enumeration, in the background
  finish(v, handle)                  model-checking counts into v; scenarios on the real service; TLC
                                     validates the recorded traces against Trace_Aggregation
  replay(v, pid, scenario)           one saved scenario again
"""
import concurrent.futures
import json
import random
import vf

PKG = {"A": "./services/attestationaggregator/standard", "B": "./services/synccommitteeaggregator/standard"}
TEST = {"A": "TestVerifAggA", "B": "TestVerifAggB"}
ID0 = 500000           # scenario ids of this block (those of the calling check start at 1)
REPLAY0 = 100          # violations/<n> directories of this block


def _driver(pid, pipeline):
    def driver(scenarios, tag):
        return vf.run_driver(pid, PKG[pipeline], TEST[pipeline], scenarios, "agg-" + tag)
    return driver


def jobs(steps):
    """The jobs of a scenario: list of lists of steps, each from AStart/BStart to ADone/BDone."""
    out, cur = [], None
    for st in steps:
        if st["ev"] in ("AStart", "BStart"):
            cur = [st]
            out.append(cur)
        elif cur is not None and st["ev"] not in ("BSetRoot", "BNewHead"):
            cur.append(st)
    return out


def features(s):
    """What a scenario exercises (to pick and describe scenarios; never for the verdict)."""
    steps = s["steps"]
    f = {"pipeline": "aggregation-" + s["pipeline"]}
    if s["pipeline"] == "A":
        f.update({"fetch_err": False, "acct_err": False, "acct_none": False, "sign_err": False, "sign_zero": False,
                  "submit_err": False, "clean": False, "clean_after_failure": False, "same_duty_twice": False})
        failed_before, duties = False, []
        for j in jobs(steps):
            evs = {st["ev"]: st for st in j}
            bad = False
            if evs.get("AFetch", {}).get("err"):
                f["fetch_err"] = bad = True
            if evs.get("AAccounts", {}).get("res") in ("err", "none"):
                f["acct_" + evs["AAccounts"]["res"]] = bad = True
            if evs.get("ASign", {}).get("res") in ("err", "zero"):
                f["sign_" + evs["ASign"]["res"]] = bad = True
            if "ASubmit" in evs and not evs["ASubmit"]["ok"]:
                f["submit_err"] = bad = True
            if not bad:
                f["clean"] = True
                f["clean_after_failure"] |= failed_before
            failed_before |= bad
            f["same_duty_twice"] |= j[0]["duty"] in duties
            duties.append(j[0]["duty"])
    else:
        f.update({"remembered": False, "from_head": False, "head_changed_since": False, "head_err": False,
                  "fetch_err": False, "sign_err": False, "zero_one_of_several": False, "submit_err": False,
                  "clean": False, "other_slot_remembered": False, "two_subs_one_validator": False,
                  "two_validators_one_sub": False, "noacct": False, "same_slot_twice": False})
        rem, changed, done_slots = {}, set(), []
        cur = None
        for st in steps:
            ev = st["ev"]
            if ev == "BSetRoot":
                rem[st["slot"]] = st["root"]
                changed.discard(st["slot"])
            elif ev == "BNewHead":
                changed |= set(rem)
            elif ev == "BStart":
                cur = st["duty"]
                slot, sel = cur["slot"], cur["sel"]
                if cur["noacct"]:
                    f["noacct"] = True
                if slot in rem:
                    f["remembered"] = True
                    f["head_changed_since"] |= slot in changed
                    f["other_slot_remembered"] |= len(rem) > 1
                else:
                    f["from_head"] = True
                f["same_slot_twice"] |= slot in done_slots
                done_slots.append(slot)
                rem.pop(slot, None)
                vs = [p["v"] for p in sel]
                subs = [p["sub"] for p in sel]
                f["two_subs_one_validator"] |= len(set(vs)) < len(vs)
                f["two_validators_one_sub"] |= len(set(subs)) < len(subs)
            elif ev == "BHeadRoot" and st["err"]:
                f["head_err"] = True
            elif ev == "BFetch" and st["err"]:
                f["fetch_err"] = True
            elif ev == "BSign":
                if st["err"]:
                    f["sign_err"] = True
                elif st["zero"] and len(st["zero"]) < len(cur["sel"]):
                    f["zero_one_of_several"] = True
            elif ev == "BSubmit":
                if not st["ok"]:
                    f["submit_err"] = True
                elif not any(x["ev"] == "BSign" and x["zero"] for x in steps):
                    f["clean"] = True
    return f


def sig_of(s):
    return features(s)


def nontrivial(s, rows):
    # exercises the antecedent: a job in which the aggregate / a contribution was really obtained
    return any(r.get("ev") in ("AFetch", "BFetch") and not r["res"]["err"] for r in rows)


def start(pid, pipeline, tier):
    """Start the exhaustive run and the scenario enumeration (independent TLC processes) on a thread pool
    of their own, beside whatever the calling check does next."""
    pool = concurrent.futures.ThreadPoolExecutor(max_workers=3)
    h = {"pid": pid, "pipeline": pipeline, "tier": tier, "pool": pool}
    mc = "MC_Aggregation_%s.cfg" % pipeline
    h["mc"] = [pool.submit(vf.tlc_exhaustive, pid, "Aggregation", mc, workers=4)]
    # every way one Aggregate call (A: two in a row) can meet its environment, enumerated by TLC
    h["scen"] = pool.submit(vf.tlc_scenarios, pid, "Scen_Aggregation", "Scen_Aggregation_%s.cfg" % pipeline,
                            exhaustive=True, name="scen-agg", timeout=600)
    h["scen2"] = None
    if pipeline == "B":
        # histories of two jobs on one service instance (simulation; far too many to enumerate)
        h["scen2"] = pool.submit(vf.tlc_scenarios, pid, "Scen_Aggregation", "Scen_Aggregation_B2.cfg",
                                 num=150 if tier == "quick" else 3000, depth=24, name="scen-agg2",
                                 aseed=vf.seed() + 4000)
    return h


def pick(pipeline, tier, hists, hists2):
    rnd = random.Random(vf.seed())
    hists = sorted(hists, key=lambda h: json.dumps(h, sort_keys=True))
    rnd.shuffle(hists)
    hists2 = list(hists2 or [])
    rnd.shuffle(hists2)
    if tier == "quick":
        cap, per, cap2 = (140, 6, 0) if pipeline == "A" else (150, 6, 60)
    else:
        cap, per, cap2 = len(hists), 0, len(hists2)
    picked, seen = [], set()

    def take(h, lim):
        k = json.dumps(h, sort_keys=True)
        if k not in seen and len(picked) < lim:
            seen.add(k)
            picked.append(h)

    def force(pool, lim):
        # every class of outcome / history at least `per` times
        feats = [features({"pipeline": pipeline, "steps": h}) for h in pool[:4000]]
        for key in [k for k in feats[0] if k != "pipeline"] if feats else []:
            n = 0
            for h, f in zip(pool, feats):
                if f[key]:
                    take(h, lim)
                    n += 1
                    if n >= per:
                        break

    if per:
        force(hists, cap)
    for h in hists:
        take(h, cap)
    if per:
        force(hists2, cap + cap2)
    for h in hists2[:cap2]:
        take(h, cap + cap2)
    return [{"sc": ID0 + i, "pipeline": pipeline, "steps": h} for i, h in enumerate(picked)]


def _conformance(v, pid, pipeline, scenarios, chunk=None):
    orig = vf.save_replay
    vf.save_replay = lambda p, n, sc, rows, note: orig(p, REPLAY0 + n, sc, rows, note)
    try:
        return vf.conformance(v, scenarios, _driver(pid, pipeline), "Trace_Aggregation", "Trace_Aggregation.cfg",
                              sig_of, nontrivial, chunk=chunk)
    finally:
        vf.save_replay = orig


def finish(v, h):
    pid, pipeline, tier = h["pid"], h["pipeline"], h["tier"]
    try:
        for f in h["mc"]:
            v.add_mc(f.result())
        hists = h["scen"].result()
        hists2 = h["scen2"].result() if h["scen2"] else None
    finally:
        h["pool"].shutdown(wait=False)
    if tier == "thorough":
        v.add_mc(vf.tlc_exhaustive(pid, "Aggregation", "MC_Aggregation_%s_big.cfg" % pipeline, timeout=1200))
    sc = pick(pipeline, tier, hists, hists2)
    vf.log("aggregation pipeline (%s): %d scenarios" % (pipeline, len(sc)))
    _conformance(v, pid, pipeline, sc, chunk=None if tier == "quick" else 2000)
    v.assumptions.append(
        "aggregation pipeline (%s) of spec/Aggregation.tla: every interface of the real aggregator service is a scripted, "
        "recording fake; an answer without error is an aggregate / contribution for the requested slot and root; "
        "SLOTS_PER_EPOCH = 4; jobs of one service instance run one after the other" % pipeline)


def is_mine(scenario):
    return scenario.get("pipeline") in ("A", "B")


def replay(v, pid, scenario):
    _conformance(v, pid, scenario["pipeline"], [scenario])
