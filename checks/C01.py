"""C01 — a validator never attests twice in an epoch, and only for its duty epoch (spec/Attester.tla).

Second block: the system-level half (spec/Vouch.tla = controller + scheduler + attester composed): the
attester's environment assumption EnvWindow is a theorem of the composition under EnvLateness, and
traces of the real controller on the real scheduler with the real attester are behaviours of it."""
import json
import os
import threading
import vf

PID = "C01"
PKG = "./services/attester/standard"
TEST = "TestVerifC01"
TRACE = ("Trace_Attester", "Trace_Attester_C01.cfg")
SPE = 32


def driver(scenarios, tag):
    return vf.run_driver(PID, PKG, TEST, scenarios, tag)


def _epochs(steps):
    return [st["duty"]["slot"] // SPE for st in steps if st["ev"] == "Deliver"]


def _bad_data(steps):
    slot = {}
    kinds = set()
    for st in steps:
        if st["ev"] == "Deliver":
            slot[st["run"]] = st["duty"]["slot"]
        if st["ev"] == "Fetch" and not st.get("err"):
            d, s = st["data"], slot[st["run"]]
            if d["slot"] != s:
                kinds.add("slot")
            elif d["tgt"] > s // SPE:
                kinds.add("target_above")
            elif d["tgt"] < s // SPE:
                kinds.add("target_below")
            elif d["src"] > d["tgt"]:
                kinds.add("source_above_target")
    return kinds


def sig_of(s):
    k = _bad_data(s["steps"])
    return {"mode": s["mode"], "strategy": s["strategy"], "target_below_duty_epoch": "target_below" in k}


def nontrivial(s, rows):
    # antecedent of NoDoubleSign: some validator is delivered twice for one epoch - in two duties or at two
    # places of ONE duty; antecedent of RefusedMeansNoSign: the service received data that does not meet the rule
    seen, twice = set(), False
    slot = {}
    bad = False
    for r in rows:
        if r["ev"] == "Deliver":
            slot[r["run"]] = r["duty"]["slot"]
            for v in r["duty"]["vals"]:
                k = (r["duty"]["slot"] // SPE, v)
                twice = twice or k in seen
                seen.add(k)
        if r["ev"] == "Fetch" and not r["err"]:
            d, sl = r["data"], slot[r["run"]]
            bad = bad or not (d["slot"] == sl and d["tgt"] == sl // SPE and d["src"] <= d["tgt"])
    return twice or bad


SHAPE_SC = 5001


def shape_scenarios(tier):
    """The shape of ONE duty, enumerated exhaustively by TLC (Scen_Attester, mode "shape"): every sequence of entries
    over the validators (a validator listed once / again / three times, repeated entries in the same or another
    committee), on a fresh instance or after a run that marked any subset, any subset without account, any subset
    unsigned or the signer failing.  One history = one scenario; all run gated."""
    cfg = "Scen_Attester_shape.cfg" if tier == "quick" else "Scen_Attester_shapebig.cfg"
    hs = vf.tlc_scenarios(PID, "Scen_Attester", cfg, exhaustive=True, workers=4, timeout=900, name="scen-shape")
    hs = sorted(hs, key=lambda h: json.dumps(h, sort_keys=True))     # the order TLC's workers print in is not stable
    return [{"sc": SHAPE_SC + i, "mode": "gated", "strategy": "", "merge": False, "steps": h} for i, h in enumerate(hs)]


def scenarios(tier):
    n = 260 if tier == "quick" else 4000
    cap = 220 if tier == "quick" else 3000
    hs = vf.tlc_scenarios(PID, "Scen_Attester", "Scen_Attester_hist.cfg", num=n, depth=90,
                          timeout=300 if tier == "quick" else 900)
    out = []
    strategies = ["best", "majority", "first"]
    for i, h in enumerate(hs[:cap]):
        ep = _epochs(h)
        mode, strategy = "gated", ""
        if i % 4 == 1 and ep and max(ep) - min(ep) <= 1:
            # all runs of the scenario start together, no gates: real interleaving of the marking
            # loops (only scenarios inside Env_Window whatever the start order)
            mode = "free"
        elif i % 4 == 2:
            strategy = strategies[(i // 4) % 3]
        elif i % 8 == 7 and ep and max(ep) - min(ep) <= 1:
            mode, strategy = "free", strategies[(i // 8) % 3]
        out.append({"sc": i + 1, "mode": mode, "strategy": strategy, "merge": False, "steps": h})
    return out + shape_scenarios(tier)


# ---------------------------------------------------------------------------------------------
# wired family: spec/AttesterAM.tla (attester + account manager + validators manager records),
# Scen_AttesterAM.tla, Trace_AttesterAM.tla, TestVerifC01Wired (real dirk / wallet account manager, real
# validators manager, real signer behind the real attester)
# ---------------------------------------------------------------------------------------------
WIRED_TEST = "TestVerifC01Wired"
WIRED_TRACE = ("Trace_AttesterAM", "Trace_AttesterAM.cfg")
WSHAPE_SC = 20001
WIRED_SC = 30001


def wired_driver(scenarios, tag):
    return vf.run_driver(PID, PKG, WIRED_TEST, scenarios, "wired-" + tag)


def wired_sig(s):
    # same keys as sig_of: a wired history never matches the attester-level finding
    return {"mode": "wired", "strategy": "", "target_below_duty_epoch": False, "am": s["steps"][0].get("am"),
            "family": s["steps"][0].get("mode")}


def wired_nontrivial(s, rows):
    # the antecedent the fake account manager could not reach: the REAL account manager was asked by a run whose
    # validators were all marked already (empty index list), or for a part of its duty only (partial list)
    n = {}
    for r in rows:
        if r["ev"] == "Deliver":
            n[r["run"]] = len(set(r["duty"]["vals"]))
        if r["ev"] == "Accounts" and len(r["req"]) < n.get(r["run"], 0):
            return True
    return False


def wired_scenarios(tier):
    """Histories for the wired stack.  (a) enumerated exhaustively by TLC (Scen_AttesterAM, mode wshape): for each
    sibling account manager, a run that marks any non-empty subset S of the duty validators, optionally a refresh
    (an account dropped / a validator the node no longer knows), then a duty over any non-empty T in the same epoch,
    same slot or later: T inside S is the re-delivered duty whose validators are ALL marked.  (b) TLC-simulated
    multi-run histories (mode wired): half of the deliveries are re-deliveries, refreshes with random accounts and
    records, direct questions with empty / repeated / unknown index lists, node / signer / submitter failures."""
    cfg = "Scen_AttesterAM_wshape.cfg" if tier == "quick" else "Scen_AttesterAM_wshapebig.cfg"
    hs = vf.tlc_scenarios(PID, "Scen_AttesterAM", cfg, exhaustive=True, workers=4, timeout=900, name="scen-wshape")
    hs = sorted(hs, key=lambda h: json.dumps(h, sort_keys=True))
    out = [{"sc": WSHAPE_SC + i, "kind": "wired", "steps": h} for i, h in enumerate(hs)]
    want = 60 if tier == "quick" else 800
    ws = vf.tlc_scenarios(PID, "Scen_AttesterAM", "Scen_AttesterAM_wired.cfg", num=(30 if tier == "quick" else 400), depth=100,
                          timeout=300 if tier == "quick" else 900, name="scen-wired")
    return out + [{"sc": WIRED_SC + i, "kind": "wired", "steps": h} for i, h in enumerate(ws[:want])]


def wired_conformance(v, sc):
    # replay directories of this block are numbered from 201
    orig = vf.save_replay
    vf.save_replay = lambda pid, n, *a: orig(pid, n + 200, *a)
    try:
        vf.conformance(v, sc, wired_driver, WIRED_TRACE[0], WIRED_TRACE[1], wired_sig, wired_nontrivial, dfs=True,
                       chunk=None if len(sc) < 400 else 400)
    finally:
        vf.save_replay = orig


def _expect_am_rejected(cfg, inv, timeout=600):
    """A control design of the account manager (AttesterAM!Deviate, for ONE of the sibling implementations) must be
    rejected by TLC: otherwise the histories of the model never reach the contract the attester relies on."""
    r = vf.tlc(PID, "mc-" + cfg.replace(".cfg", ""), "MC_AttesterAM", cfg, workers=2, timeout=timeout, heap="2g")
    if r["timed_out"] or r["kind"] != "invariant" or r["violated"] != inv:
        raise vf.Broken("%s should violate %s (vacuous account manager model?): %s %s\n%s" % (cfg, inv, r["kind"], r["violated"], r["out"][-1500:]))
    vf.log("TLC MC_AttesterAM/%s: %s violated as it must be (%d distinct states, %.1fs)" % (cfg, inv, r["distinct"], r["wall_s"]))


def am_model(tier, out):
    """The composition attester + account manager + validators manager records (fourth thread): every C01 invariant,
    SignOnlyClaimed and the ByIndex contract for EACH sibling implementation, refreshes before any lookup; the control
    designs - an empty index list read as "no restriction" (dirk alone, wallet alone), the indices ignored - rejected."""
    try:
        res = [vf.tlc_exhaustive(PID, "MC_AttesterAM", "MC_AttesterAM.cfg", workers=4, timeout=2400, heap="3g"),
               vf.tlc_exhaustive(PID, "MC_AttesterAM", "MC_AttesterAM_ask.cfg", workers=2, timeout=600, heap="2g")]
        _expect_am_rejected("MC_AttesterAM_empty_all_dirk.cfg", "NoDoubleSign")
        _expect_am_rejected("MC_AttesterAM_empty_all_wallet.cfg", "NoDoubleSign")
        _expect_am_rejected("MC_AttesterAM_ignore_indices.cfg", "NoDoubleSign")
        _expect_am_rejected("MC_AttesterAM_ask_empty_all.cfg", "ByIndexSubset")
        if tier == "thorough":
            res.append(vf.tlc_exhaustive(PID, "MC_AttesterAM", "MC_AttesterAM_big.cfg", workers=4, timeout=1800, heap="4g"))
        out["mc"] = res
    except BaseException as e:      # re-raised by the caller
        out["err"] = e


# ---------------------------------------------------------------------------------------------
# system level: spec/Vouch.tla, Scen_Vouch.tla, Trace_Vouch.tla, TestVerifVouch
# ---------------------------------------------------------------------------------------------
VOUCH_PKG = "./services/controller/standard"
VOUCH_TEST = "TestVerifVouch"
VOUCH_TRACE = ("Trace_Vouch", "Trace_Vouch.cfg")
VOUCH_SLOT_MS = 240


def vouch_driver(scenarios, tag):
    return vf.run_driver(PID, VOUCH_PKG, VOUCH_TEST, scenarios, "vouch-" + tag, timeout=900)


def vouch_sig(s):
    # same keys as sig_of: a system-level scenario never matches the attester-level finding
    return {"mode": "vouch", "strategy": "", "target_below_duty_epoch": False, "ft": s["steps"][0].get("ft")}


def vouch_nontrivial(s, rows):
    # the composition is exercised: a refresh withdrew a waiting job (cancel + re-schedule under the same
    # name), the fast track started a job, or a job body outlived its slot
    slow = bool(rows and rows[0].get("slow"))
    return slow or any((r["ev"] == "Cancel" and r["ok"]) or r["ev"] == "Run" for r in rows)


def _vouch_interest(h):
    """reorgs that a later head event of the same epoch can show (most of all beside a job body that outlives its
    slot in that epoch: a validator moved to another slot while its first job is still under way), head events,
    slow bodies"""
    p, slot = h[0]["p"], h[0]["start"]
    duty = {(d["e"], d["w"], d["v"]): d["slot"] for d in h[0]["duties"]}
    vals = h[0]["vals"]
    score, last_head = 0, 0
    ver, acted = {}, {}                 # version in force / version the controller last acted on, per epoch
    moved_later = set()                 # slots whose job was overtaken: a validator moved from it to a later slot of the epoch
    for st in h[1:]:
        if st["ev"] == "Advance":
            slot += 1
            for s in st.get("slow") or []:
                score += 2
                if s in moved_later:    # ... while its body is still under way: two jobs for one validator and epoch overlap
                    score += 40
        elif st["ev"] == "Reorg":
            ver[st["e"]] = ver.get(st["e"], 0) + 1
        elif st["ev"] == "Head":
            e = slot // p
            score += 1
            # the controller compares with the roots of the last head event (none while that was in epoch 0)
            if last_head != 0 and last_head in (e, e - 1) and ver.get(e, 0) != acted.get(e, 0):
                old, new = acted.get(e, 0), ver.get(e, 0)
                score += 4
                for v in vals:
                    a, b = duty.get((e, old, v)), duty.get((e, new, v))
                    if a is not None and b is not None and a <= slot < b:
                        moved_later.add(a)
                        score += 4
                acted[e] = new
            last_head = e
    return score


def vouch_scenarios(tier):
    want = 8 if tier == "quick" else 72
    hs = vf.tlc_scenarios(PID, "Scen_Vouch", "Scen_Vouch.cfg", num=want * (12 if tier == "quick" else 5), depth=700, name="scen-vouch",
                          timeout=300 if tier == "quick" else 900)
    # keep fast track on/off balanced, the most eventful first (stable: seeded)
    on = sorted([h for h in hs if h[0]["ft"]], key=_vouch_interest, reverse=True)
    off = sorted([h for h in hs if not h[0]["ft"]], key=_vouch_interest, reverse=True)
    pick = []
    while len(pick) < want and (on or off):
        if on:
            pick.append(on.pop(0))
        if off and len(pick) < want:
            pick.append(off.pop(0))
    return ([{"sc": 100001 + i, "kind": "vouch", "slotms": VOUCH_SLOT_MS, "tail": 3, "steps": h} for i, h in enumerate(pick)]
            + [vouch_race_scenario()])


RACE_SC = 190001


def vouch_race_scenario():
    """Directed schedule: the environment part of TLC's counterexample of MC_Vouch_race.cfg.  Epoch 2 (slots 4, 5):
    version 0 has v1 in slot 4 and v2 in slot 5, the reorg swaps them.  The goroutine of "Attestations for slot 4" is
    held where its select has taken the timer branch (the scheduler's own verif hook) while a reorg head event
    makes the controller cancel and re-schedule the epoch's jobs.  The withdrawn job must not run (repair 7cb52d1);
    if it does the trace breaks CancelledNeverRuns / SlotOnce / PendingExact (also judged, as property C03, by ./check C03)."""
    duties = [{"e": e, "w": w, "v": v, "slot": 2 * e + (v - 1 + w) % 2} for e in range(8) for w in range(3) for v in (1, 2)]
    steps = [{"ev": "Reset", "p": 2, "start": 3, "last": 8, "ft": False, "vals": [1, 2], "duties": duties},
             {"ev": "Advance", "slow": []}, {"ev": "Head"}, {"ev": "Hold", "e": 4}, {"ev": "Phase"},
             {"ev": "Reorg", "e": 2}, {"ev": "Head"}, {"ev": "Release"},
             {"ev": "Advance", "slow": []}, {"ev": "Phase"}, {"ev": "Advance", "slow": []}, {"ev": "Phase"}]
    return {"sc": RACE_SC, "kind": "vouch", "race": True, "slotms": VOUCH_SLOT_MS, "tail": 3, "steps": steps}


def _expect_violation(cfg, inv, timeout=900):
    """A configuration without the named assumption / with the named deviation must violate its invariant:
    otherwise the model says nothing (broken run, never a verdict)."""
    r = vf.tlc(PID, "mc-" + cfg.replace(".cfg", ""), "MC_Vouch", cfg, workers=4, timeout=timeout, heap="6g")
    if r["timed_out"] or r["kind"] != "invariant" or r["violated"] != inv:
        raise vf.Broken("%s should violate %s (vacuous model?): %s %s\n%s" % (cfg, inv, r["kind"], r["violated"], r["out"][-1500:]))
    vf.log("TLC MC_Vouch/%s: %s violated as it must be (%d distinct states, %.1fs)" % (cfg, inv, r["distinct"], r["wall_s"]))
    return r


def vouch_model(tier, out):
    """Exhaustive runs of the composition that must pass (in a thread beside the driver); results / exception into out."""
    try:
        res = [vf.tlc_exhaustive(PID, "MC_Vouch", "MC_Vouch.cfg", timeout=2400)]
        if tier == "thorough":
            res.append(vf.tlc_exhaustive(PID, "MC_Vouch", "MC_Vouch_big.cfg", timeout=1500))
            res.append(vf.tlc_exhaustive(PID, "MC_Vouch", "MC_Vouch_fail.cfg", timeout=900))
        out["mc"] = res
    except BaseException as e:      # re-raised by the caller
        out["err"] = e


def vouch_model_neg(tier, out):
    """... and those that must violate their invariant (second thread); thorough: also the cross-check without the
    second group of reductions."""
    try:
        res = []
        _expect_violation("MC_Vouch_late_window.cfg", "EnvWindowHolds")
        _expect_violation("MC_Vouch_race.cfg", "CancelledNeverRuns")
        if tier == "thorough":
            res.append(vf.tlc_exhaustive(PID, "MC_Vouch", "MC_Vouch_noreduce.cfg", workers=4, timeout=1500))
            _expect_violation("MC_Vouch_late_sign.cfg", "NoDoubleSign")
            _expect_violation("MC_Vouch_race_slot.cfg", "SlotOnce")
            _expect_violation("MC_Vouch_race_pending.cfg", "PendingExact")
            _expect_violation("MC_Vouch_byname.cfg", "TableExact")
        out["mc"] = res
    except BaseException as e:
        out["err"] = e


def vouch_conformance(v, sc):
    # replay directories of this block are numbered from 101 (vf.conformance numbers from 1 per call)
    orig = vf.save_replay
    vf.save_replay = lambda pid, n, *a: orig(pid, n + 100, *a)
    try:
        vf.conformance(v, sc, vouch_driver, VOUCH_TRACE[0], VOUCH_TRACE[1], vouch_sig, vouch_nontrivial, dfs=True,
                       tlc_timeout=900, chunk=12)
    finally:
        vf.save_replay = orig


def run_vouch(v, tier):
    v.assumptions += [
        "EnvLateness (Vouch.tla, Late <= slots per epoch): whatever is on its way to attest for slot s - a ScheduleJob call, a waiting, "
        "fired or claimed job, a marking loop - is through the marking loop by the end of slot s + Late; with it Env_Window is implied "
        "by controller + scheduler (S2), without it TLC shows a job started outside the window and a second signature (MC_Vouch_late_*)",
        "EnvNoOverlap, Env_TickBeforeHead (Vouch.tla): fetch / cancel / schedule sequences of one epoch do not overlap (open finding "
        "C03-overlapping-refresh-stale-attester-jobs is outside the composition); the epoch ticker precedes the epoch's first head event",
        "system-level traces: beacon node (duties, attestation data), accounts and signer are scripted; wall-clock chain time with "
        "%d ms slots; the trace specification chooses its clock within the bounds the trace gives (no lateness is judged)" % VOUCH_SLOT_MS,
    ]
    sc = vouch_scenarios(tier)
    vouch_conformance(v, sc)


def vouch_model_start(tier):
    """The exhaustive runs of the composition go on beside everything else of the check."""
    out, neg, shp, am = {}, {}, {}, {}
    ths = [threading.Thread(target=vouch_model, args=(tier, out)), threading.Thread(target=vouch_model_neg, args=(tier, neg)),
           threading.Thread(target=shape_model, args=(tier, shp)), threading.Thread(target=am_model, args=(tier, am))]
    for th in ths:
        th.start()
    return ths, out, neg, shp, am


def vouch_model_join(v, started):
    ths, out, neg, shp, am = started
    for th in ths:
        th.join()
    for o in (out, neg, shp, am):
        if "err" in o:
            raise o["err"]
    for r in out["mc"] + neg["mc"] + shp["mc"] + am["mc"]:
        v.add_mc(r)


def _expect_walk_rejected(cfg, timeout=600):
    """The control design of the duty-shape class (Attester!WalkReq: the request built by walking the raw duty) must be
    rejected by TLC once a duty may list a validator twice: otherwise the model's duty alphabet says nothing about it."""
    r = vf.tlc(PID, "mc-" + cfg.replace(".cfg", ""), "MC_Attester", cfg, workers=2, timeout=timeout, heap="2g")
    if r["timed_out"] or r["kind"] != "invariant" or r["violated"] != "NoDoubleSign":
        raise vf.Broken("%s should violate NoDoubleSign (vacuous duty alphabet?): %s %s\n%s" % (cfg, r["kind"], r["violated"], r["out"][-1500:]))
    vf.log("TLC MC_Attester/%s: NoDoubleSign violated as it must be (%d distinct states, %.1fs)" % (cfg, r["distinct"], r["wall_s"]))


def shape_model(tier, out):
    """The duty-shape models (third thread): the attester over duties that are SEQUENCES of entries with repeats, on
    pre-marked instances; the control design holds while validators are distinct and is rejected once they may repeat."""
    try:
        # (small heaps: these run beside the other models of the check)
        res = [vf.tlc_exhaustive(PID, "MC_Attester", "MC_Attester_shape.cfg", workers=4, timeout=2400, heap="3g"),
               vf.tlc_exhaustive(PID, "MC_Attester", "MC_Attester_walk_inj.cfg", workers=2, timeout=600, heap="2g")]
        _expect_walk_rejected("MC_Attester_walk.cfg")
        if tier == "thorough":
            res.append(vf.tlc_exhaustive(PID, "MC_Attester", "MC_Attester_shapebig.cfg", workers=4, timeout=1800, heap="3g"))
            res.append(vf.tlc_exhaustive(PID, "MC_Attester", "MC_Attester_ovlrep.cfg", workers=4, timeout=1800, heap="3g"))
        out["mc"] = res
    except BaseException as e:      # re-raised by the caller
        out["err"] = e


def run(tier):
    v = vf.Verdict(PID, tier)
    v.assumptions = [
        "Env_Window: a run for epoch e is not started once a run for an epoch >= e+2 has started (the controller "
        "schedules attestation jobs for the current and next epoch only)",
        "Env_DutyWellFormed: a duty has at least one entry (attester.MergeDuties makes none without), arrays parallel, every "
        "committee has a size; NOT assumed: distinct validators (a duty is a sequence of entries that may repeat a validator)",
        "Env_AccountsSubset (fake-based families only): the scripted account manager returns accounts of requested validators only; "
        "in the wired family the REAL dirk / wallet account manager (over the real validators manager) answers and the contract "
        "is an obligation (AttesterAM!ByIndexSubset, SignOnlyClaimed), the control designs that break it are rejected by TLC",
        "fake-based families: chain time, beacon nodes, account manager, signer and submitter are scripted fakes at the service's "
        "interfaces; wired family: real account manager (dirk with scripted wallet listing - no Dirk server -, wallet over a "
        "filesystem store), real validators manager over a scripted beacon node, real signer with real BLS keys; scripted "
        "attestation data node and submitter",
    ]
    started = vouch_model_start(tier)
    try:
        return _run(v, tier, started)
    finally:
        for th in started[0]:
            th.join()


def attester_model(tier, out):
    """The exhaustive runs of Attester.tla proper (overlapping runs, sequential histories) go on beside the conformance."""
    try:
        # (generous time limits: on a heavily loaded machine these take many times their unloaded 10 s)
        res = [vf.tlc_exhaustive(PID, "MC_Attester", "MC_Attester.cfg", timeout=2400),
               vf.tlc_exhaustive(PID, "MC_Attester", "MC_Attester_hist.cfg", timeout=2400)]
        if tier == "thorough":
            res.append(vf.tlc_exhaustive(PID, "MC_Attester", "MC_Attester_big.cfg", timeout=1800))
        out["mc"] = res
    except BaseException as e:      # re-raised by the caller
        out["err"] = e


# ---- family signer: what one call of the attester becomes at the accounts (spec/SignerBatch.tla; services/signer/standard) ----
def signer_driver(scenarios, tag):
    return vf.run_driver(PID, "./services/signer/standard", "TestVerifC01Signer", scenarios, "signer-" + tag)


def signer_sig_of(s):
    steps = s["steps"]
    kinds = sorted(set(steps[0]["kinds"].values()))
    return {"family": "signer", "kind": "signer", "account_kinds": kinds,
            "a_request_fails": any(x["ev"] in ("AskBatch", "AskOne") and not x["ok"] for x in steps)}


def signer_nontrivial(s, rows):
    """A request of a call with at least two accounts came back as an error (the retry-after-failure clause)."""
    n, failed = 0, False
    for r in rows:
        if r.get("ev") == "Call":
            n, failed = len(r.get("accts", [])), False
        elif r.get("ev") in ("AskBatch", "AskOne") and not r.get("ok") and n >= 2:
            return True
    return False


def signer_family(v, tier):
    n = 150 if tier == "quick" else 2000
    v.add_mc(vf.tlc_exhaustive(PID, "SignerBatch", "MC_SignerBatch.cfg", workers=4, timeout=600, heap="1g", name="mc-signerbatch"))
    d = vf.tlc(PID, "self-signerbatch-retry", "SignerBatch", "MC_SignerBatch_dev_retry.cfg", workers=1, timeout=600, heap="1g")
    if d["kind"] != "invariant" or d["violated"] != "AtMostOnce":
        raise vf.Broken("model self-check failed: retry-individually is not rejected by AtMostOnce (%s %s)" % (d["kind"], d["violated"]))
    vf.log("model self-check: asking every account again by itself after a failed batch violates AtMostOnce (as it must)")
    hs = vf.tlc_scenarios(PID, "Scen_SignerBatch", "Scen_SignerBatch.cfg", num=int(n * 1.05), depth=20, name="scen-signerbatch",
                          heap="1g")[:n]
    sc = [{"sc": 500000 + i, "kind": "signer", "steps": h} for i, h in enumerate(hs)]
    vf.log("signer family: %d histories, %d calls" % (len(sc), sum(1 for s in sc for x in s["steps"] if x["ev"] == "Call")))
    vf.conformance(v, sc, signer_driver, "Trace_SignerBatch", "Trace_SignerBatch.cfg", signer_sig_of, signer_nontrivial)


def _run(v, tier, started):
    att = {}
    th = threading.Thread(target=attester_model, args=(tier, att))
    th.start()
    started[0].append(th)            # joined by run() whatever happens
    sc = scenarios(tier)
    vf.conformance(v, sc, driver, TRACE[0], TRACE[1], sig_of, nontrivial, dfs=True,
                   chunk=None if tier == "quick" else 600)
    wired_conformance(v, wired_scenarios(tier))
    signer_family(v, tier)
    run_vouch(v, tier)
    th.join()
    if "err" in att:
        raise att["err"]
    for r in att["mc"]:
        v.add_mc(r)
    vouch_model_join(v, started)
    v.coverage["rule"] = ("behaviours of Attester.tla generated by TLC simulation (seeded): multi-run histories on one "
                          "service instance (repeated / re-assigned duties, duties that list a validator more than once, failures "
                          "of every kind at every step, incomplete answers of the node), replayed gated "
                          "(interleaved at interface-call grain), free-running (concurrent marking loops) and behind the "
                          "real best/majority/first strategies; plus the duty-shape family enumerated exhaustively by TLC (every "
                          "sequence of entries over the validators incl. repeats in the same / another committee, on a fresh or "
                          "pre-marked instance, any subset without account / unsigned); the signer requests are judged position by "
                          "position of every recorded call; non-trivial = a validator delivered twice in an epoch (two duties or two "
                          "entries of one) or data violating the rule reached the service; distinct by step list and mode.  Wired family "
                          "(AttesterAM.tla): the same kind of histories on ONE wired instance - real attester, real dirk / wallet account "
                          "manager, real validators manager, real signer -, re-delivered duties enumerated exhaustively per sibling "
                          "implementation (any marked subset x any duty of the same epoch x refresh in between) plus simulated histories "
                          "with refreshes and direct ByIndex questions; non-trivial = the real account manager was asked by a run with an "
                          "empty or partial index list (validators of the duty already marked).  System level: environment "
                          "parts (clock, head events, reorgs, slow attestation data, fast track on/off) of TLC-simulated behaviours "
                          "of Vouch.tla replayed in real time on the real controller + real scheduler + real attester; non-trivial = "
                          "a refresh withdrew a waiting job, the fast track started one, or a job body outlived its slot.  "
                          "Signer family (SignerBatch.tla): calls of the attester on the REAL signer service over fake accounts of the "
                          "three kinds (wallet / Dirk / distributed Dirk) that log every request reaching them before answering, replies "
                          "scripted by TLC-simulated histories; non-trivial = a request of a call with at least two accounts failed")
    return v.finish()


def replay(path):
    v = vf.Verdict(PID, "quick")
    with open(os.path.join(path, "scenario.json")) as fh:
        s = json.load(fh)
    if s.get("kind") == "vouch":
        vouch_conformance(v, [s])
        return 1 if v.violations else 0
    if s.get("kind") == "wired":
        wired_conformance(v, [s])
        return 1 if v.violations else 0
    if s.get("kind") == "signer":
        vf.conformance(v, [s], signer_driver, "Trace_SignerBatch", "Trace_SignerBatch.cfg", signer_sig_of, signer_nontrivial)
        return 1 if v.violations else 0
    vf.conformance(v, [s], driver, TRACE[0], TRACE[1], sig_of, nontrivial, dfs=True)
    return 1 if v.violations else 0
