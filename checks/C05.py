"""C05 — a proposal signs only the selected block of the duty slot and submits it intact (spec/Proposer.tla)."""
import json
import os
import random
import vf

PID = "C05"
PKG = "./services/beaconblockproposer/standard"
TEST = "TestVerifC05"


def driver(scenarios, tag):
    env = {}
    if tag == "batch":
        # observations for C16 (crashes on unexpected shapes) and C20 (goroutines left behind): the driver
        # probes those shapes apart from the scenarios; they never enter C05's verdict
        env["VERIF_C05_OBS"] = os.path.join(vf.outdir(PID), "observations.json")
    return vf.run_driver(PID, PKG, TEST, scenarios, tag, env=env, timeout=1500)


def sig_of(s):
    return {"version": s["proposal"]["version"], "blinded": s["proposal"]["blinded"], "dslot": s["proposal"]["dslot"],
            "graffiti": s["graffiti"], "auction": s["auction"]["kind"], "unblind_all": s["cfg"]["unblindAll"],
            "sign": s["sign"], "submit": s["submit"], "relays": ",".join(s["relays"])}


def nontrivial(s, rows):
    # exercises an antecedent of the property: something was signed (SignedIsSelected, SubmittedIntact,
    # NothingWithoutUnblind), or a proposal was obtained for another slot (must not be signed), or the
    # graffiti lookup / the auction failed (DegradesNotSkips)
    evs = {r.get("ev") for r in rows}
    if "Sign" in evs:
        return True
    if s["proposal"]["out"] == "ok" and s["proposal"]["dslot"] != 0 and "Proposal" in evs:
        return True
    return (s["graffiti"] == "err" and "Graffiti" in evs) or (s["auction"]["kind"] == "err" and "Auction" in evs)


def _stratum(s):
    p = s["proposal"]
    delivering = sum(1 for x in s["relays"] if x in ("full", "errfull"))
    return (p["out"], p["version"], p["blinded"], p["dslot"], s["sign"], s["accounts"], s["randao"], min(delivering, 2))


def _sample(rnd, scs, n):
    """Seeded sample that keeps every stratum (version x form x slot offset x ...) represented."""
    if n >= len(scs):
        return list(scs)
    groups = {}
    for s in scs:
        groups.setdefault(_stratum(s), []).append(s)
    keys = sorted(groups, key=repr)
    for k in keys:
        rnd.shuffle(groups[k])
    res = []
    while len(res) < n:
        progressed = False
        for k in keys:
            if groups[k] and len(res) < n:
                res.append(groups[k].pop())
                progressed = True
        if not progressed:
            break
    return res


def scenarios(tier):
    rnd = random.Random(vf.seed() * 7919 + 5)
    main = vf.tlc_scenarios(PID, "Scen_Proposer", "Scen_Proposer.cfg", exhaustive=True, name="scen", timeout=900)
    r3 = vf.tlc_scenarios(PID, "Scen_Proposer", "Scen_Proposer_r3.cfg", exhaustive=True, name="scen-r3", timeout=900)
    for s in main:
        s["relays"] = list(s["relays"]) + ["none"]
        s["auction"]["all"] = list(s["auction"]["all"]) + [False]
        s["auction"]["providers"] = list(s["auction"]["providers"]) + [False]
    total = len(main) + len(r3)
    if tier == "quick":
        main = _sample(rnd, main, 2400)
        r3 = _sample(rnd, r3, 1200)
    out = []
    for s in main + r3:
        s = dict(s)
        # widen the values the model keeps small: slot, validator index, token salt; relays are renumbered
        s["slot"] = rnd.randrange(64, 20000000)
        s["v"] = rnd.randrange(1, 1500000)
        s["salt"] = rnd.randrange(1, 1000000)
        perm = [0, 1, 2]
        rnd.shuffle(perm)
        s["relays"] = [s["relays"][perm[i]] for i in range(3)]
        s["auction"] = {"kind": s["auction"]["kind"],
                        "all": [s["auction"]["all"][perm[i]] for i in range(3)],
                        "providers": [s["auction"]["providers"][perm[i]] for i in range(3)]}
        s["sc"] = len(out) + 1
        out.append(s)
    vf.log("scenarios: %d of the %d terminal paths TLC enumerated" % (len(out), total))
    return out


def observations():
    p = os.path.join(vf.outdir(PID), "observations.json")
    if not os.path.exists(p):
        return
    try:
        with open(p) as fh:
            obs = json.load(fh)
    except Exception:
        return
    crashes = [x["probe"] for x in obs.get("probes", []) if x.get("crash")]
    vf.log("observations (not part of C05's verdict; see docs/C05.md): %d probe shape(s) panic in Propose (C16): %s; "
           "%d goroutine(s) left in unblindProposal after the run (C20); crashes inside scenarios: %d; fallback cancels: %d" % (
               len(crashes), "; ".join(crashes), obs.get("goroutines_left_in_unblindProposal", -1),
               len(obs.get("crashes_in_scenarios", [])), obs.get("fallback_cancels", -1)))


def run(tier):
    v = vf.Verdict(PID, tier)
    v.assumptions = [
        "Env_BlindedNeedsAuction: a blinded proposal is only returned when the auction produced results "
        "(a blinded proposal without them panics: property C16)",
        "Env_FaithfulAccounts: the accounts provider answers for the indices it is asked about",
        "Env_RelayShapes: a relay answers with an error, no response, or a response whose Data holds the block of "
        "the requested version (nil Data panics: property C16)",
        "all collaborators are scripted fakes at the service's interfaces; the driver ends the job context when no "
        "relay will reveal a block (production job contexts have no deadline: property C20)",
    ]
    v.add_mc(vf.tlc_exhaustive(PID, "Proposer", "MC_Proposer.cfg"))
    if tier == "thorough":
        v.add_mc(vf.tlc_exhaustive(PID, "Proposer", "MC_Proposer_big.cfg", coverage=True, timeout=1800))
    sc = scenarios(tier)
    vf.conformance(v, sc, driver, "Trace_Proposer", "Trace_Proposer.cfg", sig_of, nontrivial,
                   chunk=2500 if tier == "thorough" else None)
    observations()
    v.coverage["rule"] = ("terminal paths of Proposer.tla's design enumerated exhaustively by TLC (every version x full/blinded x "
                          "proposal slot offset x outcome of each step x relay scripts), all of them (thorough) or a seeded "
                          "stratified sample (quick) replayed on the real proposer service; non-trivial = something was signed, "
                          "or a proposal for another slot was obtained, or graffiti/auction failed; distinct by scenario")
    return v.finish()


def replay(path):
    v = vf.Verdict(PID, "quick")
    with open(os.path.join(path, "scenario.json")) as fh:
        s = json.load(fh)
    vf.conformance(v, [s], driver, "Trace_Proposer", "Trace_Proposer.cfg", sig_of, nontrivial)
    return 1 if v.violations else 0
