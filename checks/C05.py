"""C05 — a proposal signs only the selected block of the duty slot and submits it intact (spec/Proposer.tla)."""
import json
import os
import random
from concurrent.futures import ThreadPoolExecutor
import vf

PID = "C05"
PKG = "./services/beaconblockproposer/standard"
TEST = "TestVerifC05"


def driver(scenarios, tag):
    env = {}
    if tag == "batch":
        # observations for C16 (crashes on unexpected shapes) and C20 (goroutines left behind): the driver
        # probes those shapes apart from the scenarios; they never enter C05's verdict
        env["VERIF_C05_OBS"] = os.path.join(vf.outdir(PID), "observations.json")
    return vf.run_driver(PID, PKG, TEST, scenarios, tag, env=env, timeout=1500)


def _join(s, f):
    return ">".join(str(f(d)) for d in s["duties"])


def _calls(s):
    """The calls of the history in the order in which they start: P<h> Prepare, R<h> Propose, D<h> dropped;
    a trailing * marks a call that other calls' steps are interleaved with (overlap)."""
    sched = s.get("sched") or []
    if not sched:
        return " ".join("P%d R%d" % (i + 1, i + 1) for i in range(len(s["duties"])))
    out, open_call = [], {}
    for e in sched:
        op, h = e["op"], e["h"]
        if op in ("prepare", "propose"):
            out.append([("P" if op == "prepare" else "R") + str(h), False])
            open_call[h] = len(out) - 1
        elif op == "drop":
            out.append(["D%d" % h, False])
        elif op in ("step", "release") and h in open_call:
            # a step of a call that is not the one started last: the two overlap
            last = max(open_call.values())
            if open_call[h] != last:
                out[open_call[h]][1] = True
                out[last][1] = True
    return " ".join(n + ("*" if o else "") for n, o in out)


def sig_of(s):
    # one value per duty object of the history, joined with ">"
    return {"duties": len(s["duties"]), "nodeclient_provider": s["cfg"]["nodeclient"], "calls": _calls(s),
            "slots": _join(s, lambda d: d["slot"] - s["duties"][0]["slot"]),
            "validators": _join(s, lambda d: sorted({x["v"] for x in s["duties"]}).index(d["v"]) + 1),
            "version": _join(s, lambda d: d["proposal"]["version"]), "blinded": _join(s, lambda d: d["proposal"]["blinded"]),
            "dslot": _join(s, lambda d: d["proposal"]["dslot"]), "graffiti": _join(s, lambda d: d["graffiti"]),
            "nodeclient": _join(s, lambda d: d["nodeclient"]), "auction": _join(s, lambda d: d["auction"]["kind"]),
            "unblind_all": s["cfg"]["unblindAll"], "sign": _join(s, lambda d: d["sign"]),
            # what stands behind the auctioneer interface: opaque (scripted) or the real block relay + strategy
            "strategy": s["cfg"].get("strategy", "opaque"), "conf": ",".join(str(r) for r in s["cfg"].get("conf", [])),
            "bids": _join(s, lambda d: ",".join(d.get("bids", []))), "auction_account": _join(s, lambda d: d.get("aacct", "na")),
            "submit": _join(s, lambda d: d["submit"]), "relays": _join(s, lambda d: ",".join(d["relays"]))}


def _split(rows):
    """The rows of a history, duty object by duty object (h = 1, 2, ... in the order in which they are made)."""
    n = max([r.get("h", 0) for r in rows] + [0])
    per = [[] for _ in range(n)]
    for r in rows:
        if r.get("ev") != "Switch" and r.get("h", 0) >= 1:
            per[r["h"] - 1].append(r)
    return per


def nontrivial(s, rows):
    # exercises an antecedent of the property in some duty of the history: something was signed
    # (SignedIsSelected, SubmittedIntact, NothingWithoutUnblind), or a proposal was obtained for another slot
    # (must not be signed), or the graffiti lookup / the node client lookup / the auction failed
    # (DegradesNotSkips); for a later duty also: an earlier duty of the instance went wrong (history rule)
    per = _split(rows)
    for i, d in enumerate(s["duties"]):
        if i >= len(per):
            break
        evs = {r.get("ev") for r in per[i]}
        if "Sign" in evs:
            return True
        if d["proposal"]["out"] == "ok" and d["proposal"]["dslot"] != 0 and "Proposal" in evs:
            return True
        if (d["graffiti"] == "err" and "Graffiti" in evs) or (d["nodeclient"] == "err" and "NodeClient" in evs) \
                or (d["auction"]["kind"] == "err" and "Auction" in evs):
            return True
        # no relay bids were obtained (error, nothing that names a relay with a bid, neither results nor error)
        if any(r.get("ev") == "Auction" and (r.get("out") != "results" or not r.get("providers")) for r in per[i]):
            return True
    return False


def _tags(d):
    """What goes wrong for a duty, as the scenario scripts it (FailureTags of Proposer.tla)."""
    t = []
    if d["accounts"] in ("err", "empty") or d["randao"] == "err":
        t.append("prepare")
    if d["graffiti"] == "err":
        t.append("graffiti")
    if d["nodeclient"] == "err":
        t.append("nodeclient")
    if d["auction"]["kind"] == "err":
        t.append("auction")
    p = d["proposal"]
    if p["out"] == "err":
        t.append("fetch")
    if p["out"] == "ok" and p["dslot"] != 0:
        t.append("wrongslot")
    if d["sign"] == "err":
        t.append("sign")
    if d["sign"] == "ok" and p["blinded"] and not any(x in ("full", "errfull") for x in d["relays"]):
        t.append("unblind")
    if d["submit"] == "err":
        t.append("submit")
    return tuple(t)


def _dstratum(d):
    p = d["proposal"]
    delivering = sum(1 for x in d["relays"] if x in ("full", "errfull"))
    return (p["out"], p["version"], p["blinded"], p["dslot"], d["sign"], d["accounts"], d["randao"], min(delivering, 2))


def shape(s):
    """What a history with a schedule exercises: a slot prepared again for ANOTHER validator and that later duty
    object proposed (the re-org shape); the same duty prepared again; calls that overlap (which kinds)."""
    d = s["duties"]
    calls = _calls(s).split()
    proposed = {int(c[1:].rstrip("*")) for c in calls if c[0] == "R"}
    f = set()
    for i in range(len(d)):
        for j in range(i + 1, len(d)):
            if d[i]["slot"] == d[j]["slot"]:
                if d[i]["v"] != d[j]["v"]:
                    f.add("reassigned")
                    if (j + 1) in proposed and d[i]["randao"] == "ok":
                        f.add("reassigned-proposed")
                else:
                    f.add("repeated")
                    if (j + 1) in proposed:
                        f.add("repeated-proposed")
    ov = sorted({c[0] for c in calls if c.endswith("*")})
    if ov:
        f.add("overlap-" + "".join(ov))
    if any("heldfull" in x["relays"] for x in d):
        f.add("held")
    return tuple(sorted(f))


def wired(s):
    return s["cfg"].get("strategy", "opaque") != "opaque"


def wshape(s):
    """What a wired history (real block relay + builder bid strategy behind the proposer) exercises."""
    f = {s["cfg"]["strategy"]}
    for i, d in enumerate(s["duties"]):
        later = "later-" if i > 0 else ""
        if d.get("aacct") == "err":
            f.add(later + "account-lookup-fails")
        bids = [b for b in d.get("bids", []) if b != "none"]
        if not bids:
            continue
        if "silent" in bids and "bid" not in bids:
            f.add(later + "silent-no-bid")         # a relay stays silent past the time-out, nobody bids
        elif "bid" not in bids:
            f.add(later + "answered-no-bid")       # 204 / errors only
        elif "silent" in bids:
            f.add(later + "silent-and-bid")
        else:
            f.add(later + "bid")
    return tuple(sorted(f))


def _stratum(s):
    if wired(s):
        return (s["cfg"]["strategy"], len(s["cfg"]["conf"]), s["cfg"]["unblindAll"],
                tuple((d.get("aacct"), tuple(sorted(d.get("bids", []))), d["proposal"]["blinded"], _tags(d)) for d in s["duties"]))
    if s.get("sched"):
        # histories with a schedule: shape x what goes wrong in each duty object's calls
        return (shape(s), tuple(_tags(d) for d in s["duties"]), tuple(d["proposal"]["blinded"] for d in s["duties"]))
    if len(s["duties"]) == 1:
        return _dstratum(s["duties"][0])
    # histories: what went wrong for each duty but the last x how the last duty obtains its graffiti and block
    last = s["duties"][-1]
    return (s["cfg"]["nodeclient"], tuple(_tags(d) for d in s["duties"][:-1]),
            (last["graffiti"], last["nodeclient"], last["proposal"]["blinded"]))


def _sample(rnd, scs, n):
    """Seeded sample that keeps every stratum represented as far as n allows (strata in seeded order)."""
    if n >= len(scs):
        return list(scs)
    groups = {}
    for s in scs:
        groups.setdefault(_stratum(s), []).append(s)
    keys = sorted(groups, key=repr)
    rnd.shuffle(keys)
    for k in keys:
        rnd.shuffle(groups[k])
    res = []
    while len(res) < n:
        progressed = False
        for k in keys:
            if groups[k] and len(res) < n:
                res.append(groups[k].pop())
                progressed = True
        if not progressed:
            break
    return res


def _widen(rnd, s, sc):
    """Widen the values the model keeps small: slots (and the gaps between the duties of a history), validator
    indices, token salt; relays are renumbered."""
    perm = [0, 1, 2]
    rnd.shuffle(perm)
    base = rnd.randrange(64, 20000000)
    gap = rnd.choice([1, 1, 2, 32, rnd.randrange(3, 300)])
    first = s["duties"][0]["slot"]
    v0 = rnd.randrange(1, 1500000)
    vmap = {}
    duties = []
    for d in s["duties"]:
        d = dict(d)
        d["slot"] = base + (d["slot"] - first) * gap
        if s.get("sched"):
            # the model's validators stay distinct (and equal ones equal)
            if d["v"] not in vmap:
                vmap[d["v"]] = rnd.choice([x for x in (v0, v0 + 1, rnd.randrange(1, 1500000)) if x not in vmap.values()])
            d["v"] = vmap[d["v"]]
        else:
            d["v"] = v0 if rnd.random() < 0.5 else rnd.randrange(1, 1500000)
        relays = list(d["relays"]) + ["none"] * (3 - len(d["relays"]))
        al = list(d["auction"]["all"]) + [False] * (3 - len(d["auction"]["all"]))
        pr = list(d["auction"]["providers"]) + [False] * (3 - len(d["auction"]["providers"]))
        d["relays"] = [relays[perm[i]] for i in range(3)]
        d["auction"] = {"kind": d["auction"]["kind"], "all": [al[perm[i]] for i in range(3)],
                        "providers": [pr[perm[i]] for i in range(3)]}
        if "bids" in d:
            bids = list(d["bids"]) + ["none"] * (3 - len(d["bids"]))
            d["bids"] = [bids[perm[i]] for i in range(3)]
        duties.append(d)
    cfg = dict(s["cfg"])
    # the relays of the execution configuration (wired histories), renumbered like everything else
    cfg["conf"] = sorted(i + 1 for i in range(3) if (perm[i] + 1) in cfg.get("conf", []))
    res = {"sc": sc, "salt": rnd.randrange(1, 1000000), "cfg": cfg, "duties": duties}
    if s.get("sched"):
        res["sched"] = s["sched"]
    return res


def _legacy(scs):
    """The families of one duty object at a time (MaxOpen = 1): the schedule is the default one."""
    for s in scs:
        s.pop("sched", None)
    return scs


def scenarios(tier, pool):
    rnd = random.Random(vf.seed() * 7919 + 5)
    thorough = tier == "thorough"

    def gen(cfg, name, **kw):
        return pool.submit(vf.tlc_scenarios, PID, "Scen_Proposer", cfg, name=name, **kw)

    f_main = gen("Scen_Proposer.cfg", "scen", exhaustive=True, timeout=900)
    f_r3 = gen("Scen_Proposer_r3.cfg", "scen-r3", exhaustive=True, timeout=900)
    # histories: one service instance, two duties one after the other (thorough: also three)
    f_h2 = gen("Scen_Proposer_hist.cfg", "scen-hist", exhaustive=True, timeout=900)
    f_h3 = gen("Scen_Proposer_hist3.cfg", "scen-hist3", exhaustive=True, timeout=1800, heap="6g") if thorough else None
    # calls as the controller makes them: Prepare and Propose scheduled apart, duty objects side by side
    #   reprep: two duty objects for ONE slot (same / other validator), every outcome of the first, every order (exhaustive)
    #   inst:   three duty objects, slots s / s / s+1 ..., calls one at a time in any order (seeded random walks)
    #   ovl:    the same with two calls running at a time, any interleaving of their interface calls, relays that
    #           hold a Propose (seeded random walks)
    f_rp = gen("Scen_Proposer_reprep.cfg", "scen-reprep", exhaustive=True, timeout=900, workers=4)
    walks = 30000 if thorough else 4000
    f_in = gen("Scen_Proposer_inst.cfg", "scen-inst", num=walks, depth=120)
    f_ov = gen("Scen_Proposer_ovl.cfg", "scen-ovl", num=walks, depth=160)
    #   ovlr:   the same, every duty object is proposed (no drops, Prepare healthy): Propose overlapping Propose
    f_or = gen("Scen_Proposer_ovlr.cfg", "scen-ovlr", num=walks // 2, depth=160)
    # wired: the auction as a component - the real block relay service and each sibling builder bid strategy (best,
    # deadline) behind the proposer, relays that bid / have no bid / fail / stay silent; two duties on one instance
    f_wi = gen("Scen_Proposer_wired.cfg", "scen-wired", exhaustive=True, timeout=900, workers=2)
    main, r3, h2 = _legacy(f_main.result()), _legacy(f_r3.result()), _legacy(f_h2.result())
    h3 = _legacy(f_h3.result()) if f_h3 else []
    rp, ins, ov, ovr = f_rp.result(), f_in.result(), f_ov.result(), f_or.result()
    wi = _legacy(f_wi.result())
    total = len(main) + len(r3) + len(h2) + len(h3) + len(rp) + len(ins) + len(ov) + len(ovr) + len(wi)
    if not thorough:
        main = _sample(rnd, main, 2000)
        r3 = _sample(rnd, r3, 1000)
        h2 = _sample(rnd, h2, 600)
        rp = _sample(rnd, rp, 500)
        ins = _sample(rnd, ins, 500)
        ov = _sample(rnd, ov, 500)
        ovr = _sample(rnd, ovr, 300)
        wi = _sample(rnd, wi, 700)
    else:
        wi = _sample(rnd, wi, 6000)
        h3 = _sample(rnd, h3, 3000)
        ins = _sample(rnd, ins, 6000)
        ov = _sample(rnd, ov, 6000)
        ovr = _sample(rnd, ovr, 3000)
    out = []
    # histories first: a hung call costs the driver its watchdog time, the sooner it starts the better
    ov = ov + ovr
    for s in wi + rp + ins + ov + h2 + h3 + main + r3:
        out.append(_widen(rnd, s, len(out) + 1))
    shapes = {}
    for s in wi:
        for f in wshape(s):
            shapes["wired-" + f] = shapes.get("wired-" + f, 0) + 1
    for s in rp + ins + ov:
        for f in shape(s):
            shapes[f] = shapes.get(f, 0) + 1
    vf.log("scenarios: %d of the %d paths TLC produced (%d wired histories: real block relay + best / deadline builder bid "
           "strategy behind the proposer; %d histories of 2 duties, %d of 3 duties one after the other; "
           "%d + %d + %d histories with Prepare / Propose scheduled apart: %s)" % (
               len(out), total, len(wi), len(h2), len(h3), len(rp), len(ins), len(ov),
               ", ".join("%s %d" % kv for kv in sorted(shapes.items()))))
    return out, shapes


def observations():
    p = os.path.join(vf.outdir(PID), "observations.json")
    if not os.path.exists(p):
        return
    try:
        with open(p) as fh:
            obs = json.load(fh)
    except Exception:
        return
    crashes = [x["probe"] for x in obs.get("probes", []) if x.get("crash")]
    vf.log("observations (not part of C05's verdict; see docs/C05.md): %d probe shape(s) panic in Propose (C16): %s; "
           "%d goroutine(s) left in unblindProposal after the run (C20); crashes inside scenarios: %d; fallback cancels: %d" % (
               len(crashes), "; ".join(crashes), obs.get("goroutines_left_in_unblindProposal", -1),
               len(obs.get("crashes_in_scenarios", [])), obs.get("fallback_cancels", -1)))
    if obs.get("hung"):
        vf.log("the driver's watchdog recorded %d Propose call(s) that did not return (Hung)" % obs["hung"])


M, A = "Memo_Proposer", "Auction_Proposer"
CONTROLS = [
    # (module, cfg, expected): a design that carries state between calls / shares it between overlapping calls must be
    # rejected by OnlyDutySigner where the state matters, and by nothing where it does not
    (M, "Memo_Proposer.cfg", "OnlyDutySigner"),        # per-slot memo, a slot prepared again for another validator
    (M, "Memo_Proposer_fresh.cfg", None),              # ... right on every fresh instance (one duty object)
    (M, "Memo_Proposer_same.cfg", None),               # ... and for the same duty prepared again
    (M, "Shared_Proposer.cfg", "OnlyDutySigner"),      # duty noted in the service, two Proposes overlapping
    (M, "Shared_Proposer_seq.cfg", None),              # ... right when calls never overlap
    # the auction as a component: a builder bid strategy that hands back neither results nor an error when its
    # time-out passes with a silent relay and no bid (and a caller that dereferences it) must be rejected by
    # DegradesNotSkips - for each sibling strategy - and by nothing where every relay answers / the slip sits in
    # the strategy that is not configured
    (A, "Auction_Proposer.cfg", "DegradesNotSkips"),            # the slip in `best`
    (A, "Auction_Proposer_deadline.cfg", "DegradesNotSkips"),   # the slip in `deadline`
    (A, "Auction_Proposer_answering.cfg", None),                # ... right while every relay answers (bid / 204 / error)
    (A, "Auction_Proposer_other.cfg", None),                    # ... and when the other strategy is configured
]


def controls(which):
    """Vacuity self-check at the level of the model: of the history / overlap rules (spec/Memo_Proposer.tla) and of
    the auction component (spec/Auction_Proposer.tla)."""
    t = 0.0
    for module, cfg, expected in CONTROLS:
        if module != which:
            continue
        r = vf.tlc(PID, "control-" + cfg.replace(".cfg", ""), module, cfg, workers=2, timeout=600)
        t += r["wall_s"]
        if expected is None:
            if r["timed_out"] or not r["ok"]:
                raise vf.Broken("control %s: the design must pass here and does not (%s %s); see %s/tlc.out"
                                % (cfg, r["kind"], r["violated"], r["dir"]))
        elif r["timed_out"] or r["kind"] != "invariant" or r["violated"] != expected:
            raise vf.Broken("control %s: the design is not rejected by %s (%s %s); see %s/tlc.out"
                            % (cfg, expected, r["kind"], r["violated"], r["dir"]))
    if which == M:
        vf.log("TLC Memo_Proposer: the per-slot memo and the duty noted in the service are rejected by OnlyDutySigner exactly "
               "where state is carried over / calls overlap, and pass on a fresh instance / one call at a time (%.1fs)" % t)
    else:
        vf.log("TLC Auction_Proposer: a builder bid strategy (best, deadline) that answers neither results nor an error when a "
               "relay stays silent past its time-out is rejected by DegradesNotSkips, and passes while every relay answers / "
               "when the other strategy is configured (%.1fs)" % t)


def run(tier):
    v = vf.Verdict(PID, tier)
    v.assumptions = [
        "Env_BlindedNeedsAuction: a blinded proposal is only returned when the auction produced results "
        "(a blinded proposal without them panics: property C16)",
        "Env_FaithfulAccounts: the accounts provider answers for the indices it is asked about",
        "Env_RelayShapes: a relay answers with an error, no response, or a response whose Data holds the block of "
        "the requested version (nil Data panics: property C16)",
        "fake-based families: all collaborators are scripted fakes at the service's interfaces; wired family: the real "
        "block relay service and builder bid strategies (best, deadline) stand behind the proposer, the fakes are the "
        "relays' builder clients, the configuration server (majordomo), the block relay's accounts provider and the "
        "proposal provider; the driver ends the job context when no relay will reveal a block (production job contexts "
        "have no deadline: property C20)",
        "a fake attributes an interface call to the Prepare / Propose whose context the code passed to it",
    ]
    thorough = tier == "thorough"
    with ThreadPoolExecutor(max_workers=16) as pool:
        mcs = [pool.submit(vf.tlc_exhaustive, PID, "Proposer", "MC_Proposer.cfg", workers=4),
               # every duty of every history terminates (liveness under weak fairness) - smaller constants
               pool.submit(vf.tlc_exhaustive, PID, "Proposer", "MC_Proposer_live.cfg", workers=2),
               # the instance: duty objects side by side (one slot, two validators), two calls at a time
               pool.submit(vf.tlc_exhaustive, PID, "Proposer", "MC_Proposer_inst.cfg", workers=4),
               # the auction as a component: block relay + each sibling builder bid strategy behind the proposer, relays
               # that bid / have no bid / fail / stay silent, two duties on one instance
               pool.submit(vf.tlc_exhaustive, PID, "Proposer", "MC_Proposer_auction.cfg", workers=4)]
        ctl = [pool.submit(controls, M), pool.submit(controls, A)]
        sc, shapes = scenarios(tier, pool)
        if thorough:
            mcs += [pool.submit(vf.tlc_exhaustive, PID, "Proposer", "MC_Proposer_big.cfg", workers=6, timeout=2400),
                    pool.submit(vf.tlc_exhaustive, PID, "Proposer", "MC_Proposer_live_big.cfg", workers=2, timeout=1800),
                    pool.submit(vf.tlc_exhaustive, PID, "Proposer", "MC_Proposer_inst_big.cfg", workers=4, timeout=2400),
                    pool.submit(vf.tlc_exhaustive, PID, "Proposer", "MC_Proposer_inst3.cfg", workers=4, timeout=2400),
                    # two Proposes overlapping inside the auction component (both strategies)
                    pool.submit(vf.tlc_exhaustive, PID, "Proposer", "MC_Proposer_auction_inst.cfg", workers=4, timeout=2400)]
        for f in mcs:
            v.add_mc(f.result())
        for f in ctl:
            f.result()
    vf.conformance(v, sc, driver, "Trace_Proposer", "Trace_Proposer.cfg", sig_of, nontrivial,
                   chunk=2500 if thorough else None)
    observations()
    v.coverage["history_shapes"] = shapes
    v.coverage["rule"] = ("paths of Proposer.tla's design produced by TLC: single duties (every version x full/blinded x proposal "
                          "slot offset x outcome of each step x relay scripts; exhaustive) and histories on ONE service instance: "
                          "2 (thorough: also 3) duties one after the other (every failure class of the earlier duty x reduced "
                          "later duty; exhaustive); Prepare and Propose scheduled apart as the controller does - two duty objects "
                          "for one slot, same / other validator, every order of the calls (exhaustive), three duty objects with "
                          "calls one at a time in any order, and with two calls at a time interleaved at the interface calls and "
                          "relays holding a Propose (seeded random walks); WIRED histories (the auction as a component: the real block "
                          "relay service with the best / deadline builder bid strategy behind the proposer; two duties on one instance; "
                          "per duty the block relay's account lookup ok / err x every configured relay bids / has no bid / fails / stays "
                          "silent past the strategy's time-out x which bidders win; exhaustive); all of them (thorough; large families sampled) or a "
                          "seeded stratified sample (quick) replayed on the real proposer service, one instance per history, "
                          "every wait under a watchdog; one evaluation = one history; non-trivial = for some duty object "
                          "something was signed, or a proposal for another slot was obtained, or graffiti/node client/auction "
                          "failed, or the auction obtained no relay bids; distinct by scenario; history_shapes counts the scheduled histories by what they exercise")
    return v.finish()


def replay(path):
    v = vf.Verdict(PID, "quick")
    with open(os.path.join(path, "scenario.json")) as fh:
        s = json.load(fh)
    vf.conformance(v, [s], driver, "Trace_Proposer", "Trace_Proposer.cfg", sig_of, nontrivial)
    return 1 if v.violations else 0
