"""C05 — a proposal signs only the selected block of the duty slot and submits it intact (spec/Proposer.tla)."""
import json
import os
import random
import vf

PID = "C05"
PKG = "./services/beaconblockproposer/standard"
TEST = "TestVerifC05"


def driver(scenarios, tag):
    env = {}
    if tag == "batch":
        # observations for C16 (crashes on unexpected shapes) and C20 (goroutines left behind): the driver
        # probes those shapes apart from the scenarios; they never enter C05's verdict
        env["VERIF_C05_OBS"] = os.path.join(vf.outdir(PID), "observations.json")
    return vf.run_driver(PID, PKG, TEST, scenarios, tag, env=env, timeout=1500)


def _join(s, f):
    return ">".join(str(f(d)) for d in s["duties"])


def sig_of(s):
    # one value per duty of the history, joined with ">"
    return {"duties": len(s["duties"]), "nodeclient_provider": s["cfg"]["nodeclient"],
            "version": _join(s, lambda d: d["proposal"]["version"]), "blinded": _join(s, lambda d: d["proposal"]["blinded"]),
            "dslot": _join(s, lambda d: d["proposal"]["dslot"]), "graffiti": _join(s, lambda d: d["graffiti"]),
            "nodeclient": _join(s, lambda d: d["nodeclient"]), "auction": _join(s, lambda d: d["auction"]["kind"]),
            "unblind_all": s["cfg"]["unblindAll"], "sign": _join(s, lambda d: d["sign"]),
            "submit": _join(s, lambda d: d["submit"]), "relays": _join(s, lambda d: ",".join(d["relays"]))}


def _split(rows):
    """The rows of a history, duty by duty."""
    per, cur = [], []
    for r in rows:
        if r.get("ev") == "NextDuty":
            per.append(cur)
            cur = []
        cur.append(r)
    per.append(cur)
    return per


def nontrivial(s, rows):
    # exercises an antecedent of the property in some duty of the history: something was signed
    # (SignedIsSelected, SubmittedIntact, NothingWithoutUnblind), or a proposal was obtained for another slot
    # (must not be signed), or the graffiti lookup / the node client lookup / the auction failed
    # (DegradesNotSkips); for a later duty also: an earlier duty of the instance went wrong (history rule)
    per = _split(rows)
    for i, d in enumerate(s["duties"]):
        if i >= len(per):
            break
        evs = {r.get("ev") for r in per[i]}
        if "Sign" in evs:
            return True
        if d["proposal"]["out"] == "ok" and d["proposal"]["dslot"] != 0 and "Proposal" in evs:
            return True
        if (d["graffiti"] == "err" and "Graffiti" in evs) or (d["nodeclient"] == "err" and "NodeClient" in evs) \
                or (d["auction"]["kind"] == "err" and "Auction" in evs):
            return True
    return False


def _tags(d):
    """What goes wrong for a duty, as the scenario scripts it (FailureTags of Proposer.tla)."""
    t = []
    if d["accounts"] in ("err", "empty") or d["randao"] == "err":
        t.append("prepare")
    if d["graffiti"] == "err":
        t.append("graffiti")
    if d["nodeclient"] == "err":
        t.append("nodeclient")
    if d["auction"]["kind"] == "err":
        t.append("auction")
    p = d["proposal"]
    if p["out"] == "err":
        t.append("fetch")
    if p["out"] == "ok" and p["dslot"] != 0:
        t.append("wrongslot")
    if d["sign"] == "err":
        t.append("sign")
    if d["sign"] == "ok" and p["blinded"] and not any(x in ("full", "errfull") for x in d["relays"]):
        t.append("unblind")
    if d["submit"] == "err":
        t.append("submit")
    return tuple(t)


def _dstratum(d):
    p = d["proposal"]
    delivering = sum(1 for x in d["relays"] if x in ("full", "errfull"))
    return (p["out"], p["version"], p["blinded"], p["dslot"], d["sign"], d["accounts"], d["randao"], min(delivering, 2))


def _stratum(s):
    if len(s["duties"]) == 1:
        return _dstratum(s["duties"][0])
    # histories: what went wrong for each duty but the last x how the last duty obtains its graffiti and block
    last = s["duties"][-1]
    return (s["cfg"]["nodeclient"], tuple(_tags(d) for d in s["duties"][:-1]),
            (last["graffiti"], last["nodeclient"], last["proposal"]["blinded"]))


def _sample(rnd, scs, n):
    """Seeded sample that keeps every stratum represented as far as n allows (strata in seeded order)."""
    if n >= len(scs):
        return list(scs)
    groups = {}
    for s in scs:
        groups.setdefault(_stratum(s), []).append(s)
    keys = sorted(groups, key=repr)
    rnd.shuffle(keys)
    for k in keys:
        rnd.shuffle(groups[k])
    res = []
    while len(res) < n:
        progressed = False
        for k in keys:
            if groups[k] and len(res) < n:
                res.append(groups[k].pop())
                progressed = True
        if not progressed:
            break
    return res


def _widen(rnd, s, sc):
    """Widen the values the model keeps small: slots (and the gaps between the duties of a history), validator
    indices, token salt; relays are renumbered."""
    perm = [0, 1, 2]
    rnd.shuffle(perm)
    base = rnd.randrange(64, 20000000)
    gap = rnd.choice([1, 1, 2, 32, rnd.randrange(3, 300)])
    first = s["duties"][0]["slot"]
    v0 = rnd.randrange(1, 1500000)
    duties = []
    for d in s["duties"]:
        d = dict(d)
        d["slot"] = base + (d["slot"] - first) * gap
        d["v"] = v0 if rnd.random() < 0.5 else rnd.randrange(1, 1500000)
        relays = list(d["relays"]) + ["none"] * (3 - len(d["relays"]))
        al = list(d["auction"]["all"]) + [False] * (3 - len(d["auction"]["all"]))
        pr = list(d["auction"]["providers"]) + [False] * (3 - len(d["auction"]["providers"]))
        d["relays"] = [relays[perm[i]] for i in range(3)]
        d["auction"] = {"kind": d["auction"]["kind"], "all": [al[perm[i]] for i in range(3)],
                        "providers": [pr[perm[i]] for i in range(3)]}
        duties.append(d)
    return {"sc": sc, "salt": rnd.randrange(1, 1000000), "cfg": dict(s["cfg"]), "duties": duties}


def scenarios(tier):
    rnd = random.Random(vf.seed() * 7919 + 5)
    main = vf.tlc_scenarios(PID, "Scen_Proposer", "Scen_Proposer.cfg", exhaustive=True, name="scen", timeout=900)
    r3 = vf.tlc_scenarios(PID, "Scen_Proposer", "Scen_Proposer_r3.cfg", exhaustive=True, name="scen-r3", timeout=900)
    # histories: one service instance, two duties (thorough: also three)
    h2 = vf.tlc_scenarios(PID, "Scen_Proposer", "Scen_Proposer_hist.cfg", exhaustive=True, name="scen-hist", timeout=900)
    h3 = []
    if tier == "thorough":
        h3 = vf.tlc_scenarios(PID, "Scen_Proposer", "Scen_Proposer_hist3.cfg", exhaustive=True, name="scen-hist3",
                              timeout=1800, heap="6g")
    total = len(main) + len(r3) + len(h2) + len(h3)
    if tier == "quick":
        main = _sample(rnd, main, 2400)
        r3 = _sample(rnd, r3, 1200)
        h2 = _sample(rnd, h2, 800)
    else:
        h3 = _sample(rnd, h3, 3000)
    out = []
    # histories first: a hung Propose costs the driver its watchdog time, the sooner it starts the better
    for s in h2 + h3 + main + r3:
        out.append(_widen(rnd, s, len(out) + 1))
    vf.log("scenarios: %d of the %d terminal paths TLC enumerated (%d histories of 2 duties, %d of 3 duties on one "
           "service instance)" % (len(out), total, len(h2), len(h3)))
    return out


def observations():
    p = os.path.join(vf.outdir(PID), "observations.json")
    if not os.path.exists(p):
        return
    try:
        with open(p) as fh:
            obs = json.load(fh)
    except Exception:
        return
    crashes = [x["probe"] for x in obs.get("probes", []) if x.get("crash")]
    vf.log("observations (not part of C05's verdict; see docs/C05.md): %d probe shape(s) panic in Propose (C16): %s; "
           "%d goroutine(s) left in unblindProposal after the run (C20); crashes inside scenarios: %d; fallback cancels: %d" % (
               len(crashes), "; ".join(crashes), obs.get("goroutines_left_in_unblindProposal", -1),
               len(obs.get("crashes_in_scenarios", [])), obs.get("fallback_cancels", -1)))
    if obs.get("hung"):
        vf.log("the driver's watchdog recorded %d Propose call(s) that did not return (Hung)" % obs["hung"])


def run(tier):
    v = vf.Verdict(PID, tier)
    v.assumptions = [
        "Env_BlindedNeedsAuction: a blinded proposal is only returned when the auction produced results "
        "(a blinded proposal without them panics: property C16)",
        "Env_FaithfulAccounts: the accounts provider answers for the indices it is asked about",
        "Env_RelayShapes: a relay answers with an error, no response, or a response whose Data holds the block of "
        "the requested version (nil Data panics: property C16)",
        "all collaborators are scripted fakes at the service's interfaces; the driver ends the job context when no "
        "relay will reveal a block (production job contexts have no deadline: property C20)",
    ]
    v.add_mc(vf.tlc_exhaustive(PID, "Proposer", "MC_Proposer.cfg"))
    # every duty of every history terminates (liveness under weak fairness) - smaller constants
    v.add_mc(vf.tlc_exhaustive(PID, "Proposer", "MC_Proposer_live.cfg"))
    if tier == "thorough":
        v.add_mc(vf.tlc_exhaustive(PID, "Proposer", "MC_Proposer_big.cfg", timeout=2400))
        v.add_mc(vf.tlc_exhaustive(PID, "Proposer", "MC_Proposer_live_big.cfg", timeout=1800))
    sc = scenarios(tier)
    vf.conformance(v, sc, driver, "Trace_Proposer", "Trace_Proposer.cfg", sig_of, nontrivial,
                   chunk=2500 if tier == "thorough" else None)
    observations()
    v.coverage["rule"] = ("terminal paths of Proposer.tla's design enumerated exhaustively by TLC: single duties (every version x "
                          "full/blinded x proposal slot offset x outcome of each step x relay scripts) and histories of 2 (thorough: "
                          "also 3) consecutive duties on ONE service instance (every failure class of the earlier duty incl. graffiti "
                          "provider error, {{CLIENT}} template with failing NodeClient, auction, fetch, wrong slot, sign, unblind, "
                          "submit x reduced later duty); all of them (thorough; 3-duty histories sampled) or a seeded stratified "
                          "sample (quick) replayed on the real proposer service, each Propose under a watchdog; one evaluation = one "
                          "history; non-trivial = in some duty something was signed, or a proposal for another slot was obtained, "
                          "or graffiti/node client/auction failed; distinct by scenario")
    return v.finish()


def replay(path):
    v = vf.Verdict(PID, "quick")
    with open(os.path.join(path, "scenario.json")) as fh:
        s = json.load(fh)
    vf.conformance(v, [s], driver, "Trace_Proposer", "Trace_Proposer.cfg", sig_of, nontrivial)
    return 1 if v.violations else 0
