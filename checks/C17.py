"""C17 — Vouch's own concurrency never corrupts its state (spec/Concurrency.tla).

Two halves (see the header of Concurrency.tla and docs/C17.md):
  (a) linearizability: TLC generates the overlap schedules (<= 3 overlapping operations per group); the drivers
      run every schedule many times on the real services with goroutines behind start gates and record call
      histories (Inv/Ret with results); TLC validates every distinct history by searching a linearization
      (Trace_Concurrency, sequential operations as actions);
  (b) lock discipline: TLC checks Disciplined on the specification's rendering of each operation's lock
      acquisitions (Pinned = FALSE must hold, the Pinned = TRUE rendering of the suspected defects must violate it:
      non-vacuity).  Whether the Go program's accesses really are synchronised cannot be observed in TLA+: the
      drivers are BUILT WITH -race and run under GORACE="halt_on_error=0 log_path=..."; a report whose two access
      sites are in Vouch's code becomes the trace event Race(var, sites), which no action of the specification
      allows.  That half of C17 is decided by the Go race detector during the model-generated schedules.
"""
import concurrent.futures
import glob
import json
import os
import re
import shutil
import subprocess
import time
import vf

PID = "C17"
TEST = "TestVerifC17"
GROUPS = ["wallet", "blockrelay", "messenger", "controller", "cache", "validators", "attester",
          # the REST (MEV-boost) surface of the block relay, and two more pairs of the re-derived pair table
          "registrar", "bids", "restcfg", "exechead", "syncagg", "bestvotes", "bidstrategy",
          # the dirk account manager: second and later refreshes of one instance || account queries
          "dirk"]
# (package of the driver, test binary name); the controller driver lives inside the controller package
# because it reuses the C03 controller harness (package-internal)
DRIVERS = {
    "ext": ("./verifdrivers/c17", "c17.test"),
    "controller": ("./services/controller/standard", "c17controller.test"),
    # package-internal as well: the scripted wallets are put into the service's own wallet cache
    "dirk": ("./services/accountmanager/dirk", "c17dirk.test"),
}
# pinned rendering: the groups in which the suspected defects D9 make TLC find a violation of Disciplined
PINNED_VIOLATES = {"wallet": True, "blockrelay": True, "messenger": True, "controller": True,
                   "cache": False, "validators": False, "attester": False,
                   "registrar": False, "bids": False, "restcfg": True, "exechead": False, "syncagg": False,
                   "bestvotes": False, "bidstrategy": False}
# (group dirk has no pinned rendering: its self-checks are the Reuse renderings below)
# renderings of a CLASS of change that must violate Disciplined (non-vacuity of the entries of the Guard table
# that no defect of the pinned tree exercises): cfg -> what it renders
MUST_VIOLATE = {"MC_Concurrency_inplace_registrar.cfg":
                "the registration round alters the published controlled-validators map in place",
                "MC_Concurrency_reuse_dirk.cfg":
                "the dirk refresh builds its key list in the backing array of the published list: histories of three "
                "calls on one instance (the second refresh overlaps a query)"}
# ... and the control of that control: the same rendering is right as long as an instance sees ONE refresh (what
# a check that starts every schedule on a fresh instance looks at) - must HOLD
MUST_HOLD = {"MC_Concurrency_reuse_dirk_fresh.cfg":
             "the Reuse rendering with at most one refresh overlapping anything on a fresh instance"}

# Guard table keys -> how an access site is recognised in the source (file suffix, regex on the source line).
# The names are the variables of Concurrency!Guard; anything else racing inside Vouch is reported under the
# name "unlisted:<file>:<expr>".
SITES = [
    ("wallet.accounts", "services/accountmanager/wallet/service.go", r"\bs\.accounts\b"),
    ("dirk.accounts", "services/accountmanager/dirk/service.go", r"\bs\.accounts\b|\baccounts\["),
    ("dirk.wallets", "services/accountmanager/dirk/service.go", r"\bs\.wallets\b"),
    ("dirk.pubKeys", "services/accountmanager/dirk/service.go", r"\bs\.pubKeys\b"),
    # the elements of a key list (a local name in refreshAccounts; handed to the validators manager by the readers)
    ("dirk.pubKeys.elements", "services/accountmanager/dirk/service.go", r"\bpubKeys\b"),
    ("blockrelay.executionConfig", "services/blockrelay/standard/", r"\bs\.executionConfig\b"),
    ("v1.sharedProposerConfig", "services/blockrelay/v1/executionconfig.go", r"\bproposerConfig\.(GasLimit|Builder)\b"),
    # the contents of a configuration document are published through Service.executionConfig: a race on them is
    # a race on that publication (the reader obtained the pointer without the lock)
    ("blockrelay.executionConfig", "services/blockrelay/v2/", r"."),
    ("blockrelay.executionConfig", "services/blockrelay/v1/", r"."),
    ("blockrelay.executionConfig", "services/blockrelay/executionconfig.go", r"."),
    ("messenger.slotDataRecords", "services/synccommitteemessenger/standard/service.go", r"\bs\.slotDataRecords\b"),
    ("controller.reorgFields", "services/controller/standard/events.go",
     r"\bs\.(lastBlockRoot|lastBlockEpoch|previousDutyDependentRoot|currentDutyDependentRoot)\b"),
    ("cache.blockRootToSlot", "services/cache/standard/", r"\bs\.blockRootToSlot\b"),
    ("validators.maps", "services/validatorsmanager/standard/", r"\bs\.validators(ByIndex|ByPubKey)\b|\bs\.validatorPubKeyToIndex\b"),
    ("attester.attested", "services/attester/standard/", r"\bs\.attested\b"),
    # the entries of a published controlled-validators map (indexing), then the field itself
    ("blockrelay.controlledValidators.entries", "services/blockrelay/standard/", r"\bcontrolledValidators\["),
    ("blockrelay.controlledValidators", "services/blockrelay/standard/", r"\bcontrolledValidators\b"),
    ("blockrelay.builderBidsCache", "services/blockrelay/standard/", r"\bs\.builderBidsCache\b|\bslotBuilderBids\b"),
    ("blockrelay.signedValidatorRegistrations", "services/blockrelay/standard/", r"\bs\.signedValidatorRegistrations\b"),
    ("blockrelay.latestValidatorRegistrations", "services/blockrelay/standard/", r"\bs\.latestValidatorRegistrations\b"),
    ("util.builders", "util/builders.go", r"\bbuilders\b"),
    ("cache.executionChainHead", "services/cache/standard/", r"\bs\.executionChainHead(Root|Height)\b"),
    ("syncaggregator.beaconBlockRoots", "services/synccommitteeaggregator/standard/", r"\bs\.beaconBlockRoots\b"),
    ("controller.subscriptionInfos", "services/controller/standard/", r"\bs\.subscriptionInfos\b"),
    ("controller.pendingAttestations", "services/controller/standard/", r"\bs\.pendingAttestations\b"),
    ("bestproposal.priorBlocksVotes", "strategies/beaconblockproposal/best/", r"\bs\.priorBlocksVotes\b"),
    ("builderbid.relayPubkeys", "strategies/builderbid/", r"\bs\.relayPubkeys\b"),
]


def groups():
    e = os.environ.get("VERIF_C17_GROUPS")
    return [x for x in e.split(",") if x] if e else GROUPS


def driver_of(g):
    return g if g in ("controller", "dirk") else "ext"


_BUILT = {}


def build(kind):
    key = (vf.REPO, kind)
    if key in _BUILT:
        return _BUILT[key]
    pkg, name = DRIVERS[kind]
    binp = os.path.join(vf.outdir(PID), name)
    if os.path.exists(binp):
        os.remove(binp)
    rc, out, dt = vf.go_test(PID, pkg, "^%s$" % TEST, timeout=1500, race=True, extra_args=["-c", "-o", binp])
    if rc != 0 or not os.path.exists(binp):
        raise vf.Broken("driver %s does not build with -race against the current tree:\n%s" % (pkg, out[-4000:]))
    vf.log("driver %s built with -race (%.1fs)" % (pkg, dt))
    _BUILT[key] = binp
    return binp


def run_group(g, schedules, reps, tag):
    """Runs the schedules of one group in one (or, after a fatal runtime error, several) child processes.
    Returns the raw trace rows."""
    binp = build(driver_of(g))
    d = vf.outdir(PID, "run-%s-%s" % (tag, g))
    shutil.rmtree(d, ignore_errors=True)
    os.makedirs(d)
    rows = []
    remaining = list(schedules)
    rounds = 0
    while remaining:
        rounds += 1
        sp = os.path.join(d, "schedules-%d.ndjson" % rounds)
        tp = os.path.join(d, "trace-%d.ndjson" % rounds)
        rl = os.path.join(d, "race-%d" % rounds)
        vf.write_ndjson(sp, remaining)
        env = vf.go_env({"VERIF_SCENARIOS": sp, "VERIF_TRACE_OUT": tp, "VERIF_SEED": vf.seed(), "VERIF_C17_GROUP": g,
                         "VERIF_C17_REPS": reps, "VERIF_C17_RACELOG": rl,
                         "GORACE": "halt_on_error=0 exitcode=0 log_path=%s history_size=3" % rl})
        try:
            p = subprocess.run([binp, "-test.run", "^%s$" % TEST, "-test.timeout", "1500s", "-test.count", "1"],
                               cwd=d, env=env, stdout=subprocess.PIPE, stderr=subprocess.STDOUT, timeout=1560, text=True)
        except subprocess.TimeoutExpired as e:
            raise vf.Broken("driver of group %s timed out" % g) from e
        with open(os.path.join(d, "out-%d.log" % rounds), "w") as fh:
            fh.write(p.stdout)
        part = vf.read_ndjson(tp) if os.path.exists(tp) else []
        done = any(r.get("ev") == "Done" for r in part)
        rows += [r for r in part if r.get("ev") != "Done"]
        if done and (p.returncode == 0 or "race detected during execution of test" in p.stdout):
            break
        # the process died: a fatal runtime error (concurrent map access) is an observation, anything else is broken
        m = re.search(r"^fatal error: (concurrent map [^\n]*)", p.stdout, re.M)
        if not m or not part:
            raise vf.Broken("driver of group %s failed (rc=%d):\n%s" % (g, p.returncode, p.stdout[-5000:]))
        last = [r for r in part if r.get("sc")][-1]
        frames = re.findall(r"^(github\.com/attestantio/vouch/(?!verif)[^\s(]+)", p.stdout, re.M)
        rows.append({"sc": last["sc"], "h": last.get("h"), "ev": "Fatal", "g": g, "text": m.group(1),
                     "site": frames[0] if frames else ""})
        ids = [s["sc"] for s in remaining]
        remaining = remaining[ids.index(last["sc"]) + 1:]
        if rounds > 12:
            # every death is a Fatal event of its own (a verdict); the remaining schedules of the group are not run
            vf.log("driver of group %s died %d times of a fatal runtime error: remaining %d schedules skipped" % (g, rounds, len(remaining)))
            break
    return rows


_SRC = {}


def src_line(path, line):
    if path not in _SRC:
        try:
            _SRC[path] = open(path).read().splitlines()
        except OSError:
            _SRC[path] = []
    ls = _SRC[path]
    return ls[line - 1] if 0 < line <= len(ls) else ""


def parse_race_reports(text):
    """[(kind pair, site1, site2)] with site = (file relative to the repository or absolute, line, function) of the
    first frame of each of the two accesses that is not the Go runtime."""
    out = []
    for block in re.split(r"={10,}", text):
        if "WARNING: DATA RACE" not in block:
            continue
        accesses = []
        for m in re.finditer(r"^(?:Previous )?(read|write|Read|Write|atomic read|atomic write|Atomic read|Atomic write) at 0x[0-9a-f]+ by (?:main )?goroutine[^\n]*\n((?:  [^\n]*\n)+)",
                             block, re.M):
            kind = m.group(1).lower()
            frames = re.findall(r"^  (\S[^\n]*)\n      ([^\n]+?):(\d+)", m.group(2), re.M)
            site, first = None, None
            root = os.path.realpath(vf.REPO)
            for fn, path, line in frames:
                if fn.startswith("runtime.") or "/src/runtime/" in path or fn.startswith("internal/"):
                    continue
                cand = (path, int(line), fn[:-2] if fn.endswith("()") else fn)
                if first is None:
                    first = cand
                # the access site is attributed to the innermost frame of the repository under test (Vouch or
                # harness code injected into it); standard library / third party frames above it are skipped
                if os.path.realpath(path).startswith(root + "/") or "/overlay/" in path:
                    site = cand
                    break
            site = site or first
            accesses.append((kind, site))
        if len(accesses) >= 2 and accesses[0][1] and accesses[1][1]:
            out.append((accesses[0], accesses[1], block.strip()))
    return out


def classify_site(site):
    """('vouch', var) | ('harness', None) | ('library', None)"""
    path, line, fn = site
    rel = None
    root = os.path.realpath(vf.REPO)
    rp = os.path.realpath(path) if os.path.exists(path) else path
    if rp.startswith(root + "/"):
        rel = rp[len(root) + 1:]
    elif "/overlay/" in path or "/verifdrivers/" in path or "/verifsupport/" in path:
        return "harness", None
    if rel is None:
        return "library", None
    if rel.startswith("verifdrivers/") or rel.startswith("verifsupport/") or rel.startswith("mock/") or "zz_verif_" in rel or \
            rel.startswith("testutil/") or "/mock/" in rel:
        return "harness", None
    text = src_line(os.path.join(root, rel), line)
    for var, suffix, rx in SITES:
        if (rel == suffix or (suffix.endswith("/") and rel.startswith(suffix))) and re.search(rx, text):
            return "vouch", var
    m = re.search(r"\b(s|e|p|proposerConfig)\.(\w+)", text)
    return "vouch", "unlisted:%s:%s" % (rel, m.group(0) if m else fn.split(".")[-1])


def postprocess(rows):
    """RaceReport lines (raw text) -> Race{var, sites} lines for races between two sites in Vouch's code; reports
    involving harness code are counted apart (a harness defect, never a verdict)."""
    out, harness, seen = [], [], set()
    for r in rows:
        if r.get("ev") != "RaceReport":
            out.append(r)
            continue
        for a, b, block in parse_race_reports(r["text"]):
            ca, cb = classify_site(a[1]), classify_site(b[1])
            sites = sorted(["%s %s:%d %s" % (x[0], os.path.relpath(x[1][0], os.path.realpath(vf.REPO)) if x[1][0].startswith(os.path.realpath(vf.REPO)) else x[1][0],
                                             x[1][1], x[1][2].split("/")[-1]) for x in (a, b)])
            if ca[0] == "vouch" and cb[0] == "vouch":
                var = ca[1] if not ca[1].startswith("unlisted") else cb[1]
                key = (r.get("g"), var, tuple(sites))
                if key in seen:
                    continue
                seen.add(key)
                out.append({"sc": r.get("sc"), "h": r.get("h"), "ev": "Race", "g": r.get("g"), "var": var, "sites": sites})
            elif ca[0] == "harness" and cb[0] == "harness":
                pass        # a race between two pieces of harness code says nothing about Vouch
            elif "harness" in (ca[0], cb[0]):
                harness.append({"g": r.get("g"), "sites": sites})
            else:
                # a race inside a library reached from Vouch: reported under the calling group, never silently dropped
                key = (r.get("g"), "library", tuple(sites))
                if key not in seen:
                    seen.add(key)
                    out.append({"sc": r.get("sc"), "h": r.get("h"), "ev": "LibraryRace", "g": r.get("g"), "sites": sites})
    return out, harness


def histories(rows):
    """Splits rows into histories keyed by (sc, h); returns list of (key, rows)."""
    per, order = {}, []
    for r in rows:
        k = (r.get("sc"), r.get("h"))
        if k not in per:
            per[k] = []
            order.append(k)
        per[k].append(r)
    return [(k, per[k]) for k in order]


def canon(rows):
    return json.dumps([{k: v for k, v in r.items() if k not in ("seq", "h", "sc")} for r in rows], sort_keys=True)


def validate(rows, name):
    tp = os.path.join(vf.outdir(PID), "validate-%s.ndjson" % name)
    vf.write_ndjson(tp, rows)
    return vf.validate_trace(PID, "Trace_Concurrency", "Trace_Concurrency.cfg", tp, name="trace-" + name, dfs=True, timeout=1200)


def sig_of_race(r):
    return {"kind": "race", "var": r.get("var")}


def schedules(tier):
    hs = vf.tlc_scenarios(PID, "Scen_Concurrency", "Scen_Concurrency.cfg", exhaustive=True, timeout=600, workers=4)
    scs = [h[0] for h in hs if isinstance(h, list) and h and h[0].get("ev") == "Schedule"]
    scs.sort(key=lambda s: (s["g"], len(s["par"]), json.dumps(s, sort_keys=True)))
    return [{"sc": i + 1, "g": s["g"], "pre": s["pre"], "par": s["par"], "hold": s.get("hold", "free")} for i, s in enumerate(scs)]


def reps_for(g, tier):
    quick = {"wallet": 40, "controller": 6, "bidstrategy": 6, "dirk": 10}
    thorough = {"wallet": 400, "blockrelay": 40, "controller": 40, "registrar": 60, "restcfg": 40, "bidstrategy": 40,
                "dirk": 100}
    if tier == "quick":
        return quick.get(g, 12)
    return thorough.get(g, 200)


def run_all(v, scs, tier, tag, gs):
    by_group = {}
    for s in scs:
        by_group.setdefault(s["g"], []).append(s)
    for kind in sorted({driver_of(g) for g in gs}):
        build(kind)
    rows = []
    t0 = time.time()
    with concurrent.futures.ThreadPoolExecutor(max_workers=6) as ex:
        futs = {g: ex.submit(run_group, g, by_group.get(g, []), reps_for(g, tier), tag) for g in gs if by_group.get(g)}
        for g in gs:
            if g in futs:
                rows += futs[g].result()
    vf.log("drivers: %d schedules of %d groups -> %d trace lines (%.1fs)" % (len(scs), len(gs), len(rows), time.time() - t0))
    return rows


def check(v, scs, tier, gs, confirm=True):
    by_id = {s["sc"]: s for s in scs}
    raw = run_all(v, scs, tier, "batch", gs)
    rows, harness = postprocess(raw)
    if harness:
        raise vf.Broken("the race detector reports a race between harness code and Vouch code (fix the harness): %s" % harness[:3])
    hist = histories(rows)
    stuck = [k for k, rs in hist if any(r.get("ev") == "Stuck" for r in rs)]
    v.coverage["evaluations"] += len(hist)
    v.coverage["histories_with_calls_that_never_returned"] = len(stuck)
    # distinct histories (most repetitions of a schedule produce the same history)
    distinct, count = {}, {}
    for k, rs in hist:
        c = canon([r for r in rs if r.get("ev") in ("Reset", "Inv", "Ret")])
        count[c] = count.get(c, 0) + 1
        if c not in distinct:
            distinct[c] = (k, [r for r in rs if r.get("ev") in ("Reset", "Inv", "Ret")])
    overl = 0
    for c, (k, rs) in distinct.items():
        # non-trivial: two calls really overlapped in the log (an Inv between another call's Inv and Ret)
        open_calls, ov = set(), False
        for r in rs:
            if r["ev"] == "Inv":
                if open_calls:
                    ov = True
                open_calls.add(r["id"])
            elif r["ev"] == "Ret":
                open_calls.discard(r["id"])
        overl += 1 if ov else 0
    v.coverage["distinct_nontrivial"] += overl
    v.coverage["distinct_histories"] = len(distinct)
    for c, (k, rs) in list(distinct.items())[:2]:
        v.coverage["samples"].append({"schedule": by_id.get(k[0]), "history": rs})

    # 1. linearizability of every distinct history
    items = list(distinct.values())
    failures = 0
    accepted = 0
    while items:
        res = validate([r for _, rs in items for r in rs], "hist")
        if res["accepted"]:
            accepted += len(items)
            break
        flat = [(k, r) for k, rs in items for r in rs]
        k = flat[min(res["line"], len(flat)) - 1][0]
        pos = [kk for kk, _ in items].index(k)
        accepted += pos
        bad = items[pos][1]
        failures += 1
        sc = by_id.get(k[0])
        # confirmation: the schedule is run again (many repetitions); the same kind of history must show up again
        reproduced = not confirm
        if confirm:
            rr, _ = postprocess(run_all(v, [sc], "thorough" if tier == "thorough" else "quick", "confirm", [sc["g"]]))
            for _, rs2 in histories(rr):
                rs2 = [r for r in rs2 if r.get("ev") in ("Reset", "Inv", "Ret")]
                if not validate(rs2, "confirm")["accepted"]:
                    reproduced, bad = True, rs2
                    break
        if reproduced:
            d = vf.save_replay(PID, failures, sc, bad, "history is not linearizable: " + res["why"])
            v.report({"kind": "history", "g": sc["g"], "par": json.dumps(sc["par"], sort_keys=True)},
                     "non-linearizable history of group %s, schedule %s" % (sc["g"], json.dumps(sc["par"])), d)
        else:
            v.unreproduced.append("schedule %s: non-linearizable history did not show up again" % k[0])
        items = items[pos + 1:]
        if failures >= 5:
            break
    v.coverage["traces_validated_against_impl"] += accepted

    # 2. race reports / fatal errors: one report per (group, variable)
    events = [r for r in rows if r.get("ev") in ("Race", "Fatal", "LibraryRace")]
    groups_seen = {}
    for r in events:
        key = (r.get("g"), r.get("var") or r.get("ev"))
        groups_seen.setdefault(key, []).append(r)
    v.coverage["race_reports"] = {"%s/%s" % k: len(x) for k, x in sorted(groups_seen.items())}
    n = failures
    for key in sorted(groups_seen):
        ev = groups_seen[key][0]
        sc = by_id.get(ev.get("sc")) or [s for s in scs if s["g"] == key[0]][0]
        # the verdict is TLC's: the history of that schedule with the event appended is not a behaviour
        hrows = [r for k, rs in hist if k[0] == ev.get("sc") for r in rs if r.get("ev") in ("Reset", "Inv", "Ret")][:40]
        if not hrows:
            hrows = [{"ev": "Reset", "g": key[0], "sc": ev.get("sc")}]
        res = validate(hrows + [ev], "race")
        if res["accepted"]:
            raise vf.Broken("a trace with a %s event was accepted by the trace specification" % ev["ev"])
        reproduced = True
        if confirm and ev["ev"] == "Race":
            # reproduce: the schedules of the group are run again in a fresh process; the same variable must race again
            again = [s for s in scs if s["g"] == key[0]]
            rr, _ = postprocess(run_all(v, again, tier, "confirm", [key[0]]))
            reproduced = any(r.get("ev") == "Race" and r.get("var") == ev.get("var") for r in rr)
        if not reproduced:
            v.unreproduced.append("race on %s in group %s did not show up again" % (ev.get("var"), key[0]))
            vf.log("race on %s in group %s did not show up again: %s" % (ev.get("var"), key[0], groups_seen[key][0].get("sites")))
            continue
        n += 1
        sites = sorted({s for r in groups_seen[key] for s in r.get("sites", [])})
        note = "%s\n%s %s in group %s\nsites:\n%s" % (res["why"], ev["ev"], ev.get("var") or ev.get("text"), key[0], "\n".join(sites))
        d = vf.save_replay(PID, n, sc, hrows + [ev], note)
        sig = {"kind": ev["ev"].lower(), "var": ev.get("var") or ev.get("text")}
        v.report(sig, "%s on %s (group %s): %s" % (ev["ev"], ev.get("var") or ev.get("text"), key[0], "; ".join(sites)[:400]), d)
    return rows


def run(tier):
    v = vf.Verdict(PID, tier)
    v.assumptions = [
        "the memory-level half of C17 (are two accesses synchronised?) is decided by the Go race detector while the "
        "model-generated schedules run on the real services; races on paths no schedule exercises are not seen",
        "histories are logged with intervals that contain the real call intervals (Inv before the call, Ret after it)",
        "beacon nodes, relays, configuration source, signer and scheduler are fakes at Vouch's interfaces (with their own locks)",
    ]
    gs = groups()
    full = gs == GROUPS
    # the drivers are built (with -race) while TLC checks the model
    builder = concurrent.futures.ThreadPoolExecutor(max_workers=1)     # one at a time: they share the overlay file
    builds = [builder.submit(build, kind) for kind in sorted({driver_of(g) for g in gs})]
    # non-vacuity of the lock discipline: the pinned rendering of the suspected defects must violate Disciplined, and so
    # must the renderings of a CLASS of change (in-place registration round, re-used key list).  Small models,
    # started now, side by side, next to the exhaustive run
    small = concurrent.futures.ThreadPoolExecutor(max_workers=5)
    futs, must = {}, {}
    if full:
        futs = {g: small.submit(vf.tlc, PID, "mc-pinned-" + g, "Concurrency", "MC_Concurrency_pinned_%s.cfg" % g, workers=1, timeout=600)
                for g in PINNED_VIOLATES}
        must = {cfg: small.submit(vf.tlc, PID, "mc-" + cfg[len("MC_Concurrency_"):-4], "Concurrency", cfg, workers=1, timeout=600)
                for cfg in list(MUST_VIOLATE) + list(MUST_HOLD)}
    # the exhaustive run is part of every run (also of development runs restricted with VERIF_C17_GROUPS):
    # evidence.states / transitions are always those of THIS run
    v.add_mc(vf.tlc_exhaustive(PID, "Concurrency", "MC_Concurrency.cfg"))
    if full:
        if tier == "thorough":
            v.add_mc(vf.tlc_exhaustive(PID, "Concurrency", "MC_Concurrency_big.cfg", timeout=1500))
        if True:
            for g in PINNED_VIOLATES:
                r = futs[g].result()
                if PINNED_VIOLATES[g]:
                    if not (r["kind"] == "invariant" and r["violated"] == "Disciplined"):
                        raise vf.Broken("the pinned rendering of group %s does not violate Disciplined (%s %s): the lock "
                                        "discipline model is vacuous" % (g, r["kind"], r["violated"]))
                elif not r["ok"]:
                    raise vf.Broken("the pinned rendering of group %s violates %s" % (g, r["violated"]))
            for cfg, what in MUST_VIOLATE.items():
                r = must[cfg].result()
                if not (r["kind"] == "invariant" and r["violated"] == "Disciplined"):
                    raise vf.Broken("%s (%s) does not violate Disciplined (%s %s): the lock discipline model is vacuous"
                                    % (cfg, what, r["kind"], r["violated"]))
            for cfg, what in MUST_HOLD.items():
                r = must[cfg].result()
                if not r["ok"]:
                    raise vf.Broken("%s (%s) does not hold (%s %s)" % (cfg, what, r["kind"], r["violated"]))
    small.shutdown()
    scs = [s for s in schedules(tier) if s["g"] in gs]
    for b in builds:
        b.result()
    builder.shutdown()
    per = {}
    for s in scs:
        per[s["g"]] = per.get(s["g"], 0) + 1
    v.coverage["schedules"] = per
    check(v, scs, tier, gs)
    v.coverage["rule"] = ("one evaluation = one recorded history (one repetition of a TLC-generated overlap schedule on the real "
                          "service, race detector on); validated = distinct histories for which TLC found a linearization; "
                          "non-trivial = histories in which calls overlapped")
    return v.finish()


def replay(path):
    v = vf.Verdict(PID, "quick")
    with open(os.path.join(path, "scenario.json")) as fh:
        s = json.load(fh)
    scs = [x for x in schedules("quick") if x["g"] == s["g"]]
    check(v, scs, "quick", [s["g"]])
    return 1 if v.violations else 0
