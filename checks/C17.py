"""C17 — Vouch's own concurrency never corrupts its state (spec/Concurrency.tla).

Three parts (see the header of Concurrency.tla and docs/C17.md):
  (a) linearizability: TLC generates the overlap schedules (<= 3 overlapping operations per group); the drivers
      run every schedule many times on the real services with goroutines behind start gates and record call
      histories (Inv/Ret with results); TLC validates every distinct history by searching a linearization
      (Trace_Concurrency, sequential operations as actions);
  (b) lock discipline: TLC checks Disciplined on the specification's rendering of each operation's lock
      acquisitions (Pinned = FALSE must hold, the Pinned = TRUE rendering of the suspected defects must violate it:
      non-vacuity).  Whether the Go program's accesses really are synchronised cannot be observed in TLA+: the
      drivers are BUILT WITH -race and run under GORACE="halt_on_error=0 log_path=..."; a report whose two access
      sites are in Vouch's code becomes the trace event Race(var, sites), which no action of the specification
      allows.  That half of C17 is decided by the Go race detector during the model-generated schedules.
  (c) aliasing (group syncduty): structures that are shared between jobs / handlers of DIFFERENT components without a
      lock (the sync committee period's map of committee positions: every slot's duty, every data record, the head
      event handler) are objects of the specification with their holders; invariant SharedImmutable ("shared => never
      written after publication") over a WIDE environment (members without an account, failing / zero / partial
      answers of every request, per job); classes of change (a component starts to write what it was handed, for an
      edge input only) must be rejected by TLC, and accepted with a copy per duty / with the narrow environment (the
      two reasons why a check can be blind to them).  The binding runs the REAL controller scheduling path + the real
      messenger + the real aggregator + the head event handler under -race over TLC's enumeration of (environment,
      overlap); a panic of Vouch's code is the event Crash, a call or goroutine that never finishes the event Hung.
  Group builderclients (fifth round, sibling code paths): the shared helper util.FetchBuilderClient (process-wide map of
      relay clients) is a component of the specification with state; class builder-client-fast-path (a known client
      handed out before the lock is taken) must be rejected, and accepted when every client exists before the overlap
      (what drivers that pre-register fake relay clients look at).  Binding: ONE wired instance (real block relay + real
      best / deadline strategies + real HTTP relay clients), relays that are new to the process in every history.
"""
import random
import concurrent.futures
import glob
import json
import os
import re
import shutil
import subprocess
import time
import vf

PID = "C17"
TEST = "TestVerifC17"
GROUPS = ["wallet", "blockrelay", "messenger", "controller", "cache", "validators", "attester",
          # the REST (MEV-boost) surface of the block relay, and two more pairs of the re-derived pair table
          "registrar", "bids", "restcfg", "exechead", "syncagg", "bestvotes", "bidstrategy",
          # the dirk account manager: second and later refreshes of one instance || account queries
          "dirk",
          # the sync committee duty pipeline through the controller's scheduling path (aliased structures)
          "syncduty",
          # attestation jobs of one epoch's slots on the entries of the epoch's subscription info || head events
          "attinfo",
          # the process-wide map of relay clients behind util.FetchBuilderClient, with relays NEW to the process: real
          # block relay (registration round) || real builder-bid strategies best / deadline || direct fetches
          "builderclients"]
# (package of the driver, test binary name); the controller driver lives inside the controller package
# because it reuses the C03 controller harness (package-internal)
DRIVERS = {
    "ext": ("./verifdrivers/c17", "c17.test"),
    "controller": ("./services/controller/standard", "c17controller.test"),
    # package-internal as well: the scripted wallets are put into the service's own wallet cache
    "dirk": ("./services/accountmanager/dirk", "c17dirk.test"),
}
# pinned rendering: the groups in which the suspected defects D9 make TLC find a violation of Disciplined
PINNED_VIOLATES = {"wallet": True, "blockrelay": True, "messenger": True, "controller": True,
                   "cache": False, "validators": False, "attester": False,
                   "registrar": False, "bids": False, "restcfg": True, "exechead": False, "syncagg": False,
                   "bestvotes": False, "bidstrategy": False}
# (group dirk has no pinned rendering: its self-checks are the Reuse renderings below)
# renderings of a CLASS of change that must violate Disciplined (non-vacuity of the entries of the Guard table
# that no defect of the pinned tree exercises): cfg -> what it renders
MUST_VIOLATE = {"MC_Concurrency_inplace_registrar.cfg":
                ("the registration round alters the published controlled-validators map in place", "Disciplined"),
                "MC_Concurrency_reuse_dirk.cfg":
                ("the dirk refresh builds its key list in the backing array of the published list: histories of three "
                 "calls on one instance (the second refresh overlaps a query)", "Disciplined"),
                # group syncduty, classes of change on ALIASED structures (each only for an edge input of the wide
                # environment): a component writes an object it was handed
                "MC_Concurrency_alias_message_indices.cfg":
                ("the message job deletes the members without an account from its duty's map of committee positions - "
                 "the period's map, which every other duty and every data record aliases", "SharedImmutable"),
                "MC_Concurrency_alias_prepare_indices.cfg":
                ("the prepare job writes its duty's map of committee positions", "SharedImmutable"),
                "MC_Concurrency_alias_verify_indices.cfg":
                ("the head event's verification writes the map in the data record when the head block misses members",
                 "SharedImmutable"),
                "MC_Concurrency_alias_schedule_accounts.cfg":
                ("a slot's scheduling goroutine writes the period's accounts map (members without an account)",
                 "SharedImmutable"),
                # group attinfo
                "MC_Concurrency_alias_job_subscription_entries.cfg":
                ("an attestation job removes its slot from the epoch's published subscription info when the aggregator "
                 "has no account, while the jobs of the epoch's other slots read the entries without the lock", "Disciplined"),
                # group builderclients
                "MC_Concurrency_fastpath_builders.cfg":
                ("util.FetchBuilderClient hands out a known relay client before it takes the lock (double-checked locking) "
                 "while another goroutine inserts the client of a relay that is new to the process", "Disciplined")}
# ... and the control of that control: the same rendering is right as long as an instance sees ONE refresh (what
# a check that starts every schedule on a fresh instance looks at) - must HOLD
MUST_HOLD = {"MC_Concurrency_reuse_dirk_fresh.cfg":
             "the Reuse rendering with at most one refresh overlapping anything on a fresh instance",
             # the two reasons why a check can be blind to the class message-indices
             "MC_Concurrency_alias_message_indices_perslot.cfg":
             "the message job writes its duty's map, every duty having a COPY of its own (what driving the messenger "
             "apart from the controller looks at)",
             "MC_Concurrency_alias_message_indices_narrow.cfg":
             "the message job writes its duty's map for members without an account, in the NARROW environment in "
             "which every member has one",
             "MC_Concurrency_alias_job_subscription_entries_narrow.cfg":
             "the attestation job that alters the published subscription info, in the NARROW environment in which the "
             "attester returns no attestations (the job ends before it looks at the info)",
             "MC_Concurrency_fastpath_builders_known.cfg":
             "the lock-free fast path of util.FetchBuilderClient in the NARROW environment in which every relay has its "
             "client before the overlap (what a driver with pre-registered fake relay clients looks at)"}

# Guard table keys -> how an access site is recognised in the source (file suffix, regex on the source line).
# The names are the variables of Concurrency!Guard; anything else racing inside Vouch is reported under the
# name "unlisted:<file>:<expr>".
SITES = [
    ("wallet.accounts", "services/accountmanager/wallet/service.go", r"\bs\.accounts\b"),
    ("dirk.accounts", "services/accountmanager/dirk/service.go", r"\bs\.accounts\b|\baccounts\["),
    ("dirk.wallets", "services/accountmanager/dirk/service.go", r"\bs\.wallets\b"),
    ("dirk.pubKeys", "services/accountmanager/dirk/service.go", r"\bs\.pubKeys\b"),
    # the elements of a key list (a local name in refreshAccounts; handed to the validators manager by the readers)
    ("dirk.pubKeys.elements", "services/accountmanager/dirk/service.go", r"\bpubKeys\b"),
    ("blockrelay.executionConfig", "services/blockrelay/standard/", r"\bs\.executionConfig\b"),
    ("v1.sharedProposerConfig", "services/blockrelay/v1/executionconfig.go", r"\bproposerConfig\.(GasLimit|Builder)\b"),
    # the contents of a configuration document are published through Service.executionConfig: a race on them is
    # a race on that publication (the reader obtained the pointer without the lock)
    ("blockrelay.executionConfig", "services/blockrelay/v2/", r"."),
    ("blockrelay.executionConfig", "services/blockrelay/v1/", r"."),
    ("blockrelay.executionConfig", "services/blockrelay/executionconfig.go", r"."),
    ("messenger.slotDataRecords", "services/synccommitteemessenger/standard/service.go", r"\bs\.slotDataRecords\b"),
    ("controller.reorgFields", "services/controller/standard/events.go",
     r"\bs\.(lastBlockRoot|lastBlockEpoch|previousDutyDependentRoot|currentDutyDependentRoot)\b"),
    ("cache.blockRootToSlot", "services/cache/standard/", r"\bs\.blockRootToSlot\b"),
    ("validators.maps", "services/validatorsmanager/standard/", r"\bs\.validators(ByIndex|ByPubKey)\b|\bs\.validatorPubKeyToIndex\b"),
    ("attester.attested", "services/attester/standard/", r"\bs\.attested\b"),
    # the entries of a published controlled-validators map (indexing), then the field itself
    ("blockrelay.controlledValidators.entries", "services/blockrelay/standard/", r"\bcontrolledValidators\["),
    ("blockrelay.controlledValidators", "services/blockrelay/standard/", r"\bcontrolledValidators\b"),
    ("blockrelay.builderBidsCache", "services/blockrelay/standard/", r"\bs\.builderBidsCache\b|\bslotBuilderBids\b"),
    ("blockrelay.signedValidatorRegistrations", "services/blockrelay/standard/", r"\bs\.signedValidatorRegistrations\b"),
    ("blockrelay.latestValidatorRegistrations", "services/blockrelay/standard/", r"\bs\.latestValidatorRegistrations\b"),
    ("util.builders", "util/builders.go", r"\bbuilders\b"),
    ("cache.executionChainHead", "services/cache/standard/", r"\bs\.executionChainHead(Root|Height)\b"),
    ("syncaggregator.beaconBlockRoots", "services/synccommitteeaggregator/standard/", r"\bs\.beaconBlockRoots\b"),
    ("controller.subscriptionInfos", "services/controller/standard/", r"\bs\.subscriptionInfos\b"),
    # the entries of an epoch's subscription info picked up through the field (read by the attestation jobs without the lock)
    ("controller.subscriptionInfos.entries", "services/controller/standard/attester.go", r"\bsubscriptionInfoMap\b|\bslotInfoMap\b|\binfo\.\w+"),
    ("controller.pendingAttestations", "services/controller/standard/", r"\bs\.pendingAttestations\b"),
    ("bestproposal.priorBlocksVotes", "strategies/beaconblockproposal/best/", r"\bs\.priorBlocksVotes\b"),
    ("builderbid.relayPubkeys", "strategies/builderbid/", r"\bs\.relayPubkeys\b"),
    # group syncduty: objects without a lock (Guard = "(immutable)")
    ("syncduty.messageIndices", "services/synccommitteemessenger/", r"[cC]ontributionIndices|ValidatorToCommitteeIndex|validatorToCommitteeIndex"),
    ("syncduty.messageIndices", "services/controller/standard/", r"ValidatorToCommitteeIndex|\bmessageIndices\b|\bcommitteeIndices\b|ValidatorSyncCommitteeIndices"),
    ("syncduty.accountsByIndex", "services/controller/standard/synccommitteemessenger.go", r"\baccounts\b"),
    ("syncduty.dutyAccounts", "services/synccommitteemessenger/service.go", r"\bd\.accounts\b"),
    ("syncduty.dutyAccounts", "services/synccommitteeaggregator/standard/", r"duty\.Accounts\b"),
    ("syncduty.selectionProofs", "services/synccommitteemessenger/service.go", r"\bd\.aggregatorSubcommittees\b"),
    ("syncduty.selectionProofs", "services/synccommitteeaggregator/standard/", r"duty\.SelectionProofs\b"),
]


def groups():
    e = os.environ.get("VERIF_C17_GROUPS")
    return [x for x in e.split(",") if x] if e else GROUPS


def driver_of(g):
    if g in ("syncduty", "attinfo"):
        return "controller"
    return g if g in ("controller", "dirk") else "ext"


_BUILT = {}


def build(kind):
    key = (vf.REPO, kind)
    if key in _BUILT:
        return _BUILT[key]
    pkg, name = DRIVERS[kind]
    binp = os.path.join(vf.outdir(PID), name)
    if os.path.exists(binp):
        os.remove(binp)
    rc, out, dt = vf.go_test(PID, pkg, "^%s$" % TEST, timeout=1500, race=True, extra_args=["-c", "-o", binp])
    if rc != 0 or not os.path.exists(binp):
        raise vf.Broken("driver %s does not build with -race against the current tree:\n%s" % (pkg, out[-4000:]))
    vf.log("driver %s built with -race (%.1fs)" % (pkg, dt))
    _BUILT[key] = binp
    return binp


def run_group(g, schedules, reps, tag):
    """Runs the schedules of one group in one (or, after a fatal runtime error, several) child processes.
    Returns the raw trace rows."""
    binp = build(driver_of(g))
    d = vf.outdir(PID, "run-%s-%s" % (tag, g))
    shutil.rmtree(d, ignore_errors=True)
    os.makedirs(d)
    rows = []
    remaining = list(schedules)
    rounds = 0
    while remaining:
        rounds += 1
        sp = os.path.join(d, "schedules-%d.ndjson" % rounds)
        tp = os.path.join(d, "trace-%d.ndjson" % rounds)
        rl = os.path.join(d, "race-%d" % rounds)
        vf.write_ndjson(sp, remaining)
        env = vf.go_env({"VERIF_SCENARIOS": sp, "VERIF_TRACE_OUT": tp, "VERIF_SEED": vf.seed(), "VERIF_C17_GROUP": g,
                         "VERIF_C17_REPS": reps, "VERIF_C17_RACELOG": rl,
                         "GORACE": "halt_on_error=0 exitcode=0 log_path=%s history_size=3" % rl})
        try:
            p = subprocess.run([binp, "-test.run", "^%s$" % TEST, "-test.timeout", "1500s", "-test.count", "1"],
                               cwd=d, env=env, stdout=subprocess.PIPE, stderr=subprocess.STDOUT, timeout=1560, text=True)
        except subprocess.TimeoutExpired as e:
            raise vf.Broken("driver of group %s timed out" % g) from e
        with open(os.path.join(d, "out-%d.log" % rounds), "w") as fh:
            fh.write(p.stdout)
        part = vf.read_ndjson(tp) if os.path.exists(tp) else []
        done = any(r.get("ev") == "Done" for r in part)
        rows += [r for r in part if r.get("ev") != "Done"]
        if done and (p.returncode == 0 or "race detected during execution of test" in p.stdout):
            break
        # the process died: a fatal runtime error (concurrent map access) or a panic of Vouch's code on a goroutine of
        # its own is an observation, anything else is broken
        m = re.search(r"^fatal error: (concurrent map [^\n]*)", p.stdout, re.M)
        pm = re.search(r"^panic: ([^\n]*)", p.stdout, re.M)
        frames = [f for f in re.findall(r"^(github\.com/attestantio/vouch/(?!verif)[^\s(]+)", p.stdout, re.M)
                  if not re.search(r"\.\(?\*?c\d\d[A-Z]|TestVerif", f)]
        if not part or not (m or (pm and frames)):
            raise vf.Broken("driver of group %s failed (rc=%d):\n%s" % (g, p.returncode, p.stdout[-5000:]))
        last = [r for r in part if r.get("sc")][-1]
        if m:
            rows.append({"sc": last["sc"], "h": last.get("h"), "ev": "Fatal", "g": g, "text": m.group(1),
                         "site": frames[0] if frames else ""})
        else:
            rows.append({"sc": last["sc"], "h": last.get("h"), "ev": "Crash", "g": g, "where": "goroutine",
                         "text": pm.group(1)[:200], "site": frames[0]})
        ids = [s["sc"] for s in remaining]
        remaining = remaining[ids.index(last["sc"]) + 1:]
        if rounds > 12:
            # every death is a Fatal event of its own (a verdict); the remaining schedules of the group are not run
            vf.log("driver of group %s died %d times of a fatal runtime error: remaining %d schedules skipped" % (g, rounds, len(remaining)))
            break
    return rows


_SRC = {}


def src_line(path, line):
    if path not in _SRC:
        try:
            _SRC[path] = open(path).read().splitlines()
        except OSError:
            _SRC[path] = []
    ls = _SRC[path]
    return ls[line - 1] if 0 < line <= len(ls) else ""


def parse_race_reports(text):
    """[(kind pair, site1, site2)] with site = (file relative to the repository or absolute, line, function) of the
    first frame of each of the two accesses that is not the Go runtime."""
    out = []
    for block in re.split(r"={10,}", text):
        if "WARNING: DATA RACE" not in block:
            continue
        accesses = []
        for m in re.finditer(r"^(?:Previous )?(read|write|Read|Write|atomic read|atomic write|Atomic read|Atomic write) at 0x[0-9a-f]+ by (?:main )?goroutine[^\n]*\n((?:  [^\n]*\n)+)",
                             block, re.M):
            kind = m.group(1).lower()
            frames = re.findall(r"^  (\S[^\n]*)\n      ([^\n]+?):(\d+)", m.group(2), re.M)
            site, first = None, None
            root = os.path.realpath(vf.REPO)
            for fn, path, line in frames:
                if fn.startswith("runtime.") or "/src/runtime/" in path or fn.startswith("internal/"):
                    continue
                cand = (path, int(line), fn[:-2] if fn.endswith("()") else fn)
                if first is None:
                    first = cand
                # the access site is attributed to the innermost frame of the repository under test (Vouch or
                # harness code injected into it); standard library / third party frames above it are skipped
                if os.path.realpath(path).startswith(root + "/") or "/overlay/" in path:
                    site = cand
                    break
            site = site or first
            accesses.append((kind, site))
        if len(accesses) >= 2 and accesses[0][1] and accesses[1][1]:
            out.append((accesses[0], accesses[1], block.strip()))
    return out


def classify_site(site):
    """('vouch', var) | ('harness', None) | ('library', None)"""
    path, line, fn = site
    rel = None
    root = os.path.realpath(vf.REPO)
    rp = os.path.realpath(path) if os.path.exists(path) else path
    if rp.startswith(root + "/"):
        rel = rp[len(root) + 1:]
    elif "/overlay/" in path or "/verifdrivers/" in path or "/verifsupport/" in path:
        return "harness", None
    if rel is None:
        return "library", None
    if rel.startswith("verifdrivers/") or rel.startswith("verifsupport/") or rel.startswith("mock/") or "zz_verif_" in rel or \
            rel.startswith("testutil/") or "/mock/" in rel:
        return "harness", None
    text = src_line(os.path.join(root, rel), line)
    for var, suffix, rx in SITES:
        if (rel == suffix or (suffix.endswith("/") and rel.startswith(suffix))) and re.search(rx, text):
            return "vouch", var
    m = re.search(r"\b(s|e|p|proposerConfig)\.(\w+)", text)
    return "vouch", "unlisted:%s:%s" % (rel, m.group(0) if m else fn.split(".")[-1])


def postprocess(rows):
    """RaceReport lines (raw text) -> Race{var, sites} lines for races between two sites in Vouch's code; reports
    involving harness code are counted apart (a harness defect, never a verdict)."""
    out, harness, seen = [], [], set()
    for r in rows:
        if r.get("ev") != "RaceReport":
            out.append(r)
            continue
        for a, b, block in parse_race_reports(r["text"]):
            ca, cb = classify_site(a[1]), classify_site(b[1])
            sites = sorted(["%s %s:%d %s" % (x[0], os.path.relpath(x[1][0], os.path.realpath(vf.REPO)) if x[1][0].startswith(os.path.realpath(vf.REPO)) else x[1][0],
                                             x[1][1], x[1][2].split("/")[-1]) for x in (a, b)])
            if ca[0] == "vouch" and cb[0] == "vouch":
                var = ca[1] if not ca[1].startswith("unlisted") else cb[1]
                key = (r.get("g"), var, tuple(sites))
                if key in seen:
                    continue
                seen.add(key)
                out.append({"sc": r.get("sc"), "h": r.get("h"), "ev": "Race", "g": r.get("g"), "var": var, "sites": sites})
            elif ca[0] == "harness" and cb[0] == "harness":
                pass        # a race between two pieces of harness code says nothing about Vouch
            elif "harness" in (ca[0], cb[0]):
                harness.append({"g": r.get("g"), "sites": sites})
            else:
                # a race inside a library reached from Vouch: reported under the calling group, never silently dropped
                key = (r.get("g"), "library", tuple(sites))
                if key not in seen:
                    seen.add(key)
                    out.append({"sc": r.get("sc"), "h": r.get("h"), "ev": "LibraryRace", "g": r.get("g"), "sites": sites})
    return out, harness


def histories(rows):
    """Splits rows into histories keyed by (sc, h); returns list of (key, rows)."""
    per, order = {}, []
    for r in rows:
        k = (r.get("sc"), r.get("h"))
        if k not in per:
            per[k] = []
            order.append(k)
        per[k].append(r)
    return [(k, per[k]) for k in order]


def canon(rows):
    return json.dumps([{k: v for k, v in r.items() if k not in ("seq", "h", "sc")} for r in rows], sort_keys=True)


def validate(rows, name):
    tp = os.path.join(vf.outdir(PID), "validate-%s.ndjson" % name)
    vf.write_ndjson(tp, rows)
    return vf.validate_trace(PID, "Trace_Concurrency", "Trace_Concurrency.cfg", tp, name="trace-" + name, dfs=True, timeout=1200)


def sig_of_race(r):
    return {"kind": "race", "var": r.get("var")}


def sync_features(s):
    """The choices of the environment and of the overlap that a schedule of group syncduty is made of."""
    acct = [op for op in s["pre"] if op["op"] == "Env"][0]["acct"]
    f = [("acct", tuple(acct)), ("late1", not any(op["op"] == "Msg" for op in s["pre"]))]
    for op in s["par"]:
        key = "%s%s%s" % (op["op"], op.get("s", ""), "n%d" % op["node"] if "node" in op else "")
        vals = sorted((k, v) for k, v in op.items() if k not in ("op", "s", "node"))
        f.append((key, tuple(vals)))
        for k, v in vals:
            f.append((key + "." + k, v))
    return f


def select_syncduty(scs, tier):
    """TLC enumerates every (environment, overlap) of group syncduty in both release orders.  One order of each is run
    (seeded choice); the thorough tier runs them all, the quick tier a seeded subset that covers, for every shape of
    overlap (which jobs / events overlap), every PAIR of choices (accounts x each answer, answer x answer, ...)."""
    rnd = random.Random(vf.seed())
    scs = sorted(scs, key=lambda s: json.dumps(s, sort_keys=True))
    rnd.shuffle(scs)
    unordered = {}
    for s in scs:
        key = (json.dumps(s["pre"], sort_keys=True), tuple(sorted(json.dumps(op, sort_keys=True) for op in s["par"])))
        unordered.setdefault(key, s)
    scs = list(unordered.values())
    if tier != "quick":
        return scs
    shapes = {}
    for s in scs:
        shape = tuple(sorted((op["op"], op.get("s", 0), op.get("node", 0)) for op in s["par"]))
        shapes.setdefault(shape, []).append(s)
    chosen = []
    for shape in sorted(shapes):
        cands = [(s, sync_features(s)) for s in shapes[shape]]
        need = set()
        for _, f in cands:
            dims = [x for x in f if "." in x[0] or x[0] in ("acct", "late1")]
            need.update((a, b) for i, a in enumerate(dims) for b in dims[i + 1:])
        while need and cands:
            best, bestcov = None, -1
            for i, (s_, f) in enumerate(cands):
                dims = [x for x in f if "." in x[0] or x[0] in ("acct", "late1")]
                cov = sum(1 for j, a in enumerate(dims) for b in dims[j + 1:] if (a, b) in need)
                if cov > bestcov:
                    best, bestcov = i, cov
            if bestcov <= 0:
                break
            s_, f = cands.pop(best)
            dims = [x for x in f if "." in x[0] or x[0] in ("acct", "late1")]
            need.difference_update((a, b) for j, a in enumerate(dims) for b in dims[j + 1:])
            chosen.append(s_)
    return chosen


def schedules(tier):
    hs = vf.tlc_scenarios(PID, "Scen_Concurrency", "Scen_Concurrency.cfg", exhaustive=True, timeout=600, workers=4)
    scs = [h[0] for h in hs if isinstance(h, list) and h and h[0].get("ev") == "Schedule"]
    sync = select_syncduty([s for s in scs if s["g"] == "syncduty"], tier)
    scs = [s for s in scs if s["g"] != "syncduty"]
    scs.sort(key=lambda s: (s["g"], len(s["par"]), json.dumps(s, sort_keys=True)))
    sync.sort(key=lambda s: (len(s["par"]), json.dumps(s, sort_keys=True)))
    scs += sync          # last: the numbering of the other groups' schedules does not depend on the selection
    return [{"sc": i + 1, "g": s["g"], "pre": s["pre"], "par": s["par"], "hold": s.get("hold", "free")} for i, s in enumerate(scs)]


def reps_for(g, tier):
    # syncduty: repetition r makes interface r % 4 slow (none, head root, head block, signers): a multiple of 4
    quick = {"wallet": 40, "controller": 6, "bidstrategy": 6, "dirk": 10, "syncduty": 4, "builderclients": 6}
    thorough = {"wallet": 400, "blockrelay": 40, "controller": 40, "registrar": 60, "restcfg": 40, "bidstrategy": 40,
                "dirk": 100, "syncduty": 8, "builderclients": 30}
    if tier == "quick":
        return quick.get(g, 12)
    return thorough.get(g, 200)


def run_all(v, scs, tier, tag, gs):
    by_group = {}
    for s in scs:
        by_group.setdefault(s["g"], []).append(s)
    for kind in sorted({driver_of(g) for g in gs}):
        build(kind)
    rows = []
    t0 = time.time()
    with concurrent.futures.ThreadPoolExecutor(max_workers=6) as ex:
        futs = {g: ex.submit(run_group, g, by_group.get(g, []), reps_for(g, tier), tag) for g in gs if by_group.get(g)}
        for g in gs:
            if g in futs:
                rows += futs[g].result()
    vf.log("drivers: %d schedules of %d groups -> %d trace lines (%.1fs)" % (len(scs), len(gs), len(rows), time.time() - t0))
    return rows


def check(v, scs, tier, gs, confirm=True):
    by_id = {s["sc"]: s for s in scs}
    raw = run_all(v, scs, tier, "batch", gs)
    rows, harness = postprocess(raw)
    if harness:
        raise vf.Broken("the race detector reports a race between harness code and Vouch code (fix the harness): %s" % harness[:3])
    # a call that never returned (the runner gave up after 8 s) is the event Hung
    rows = [dict(r, ev="Hung", text="a call did not return within 8 s") if r.get("ev") == "Stuck" else r for r in rows]
    # coverage information of group syncduty (not part of a history): how the data records alias the period's map
    alias = [r for r in rows if r.get("ev") == "Alias"]
    rows = [r for r in rows if r.get("ev") != "Alias"]
    if alias:
        v.coverage["syncduty_histories_with_records_aliasing_one_map"] = \
            v.coverage.get("syncduty_histories_with_records_aliasing_one_map", 0) + \
            sum(1 for r in alias if r.get("records", 0) >= 2 and r.get("objects") == 1)
        v.coverage["syncduty_histories_with_a_member_without_account"] = \
            v.coverage.get("syncduty_histories_with_a_member_without_account", 0) + sum(1 for r in alias if r.get("accountless", 0) > 0)
    hist = histories(rows)
    stuck = [k for k, rs in hist if any(r.get("ev") == "Hung" for r in rs)]
    v.coverage["evaluations"] += len(hist)
    v.coverage["histories_with_calls_that_never_returned"] = len(stuck)
    # distinct histories (most repetitions of a schedule produce the same history)
    distinct, count = {}, {}
    for k, rs in hist:
        c = canon([r for r in rs if r.get("ev") in ("Reset", "Inv", "Ret")])
        count[c] = count.get(c, 0) + 1
        if c not in distinct:
            distinct[c] = (k, [r for r in rs if r.get("ev") in ("Reset", "Inv", "Ret")])
    overl = 0
    for c, (k, rs) in distinct.items():
        # non-trivial: two calls really overlapped in the log (an Inv between another call's Inv and Ret)
        open_calls, ov = set(), False
        for r in rs:
            if r["ev"] == "Inv":
                if open_calls:
                    ov = True
                open_calls.add(r["id"])
            elif r["ev"] == "Ret":
                open_calls.discard(r["id"])
        overl += 1 if ov else 0
    v.coverage["distinct_nontrivial"] += overl
    v.coverage["distinct_histories"] = len(distinct)
    for c, (k, rs) in list(distinct.items())[:2]:
        v.coverage["samples"].append({"schedule": by_id.get(k[0]), "history": rs})

    # 1. linearizability of every distinct history
    items = list(distinct.values())
    failures = 0
    accepted = 0
    while items:
        res = validate([r for _, rs in items for r in rs], "hist")
        if res["accepted"]:
            accepted += len(items)
            break
        flat = [(k, r) for k, rs in items for r in rs]
        k = flat[min(res["line"], len(flat)) - 1][0]
        pos = [kk for kk, _ in items].index(k)
        accepted += pos
        bad = items[pos][1]
        failures += 1
        sc = by_id.get(k[0])
        # confirmation: the schedule is run again (many repetitions); the same kind of history must show up again
        reproduced = not confirm
        if confirm:
            rr, _ = postprocess(run_all(v, [sc], "thorough" if tier == "thorough" else "quick", "confirm", [sc["g"]]))
            for _, rs2 in histories(rr):
                rs2 = [r for r in rs2 if r.get("ev") in ("Reset", "Inv", "Ret")]
                if not validate(rs2, "confirm")["accepted"]:
                    reproduced, bad = True, rs2
                    break
        if reproduced:
            d = vf.save_replay(PID, failures, sc, bad, "history is not linearizable: " + res["why"])
            v.report({"kind": "history", "g": sc["g"], "par": json.dumps(sc["par"], sort_keys=True)},
                     "non-linearizable history of group %s, schedule %s" % (sc["g"], json.dumps(sc["par"])), d)
        else:
            v.unreproduced.append("schedule %s: non-linearizable history did not show up again" % k[0])
        items = items[pos + 1:]
        if failures >= 5:
            break
    v.coverage["traces_validated_against_impl"] += accepted

    # 2. race reports / fatal errors / panics / hangs: one report per (group, variable or kind of event)
    events = [r for r in rows if r.get("ev") in ("Race", "Fatal", "LibraryRace", "Crash", "Hung")]
    groups_seen = {}
    for r in events:
        key = (r.get("g") or by_id.get(r.get("sc"), {}).get("g"), r.get("var") or r.get("ev"))
        groups_seen.setdefault(key, []).append(r)
    v.coverage["race_reports"] = {"%s/%s" % k: len(x) for k, x in sorted(groups_seen.items())}
    n = failures
    for key in sorted(groups_seen):
        ev = groups_seen[key][0]
        sc = by_id.get(ev.get("sc")) or [s for s in scs if s["g"] == key[0]][0]
        # the verdict is TLC's: the history of that schedule with the event appended is not a behaviour
        hrows = [r for k, rs in hist if k[0] == ev.get("sc") for r in rs if r.get("ev") in ("Reset", "Inv", "Ret")][:40]
        if not hrows:
            hrows = [{"ev": "Reset", "g": key[0], "sc": ev.get("sc")}]
        res = validate(hrows + [ev], "race")
        if res["accepted"]:
            raise vf.Broken("a trace with a %s event was accepted by the trace specification" % ev["ev"])
        reproduced = True
        if confirm and ev["ev"] == "Race":
            # reproduce: the schedules of the group are run again in a fresh process; the same variable must race again
            again = [s for s in scs if s["g"] == key[0]]
            rr, _ = postprocess(run_all(v, again, tier, "confirm", [key[0]]))
            reproduced = any(r.get("ev") == "Race" and r.get("var") == ev.get("var") for r in rr)
        elif confirm and ev["ev"] in ("Crash", "Hung"):
            # reproduce: the schedule alone, in a fresh process; the same kind of event must show up again
            rr, _ = postprocess(run_all(v, [sc], tier, "confirm", [key[0]]))
            reproduced = any(r.get("ev") == ev["ev"] or (ev["ev"] == "Hung" and r.get("ev") == "Stuck") for r in rr)
        if not reproduced:
            v.unreproduced.append("race on %s in group %s did not show up again" % (ev.get("var"), key[0]))
            vf.log("race on %s in group %s did not show up again: %s" % (ev.get("var"), key[0], groups_seen[key][0].get("sites")))
            continue
        n += 1
        sites = sorted({s for r in groups_seen[key] for s in r.get("sites", [])})
        note = "%s\n%s %s in group %s\nsites:\n%s" % (res["why"], ev["ev"], ev.get("var") or ev.get("text"), key[0], "\n".join(sites))
        d = vf.save_replay(PID, n, sc, hrows + [ev], note)
        sig = {"kind": ev["ev"].lower(), "var": ev.get("var") or ev.get("text")}
        v.report(sig, "%s on %s (group %s): %s" % (ev["ev"], ev.get("var") or ev.get("text"), key[0],
                                                   ("; ".join(sites) or ev.get("site") or "")[:400]), d)
    return rows


def run(tier):
    v = vf.Verdict(PID, tier)
    v.assumptions = [
        "the memory-level half of C17 (are two accesses synchronised?) is decided by the Go race detector while the "
        "model-generated schedules run on the real services; races on paths no schedule exercises are not seen",
        "histories are logged with intervals that contain the real call intervals (Inv before the call, Ret after it)",
        "beacon nodes, relays, configuration source, signer and scheduler are fakes at Vouch's interfaces (with their own locks)",
    ]
    gs = groups()
    full = gs == GROUPS
    # the drivers are built (with -race) while TLC checks the model
    builder = concurrent.futures.ThreadPoolExecutor(max_workers=1)     # one at a time: they share the overlay file
    builds = [builder.submit(build, kind) for kind in sorted({driver_of(g) for g in gs})]
    # non-vacuity of the lock discipline: the pinned rendering of the suspected defects must violate Disciplined, and so
    # must the renderings of a CLASS of change (in-place registration round, re-used key list).  Small models,
    # started now, side by side, next to the exhaustive run
    small = concurrent.futures.ThreadPoolExecutor(max_workers=7)
    side = concurrent.futures.ThreadPoolExecutor(max_workers=4)       # the second exhaustive run, the schedule generation
    futs, must = {}, {}
    if full:
        futs = {g: small.submit(vf.tlc, PID, "mc-pinned-" + g, "Concurrency", "MC_Concurrency_pinned_%s.cfg" % g, workers=1, timeout=600)
                for g in PINNED_VIOLATES}
        must = {cfg: small.submit(vf.tlc, PID, "mc-" + cfg[len("MC_Concurrency_"):-4], "Concurrency", cfg, workers=1, timeout=600)
                for cfg in list(MUST_VIOLATE) + list(MUST_HOLD)}
    # the exhaustive run is part of every run (also of development runs restricted with VERIF_C17_GROUPS):
    # evidence.states / transitions are always those of THIS run
    sync_mc = None
    if "syncduty" in gs:
        # group syncduty over the whole alphabet of its environment, next to the other groups' run
        sync_mc = side.submit(vf.tlc_exhaustive, PID, "Concurrency", "MC_Concurrency_syncduty.cfg", workers=4)
    sync_big = None
    if "syncduty" in gs and tier == "thorough":
        # three calls, every choice of accounts / history, the requests answered (but head root and head block)
        sync_big = side.submit(vf.tlc_exhaustive, PID, "Concurrency", "MC_Concurrency_syncduty_big.cfg", workers=4, timeout=1500)
    clients_mc = None
    if "builderclients" in gs:
        clients_mc = side.submit(vf.tlc_exhaustive, PID, "Concurrency", "MC_Concurrency_builderclients.cfg", workers=2, heap="2g")
    sched_f = side.submit(schedules, tier)
    v.add_mc(vf.tlc_exhaustive(PID, "Concurrency", "MC_Concurrency.cfg"))
    if sync_mc is not None:
        v.add_mc(sync_mc.result())
    if clients_mc is not None:
        v.add_mc(clients_mc.result())
    if full:
        if tier == "thorough":
            v.add_mc(vf.tlc_exhaustive(PID, "Concurrency", "MC_Concurrency_big.cfg", timeout=1500))
    if sync_big is not None:
        v.add_mc(sync_big.result())
    if full:
        if True:
            for g in PINNED_VIOLATES:
                r = futs[g].result()
                if PINNED_VIOLATES[g]:
                    if not (r["kind"] == "invariant" and r["violated"] == "Disciplined"):
                        raise vf.Broken("the pinned rendering of group %s does not violate Disciplined (%s %s): the lock "
                                        "discipline model is vacuous" % (g, r["kind"], r["violated"]))
                elif not r["ok"]:
                    raise vf.Broken("the pinned rendering of group %s violates %s" % (g, r["violated"]))
            for cfg, (what, inv) in MUST_VIOLATE.items():
                r = must[cfg].result()
                if not (r["kind"] == "invariant" and r["violated"] == inv):
                    raise vf.Broken("%s (%s) does not violate %s (%s %s): the lock discipline / aliasing model is vacuous"
                                    % (cfg, what, inv, r["kind"], r["violated"]))
            for cfg, what in MUST_HOLD.items():
                r = must[cfg].result()
                if not r["ok"]:
                    raise vf.Broken("%s (%s) does not hold (%s %s)" % (cfg, what, r["kind"], r["violated"]))
    small.shutdown()
    scs = [s for s in sched_f.result() if s["g"] in gs]
    side.shutdown()
    for b in builds:
        b.result()
    builder.shutdown()
    per = {}
    for s in scs:
        per[s["g"]] = per.get(s["g"], 0) + 1
    v.coverage["schedules"] = per
    check(v, scs, tier, gs)
    v.coverage["rule"] = ("one evaluation = one recorded history (one repetition of a TLC-generated overlap schedule on the real "
                          "service, race detector on); validated = distinct histories for which TLC found a linearization; "
                          "non-trivial = histories in which calls overlapped")
    return v.finish()


def replay(path):
    v = vf.Verdict(PID, "quick")
    with open(os.path.join(path, "scenario.json")) as fh:
        s = json.load(fh)
    scs = [x for x in schedules("quick") if x["g"] == s["g"]]
    check(v, scs, "quick", [s["g"]])
    return 1 if v.violations else 0
