"""C14 — future attester duties are all subscribed; every selected aggregator aggregates
(spec/Subscriber.tla)."""
import importlib.util
import json
import os
import random
import re
import vf

PID = "C14"
PKG = "./services/controller/standard"
TEST = "TestVerifC14"
SPE = 4          # slots per epoch assumed by the slot numbers of Scen_Subscriber*.cfg


def _own_overlay(pid):
    """Overlay of this check: the shared files plus this property's drivers.  Drivers of other
    properties that live in the same Go package are left out, so that work in progress on them
    cannot break this build (they are test files; nothing here depends on them)."""
    repl = {}
    mine = re.compile(r"zz_verif_%s(_|\.)" % pid.lower())
    other = re.compile(r"zz_verif_c\d\d")
    for root, _dirs, files in os.walk(vf.OVERLAY):
        for f in files:
            if f.endswith("~") or f.startswith("."):
                continue
            if f.endswith("_test.go") and other.match(f) and not mine.match(f):
                continue
            src = os.path.join(root, f)
            rel = os.path.relpath(src, vf.OVERLAY)
            dst = os.path.join(vf.REPO, rel)
            if os.path.exists(dst):
                raise vf.Broken("overlay file would replace an existing repository file: %s" % rel)
            repl[dst] = src
    p = os.path.join(vf.outdir(pid), "overlay.json")
    with open(p, "w") as fh:
        json.dump({"Replace": repl}, fh, indent=1)
    return p


vf.overlay_file = _own_overlay

# the aggregation pipeline that the aggregation jobs of this property start (spec/Aggregation.tla, pipeline A)
_spec = importlib.util.spec_from_file_location(
    "check_aggregation", os.path.join(os.path.dirname(os.path.abspath(__file__)), "aggregation.py"))
agg = importlib.util.module_from_spec(_spec)
_spec.loader.exec_module(agg)


def driver(scenarios, tag):
    return vf.run_driver(PID, PKG, TEST, scenarios, tag)


def _agg(d, target):
    return d["h"] % max(1, d["size"] // target) == 0


def features(steps):
    """What a scenario exercises (used to pick scenarios and to describe them; never for the verdict)."""
    now, target = steps[0]["now"], steps[0]["target"]
    duties, subscribed = [], False
    f = {"past_and_future": False, "future": False, "two_aggregating_committees": False,
         "aggregator_behind_non_aggregator": False, "aggregating_attest": False, "late_attest": False}
    for st in steps[1:]:
        ev = st["ev"]
        if ev == "Duty":
            duties.append(st)
        elif ev == "Advance":
            now = st["now"]
        elif ev == "Subscribe":
            subscribed = True
            fut = any(d["slot"] > now for d in duties)
            f["future"] |= fut
            f["past_and_future"] |= fut and any(d["slot"] <= now for d in duties)
            pairs = {}
            for d in duties:
                pairs.setdefault((d["slot"], d["committee"]), []).append(d)
            for ds in pairs.values():
                ds = sorted(ds, key=lambda d: d["v"])
                if len(ds) > 1 and any(_agg(d, target) for d in ds) and not _agg(ds[-1], target):
                    f["aggregator_behind_non_aggregator"] = True
        elif ev == "Attest" and subscribed and st["ok"]:
            cs = {d["committee"] for d in duties
                  if d["slot"] == st["slot"] and d["committee"] in st["committees"] and _agg(d, target)}
            if st["slot"] == now:
                f["aggregating_attest"] |= len(cs) >= 1
                f["two_aggregating_committees"] |= len(cs) >= 2
            elif cs:
                f["late_attest"] = True
    return f


def sig_of(s):
    return features(s["steps"])


def nontrivial(s, rows):
    # exercises an antecedent: a Subscribe with a future duty, or an attestation in its slot for a
    # committee in which a validator is a selected aggregator
    f = features(s["steps"])
    return f["future"] or f["aggregating_attest"]


def scenarios(tier):
    quick = tier == "quick"
    main = vf.tlc_scenarios(PID, "Scen_Subscriber", "Scen_Subscriber.cfg", num=120 if quick else 1500,
                            depth=12, name="scen-main")
    dense = vf.tlc_scenarios(PID, "Scen_Subscriber", "Scen_Subscriber_dense.cfg", num=150 if quick else 2500,
                             depth=10, name="scen-dense", aseed=vf.seed() + 1000)
    rnd = random.Random(vf.seed())
    rnd.shuffle(main)
    rnd.shuffle(dense)
    cap = 450 if quick else 9000
    # make sure every class of interesting history is present, then fill up at random
    want = ["two_aggregating_committees", "aggregator_behind_non_aggregator", "past_and_future",
            "aggregating_attest", "late_attest"]
    picked, seen = [], set()

    def take(h):
        k = json.dumps(h, sort_keys=True)
        if k not in seen and len(picked) < cap:
            seen.add(k)
            picked.append(h)

    pool = dense + main
    feats = [features(h) for h in pool]
    for w in want:
        n = 0
        for h, f in zip(pool, feats):
            if f[w]:
                take(h)
                n += 1
                if n >= (25 if quick else 400):
                    break
    for a, b in zip(main, dense + [None] * max(0, len(main) - len(dense))):
        take(a)
        if b is not None:
            take(b)
    for h in dense:
        take(h)
    return [{"sc": i + 1, "spe": SPE, "wide": i % 2 == 1, "steps": h} for i, h in enumerate(picked)]


def run(tier):
    v = vf.Verdict(PID, tier)
    v.assumptions = [
        "the beacon node's duty answers, the slot-selection signer, the attester, the clock and the scheduler are "
        "scripted fakes at the services' interfaces; the signer and the submitter do not fail",
        "h (little-endian uint64 of SHA-256(slot signature)[0:8]) is computed in Go and logged modulo 840; every "
        "modulus max(1, size/target) of the scenarios divides 840",
        "the attestation job of a slot runs once, in its slot or later (C02/C03)",
    ]
    # the exhaustive run and the scenario enumeration of the aggregation pipeline run beside the rest
    ah = agg.start(PID, "A", tier)
    v.add_mc(vf.tlc_exhaustive(PID, "Subscriber", "MC_Subscriber.cfg"))
    if tier == "thorough":
        v.add_mc(vf.tlc_exhaustive(PID, "Subscriber", "MC_Subscriber_big.cfg", coverage=True, timeout=1200))
    sc = scenarios(tier)
    vf.conformance(v, sc, driver, "Trace_Subscriber", "Trace_Subscriber.cfg", sig_of, nontrivial,
                   chunk=None if tier == "quick" else 1500)
    # additional conformance block: what the aggregation jobs set up above do when they run
    # (attestationaggregator/standard Aggregate against pipeline A of Aggregation.tla)
    agg.finish(v, ah)
    v.coverage["rule"] = ("behaviours of Subscriber.tla generated by TLC simulation (seeded; a sparse and a dense "
                          "constant set), replayed on the real subscriber + aggregator + controller; every other "
                          "scenario is shifted to a seeded far-away epoch; non-trivial = a Subscribe with a future "
                          "duty or an in-slot attestation of an aggregating committee; distinct by step list.  "
                          "Aggregation pipeline: every behaviour of Scen_Aggregation (A) enumerated by TLC (quick: a "
                          "seeded sample with every outcome class), replayed on the real attestationaggregator; "
                          "non-trivial = the aggregate was obtained")
    return v.finish()


def replay(path):
    v = vf.Verdict(PID, "quick")
    with open(os.path.join(path, "scenario.json")) as fh:
        s = json.load(fh)
    if agg.is_mine(s):
        agg.replay(v, PID, s)
        return 1 if v.violations else 0
    vf.conformance(v, [s], driver, "Trace_Subscriber", "Trace_Subscriber.cfg", sig_of, nontrivial)
    return 1 if v.violations else 0
