"""C14 — future attester duties are all subscribed; every selected aggregator aggregates
(spec/Subscriber.tla)."""
import importlib.util
import json
import os
import random
import re
import vf

PID = "C14"
PKG = "./services/controller/standard"
TEST = "TestVerifC14"
SPE = 4          # slots per epoch assumed by the slot numbers of Scen_Subscriber*.cfg


def _own_overlay(pid):
    """Overlay of this check: the shared files plus this property's drivers.  Drivers of other
    properties that live in the same Go package are left out, so that work in progress on them
    cannot break this build (they are test files; nothing here depends on them)."""
    repl = {}
    mine = re.compile(r"zz_verif_(%s|agg)(_|\.)" % pid.lower())
    other = re.compile(r"zz_verif_[a-z0-9]+")
    for root, _dirs, files in os.walk(vf.OVERLAY):
        for f in files:
            if f.endswith("~") or f.startswith("."):
                continue
            if f.endswith("_test.go") and other.match(f) and not mine.match(f):
                continue
            src = os.path.join(root, f)
            rel = os.path.relpath(src, vf.OVERLAY)
            dst = os.path.join(vf.REPO, rel)
            if os.path.exists(dst):
                raise vf.Broken("overlay file would replace an existing repository file: %s" % rel)
            repl[dst] = src
    p = os.path.join(vf.outdir(pid), "overlay.json")
    with open(p, "w") as fh:
        json.dump({"Replace": repl}, fh, indent=1)
    return p


vf.overlay_file = _own_overlay

# the aggregation pipeline that the aggregation jobs of this property start (spec/Aggregation.tla, pipeline A)
_spec = importlib.util.spec_from_file_location(
    "check_aggregation", os.path.join(os.path.dirname(os.path.abspath(__file__)), "aggregation.py"))
agg = importlib.util.module_from_spec(_spec)
_spec.loader.exec_module(agg)


def driver(scenarios, tag):
    return vf.run_driver(PID, PKG, TEST, scenarios, tag)


def _agg(d, target):
    return d["h"] % max(1, d["size"] // target) == 0


def features(steps):
    """What a scenario exercises (used to pick scenarios and to describe them; never for the verdict)."""
    now, target = steps[0]["now"], steps[0]["target"]
    spe, ep = steps[0].get("spe", SPE), steps[0].get("ep")
    duties, snap = [], None      # the oracle; the oracle the info in force was calculated from (None: none in force)
    started = False
    inflight = 0
    failed_since_store = False   # a failed (re-)subscription after the last successful one
    refreshed_since_store = False
    f = {"past_and_future": False, "future": False, "two_aggregating_committees": False,
         "aggregator_behind_non_aggregator": False, "aggregating_attest": False, "late_attest": False,
         # history of the subscription-info store
         "refresh": False, "attest_in_flight": False, "attest_after_failed_resub": False,
         "attest_after_resub": False, "resub_replaces": False, "oracle_changed": False,
         "two_in_flight": False, "subscribe_failed": False}

    def stored():
        nonlocal snap, failed_since_store, refreshed_since_store
        fut = any(d["slot"] > now for d in duties)
        f["future"] |= fut
        f["past_and_future"] |= fut and any(d["slot"] <= now for d in duties)
        pairs = {}
        for d in duties:
            pairs.setdefault((d["slot"], d["committee"]), []).append(d)
        for ds in pairs.values():
            ds = sorted(ds, key=lambda d: d["v"])
            if len(ds) > 1 and any(_agg(d, target) for d in ds) and not _agg(ds[-1], target):
                f["aggregator_behind_non_aggregator"] = True
        snap = list(duties)
        failed_since_store = False
        refreshed_since_store = False

    for st in steps[1:]:
        ev = st["ev"]
        if ev == "Duty":
            key = (st["v"], st["slot"], st["committee"])
            if st.get("op") == "drop":
                duties = [d for d in duties if (d["v"], d["slot"], d["committee"]) != key]
            else:
                duties.append(st)
            f["oracle_changed"] |= started
        elif ev == "Advance":
            now = st["now"]
        elif ev == "Subscribe":
            started = True
            if st.get("fail"):
                f["subscribe_failed"] = True
                failed_since_store |= snap is not None
            else:
                stored()
        elif ev == "Head":
            started = True
            if st.get("reorg") and ep is not None and now // spe in (ep - 1, ep):
                inflight += 1
                f["refresh"] |= snap is not None
                f["two_in_flight"] |= inflight >= 2
                refreshed_since_store |= snap is not None
        elif ev == "Resub":
            if inflight > 0:
                inflight -= 1
                if st.get("fail"):
                    failed_since_store |= snap is not None
                else:
                    if snap is not None:
                        key = lambda d: (d["v"], d["slot"], d["committee"], d["size"], d["h"])
                        f["resub_replaces"] |= sorted(map(key, snap)) != sorted(map(key, duties))
                    was = snap is not None
                    stored()
                    refreshed_since_store = False
                    f["_resubbed"] = was
        elif ev == "Attest":
            started = True
            if snap is not None and st["ok"]:
                cs = {d["committee"] for d in snap
                      if d["slot"] == st["slot"] and d["committee"] in st["committees"] and _agg(d, target)}
                if st["slot"] == now:
                    f["aggregating_attest"] |= len(cs) >= 1
                    f["two_aggregating_committees"] |= len(cs) >= 2
                    if cs:
                        f["attest_in_flight"] |= inflight > 0 and refreshed_since_store
                        f["attest_after_failed_resub"] |= failed_since_store
                        f["attest_after_resub"] |= bool(f.get("_resubbed"))
                elif cs:
                    f["late_attest"] = True
    f.pop("_resubbed", None)
    return f


def sig_of(s):
    return features(s["steps"])


def nontrivial(s, rows):
    # exercises an antecedent: a Subscribe with a future duty, or an attestation in its slot for a
    # committee in which a validator is a selected aggregator
    f = features(s["steps"])
    return f["future"] or f["aggregating_attest"]


def scenarios(tier):
    quick = tier == "quick"
    main = vf.tlc_scenarios(PID, "Scen_Subscriber", "Scen_Subscriber.cfg", num=300 if quick else 2500,
                            depth=16, name="scen-main")
    dense = vf.tlc_scenarios(PID, "Scen_Subscriber", "Scen_Subscriber_dense.cfg", num=300 if quick else 4000,
                             depth=14, name="scen-dense", aseed=vf.seed() + 1000)
    rnd = random.Random(vf.seed())
    rnd.shuffle(main)
    rnd.shuffle(dense)
    cap = 450 if quick else 9000
    # make sure every class of interesting history is present, then fill up at random
    want = ["attest_in_flight", "attest_after_failed_resub", "attest_after_resub", "resub_replaces",
            "two_in_flight", "refresh",
            "two_aggregating_committees", "aggregator_behind_non_aggregator", "past_and_future",
            "aggregating_attest", "late_attest"]
    picked, seen = [], set()

    def take(h):
        k = json.dumps(h, sort_keys=True)
        if k not in seen and len(picked) < cap:
            seen.add(k)
            picked.append(h)

    pool = dense + main
    feats = [features(h) for h in pool]
    for w in want:
        n = 0
        for h, f in zip(pool, feats):
            if f[w]:
                take(h)
                n += 1
                if n >= (25 if quick else 400):
                    break
    for a, b in zip(main, dense + [None] * max(0, len(main) - len(dense))):
        take(a)
        if b is not None:
            take(b)
    for h in dense:
        take(h)
    cnt = {}
    for h in picked:
        for k, on in features(h).items():
            cnt[k] = cnt.get(k, 0) + (1 if on else 0)
    vf.log("scenario classes (of %d): %s" % (len(picked), ", ".join("%s=%d" % kv for kv in sorted(cnt.items()))))
    return [{"sc": i + 1, "spe": SPE, "wide": i % 2 == 1, "steps": h} for i, h in enumerate(picked)]


def run(tier):
    v = vf.Verdict(PID, tier)
    v.assumptions = [
        "the beacon node's duty answers, the slot-selection signer, the attester, the clock and the scheduler are "
        "scripted fakes at the services' interfaces; the signer and the submitter do not fail; the beacon node's "
        "attester-duties endpoint, as seen by the subscriber, can be held (a re-subscription in flight) or made to fail",
        "h (little-endian uint64 of SHA-256(slot signature)[0:8]) is computed in Go and logged modulo 840; every "
        "modulus max(1, size/target) of the scenarios divides 840",
        "the attestation job of a slot runs once, in its slot or later (C02/C03)",
    ]
    # the exhaustive run and the scenario enumeration of the aggregation pipeline run beside the rest
    ah = agg.start(PID, "A", tier)
    # history of the subscription-info store: refresh / re-subscription in flight, ok, failed (frozen oracle) ...
    v.add_mc(vf.tlc_exhaustive(PID, "Subscriber", "MC_Subscriber.cfg"))
    # ... and with the oracle changed by the re-org and housekeeping two epochs later (one committee)
    v.add_mc(vf.tlc_exhaustive(PID, "Subscriber", "MC_Subscriber_reorg.cfg"))
    if tier == "thorough":
        v.add_mc(vf.tlc_exhaustive(PID, "Subscriber", "MC_Subscriber_big.cfg", coverage=True, timeout=1800))
        v.add_mc(vf.tlc_exhaustive(PID, "Subscriber", "MC_Subscriber_reorg_big.cfg", timeout=1200))
    sc = scenarios(tier)
    vf.conformance(v, sc, driver, "Trace_Subscriber", "Trace_Subscriber.cfg", sig_of, nontrivial,
                   chunk=None if tier == "quick" else 1500)
    # additional conformance block: what the aggregation jobs set up above do when they run
    # (attestationaggregator/standard Aggregate against pipeline A of Aggregation.tla)
    agg.finish(v, ah)
    v.coverage["rule"] = ("behaviours of Subscriber.tla generated by TLC simulation (seeded; a sparse and a dense "
                          "constant set), replayed on the real subscriber + aggregator + controller; every other "
                          "scenario is shifted to a seeded far-away epoch; histories include re-org head events "
                          "through HandleHeadEvent (refresh), re-subscriptions held in flight / answered / failed, "
                          "oracle changes and attestation jobs at any point of them; non-trivial = a successful "
                          "(re-)subscription with a future duty or an in-slot attestation of a committee that aggregates "
                          "by the info in force; distinct by step list.  "
                          "Aggregation pipeline: every behaviour of Scen_Aggregation (A) enumerated by TLC (quick: a "
                          "seeded sample with every outcome class), replayed on the real attestationaggregator; "
                          "non-trivial = the aggregate was obtained")
    return v.finish()


def replay(path):
    v = vf.Verdict(PID, "quick")
    with open(os.path.join(path, "scenario.json")) as fh:
        s = json.load(fh)
    if agg.is_mine(s):
        agg.replay(v, PID, s)
        return 1 if v.violations else 0
    vf.conformance(v, [s], driver, "Trace_Subscriber", "Trace_Subscriber.cfg", sig_of, nontrivial)
    return 1 if v.violations else 0
