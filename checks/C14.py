"""C14 — future attester duties are all subscribed; every selected aggregator aggregates
(spec/Subscriber.tla)."""
import concurrent.futures
import importlib.util
import json
import os
import random
import re
import vf

PID = "C14"
PKG = "./services/controller/standard"
TEST = "TestVerifC14"
SPE = 4          # slots per epoch assumed by the slot numbers of Scen_Subscriber*.cfg


def _own_overlay(pid):
    """Overlay of this check: the shared files plus this property's drivers.  Drivers of other
    properties that live in the same Go package are left out, so that work in progress on them
    cannot break this build (they are test files; nothing here depends on them)."""
    repl = {}
    mine = re.compile(r"zz_verif_(%s|agg)(_|\.)" % pid.lower())
    other = re.compile(r"zz_verif_[a-z0-9]+")
    for root, _dirs, files in os.walk(vf.OVERLAY):
        for f in files:
            if f.endswith("~") or f.startswith("."):
                continue
            if f.endswith("_test.go") and other.match(f) and not mine.match(f):
                continue
            src = os.path.join(root, f)
            rel = os.path.relpath(src, vf.OVERLAY)
            dst = os.path.join(vf.REPO, rel)
            if os.path.exists(dst):
                raise vf.Broken("overlay file would replace an existing repository file: %s" % rel)
            repl[dst] = src
    p = os.path.join(vf.outdir(pid), "overlay.json")
    with open(p, "w") as fh:
        json.dump({"Replace": repl}, fh, indent=1)
    return p


vf.overlay_file = _own_overlay

# the aggregation pipeline that the aggregation jobs of this property start (spec/Aggregation.tla, pipeline A)
_spec = importlib.util.spec_from_file_location(
    "check_aggregation", os.path.join(os.path.dirname(os.path.abspath(__file__)), "aggregation.py"))
agg = importlib.util.module_from_spec(_spec)
_spec.loader.exec_module(agg)


def driver(scenarios, tag):
    return vf.run_driver(PID, PKG, TEST, scenarios, tag)


def _agg(d, target):
    return d["h"] % max(1, d["size"] // target) == 0


def features(steps, with_flips=False):
    """What a scenario exercises (used to pick scenarios and to describe them; never for the verdict)."""
    now, target = steps[0]["now"], steps[0]["target"]
    spe, ep = steps[0].get("spe", SPE), steps[0].get("ep")
    duties, snap = [], None      # the oracle; the oracle the info in force was calculated from (None: none in force)
    started = False
    inflight = 0
    failed_since_store = False   # a failed (re-)subscription after the last successful one
    refreshed_since_store = False
    f = {"past_and_future": False, "future": False, "two_aggregating_committees": False,
         "aggregator_behind_non_aggregator": False, "aggregating_attest": False, "late_attest": False,
         # history of the subscription-info store
         "refresh": False, "attest_in_flight": False, "attest_after_failed_resub": False,
         "attest_after_resub": False, "resub_replaces": False, "oracle_changed": False,
         "two_in_flight": False, "subscribe_failed": False,
         # the instances' history: a validator whose selection was calculated before (its slot not past then) is
         # calculated again for the SAME slot with a committee length that changes the rule's answer / any other
         # length or committee index; a call held inside the aggregator while another one stores; ... while the
         # oracle it fetched is no longer the oracle; an aggregating in-slot attestation after such a store
         "same_slot_flag_flips": False, "same_slot_other_committee": False, "held_call": False,
         "held_overlaps_store": False, "held_is_stale": False, "attest_after_flip": False,
         # the signer refused the selection call of a slot, and a later call calculated that slot
         "signer_refused": False, "call_after_signer_refusal": False}
    refused = set()              # (v, slot) of selections the signer refused
    seen_sel = {}                # (v, slot) -> set of (committee, size) the aggregator was asked about
    held = {}                    # id -> [snapshot, stores since]
    nheld = 0
    flipped = set()              # (slot, committee) of validators whose flag flipped with the length
    attested = set()
    flips = []                   # (step, slot, committee, now, slots attested so far) of every such calculation
    step = 0

    def asked(ds, sfail=()):
        # the selection calls of a subscription that fetched the duties ds
        for d in ds:
            k = (d["v"], d["slot"])
            if d["slot"] in sfail:
                f["signer_refused"] = True
                refused.add(k)
                continue
            f["call_after_signer_refusal"] |= k in refused
            for (c0, z0, at0) in seen_sel.get(k, ()):
                if at0 <= d["slot"] and (c0, z0) != (d["committee"], d["size"]):
                    f["same_slot_other_committee"] = True
                    if _agg(d, target) != (d["h"] % max(1, z0 // target) == 0):
                        f["same_slot_flag_flips"] = True
                        flipped.add((d["slot"], d["committee"]))
                        flips.append((step, d["slot"], d["committee"], now, frozenset(attested)))
            seen_sel.setdefault(k, set()).add((d["committee"], d["size"], now))

    def stored(duties=None):
        nonlocal snap, failed_since_store, refreshed_since_store
        if duties is None:
            duties = cur()
        for hc in held.values():
            hc[1] += 1
        fut = any(d["slot"] > now for d in duties)
        f["future"] |= fut
        f["past_and_future"] |= fut and any(d["slot"] <= now for d in duties)
        pairs = {}
        for d in duties:
            pairs.setdefault((d["slot"], d["committee"]), []).append(d)
        for ds in pairs.values():
            ds = sorted(ds, key=lambda d: d["v"])
            if len(ds) > 1 and any(_agg(d, target) for d in ds) and not _agg(ds[-1], target):
                f["aggregator_behind_non_aggregator"] = True
        snap = list(duties)
        failed_since_store = False
        refreshed_since_store = False

    def cur():
        return [dict(d) for d in duties]

    for step, st in enumerate(steps[1:], 1):
        ev = st["ev"]
        if ev == "Duty":
            op = st.get("op")
            if op == "resize":
                for d in duties:
                    if d["slot"] == st["slot"] and d["committee"] == st["committee"]:
                        d["size"] = st["size"]
            elif op == "move":
                for d in duties:
                    if d["v"] == st["v"] and d["slot"] == st["slot"]:
                        d["committee"], d["size"] = st["committee"], st["size"]
            elif op == "drop":
                key = (st["v"], st["slot"], st["committee"])
                duties = [d for d in duties if (d["v"], d["slot"], d["committee"]) != key]
            else:
                duties.append({k: st[k] for k in ("v", "slot", "committee", "size", "h")})
            f["oracle_changed"] |= started
        elif ev == "Advance":
            now = st["now"]
        elif ev == "Subscribe":
            started = True
            if st.get("fail"):
                f["subscribe_failed"] = True
                failed_since_store |= snap is not None
            else:
                asked(cur(), st.get("sfail", ()))
                stored([d for d in cur() if d["slot"] not in st.get("sfail", ())])
        elif ev == "Head":
            started = True
            if st.get("reorg") and ep is not None and now // spe in (ep - 1, ep):
                inflight += 1
                f["refresh"] |= snap is not None
                f["two_in_flight"] |= inflight >= 2
                refreshed_since_store |= snap is not None
        elif ev == "Resub":
            if inflight > 0:
                inflight -= 1
                if st.get("fail"):
                    failed_since_store |= snap is not None
                else:
                    if snap is not None:
                        key = lambda d: (d["v"], d["slot"], d["committee"], d["size"], d["h"])
                        f["resub_replaces"] |= sorted(map(key, snap)) != sorted(map(key, duties))
                    was = snap is not None
                    asked(cur(), st.get("sfail", ()))
                    stored([d for d in cur() if d["slot"] not in st.get("sfail", ())])
                    refreshed_since_store = False
                    f["_resubbed"] = was
        elif ev == "Fetch":
            if inflight > 0:
                inflight -= 1
                nheld += 1
                held[nheld] = [cur(), 0]
                f["held_call"] = True
                asked(held[nheld][0])
        elif ev == "Finish":
            if st["id"] in held:
                hsnap, n = held.pop(st["id"])
                key = lambda d: (d["v"], d["slot"], d["committee"], d["size"], d["h"])
                f["held_overlaps_store"] |= n > 0
                f["held_is_stale"] |= sorted(map(key, hsnap)) != sorted(map(key, duties))
                stored(hsnap)
                f["_resubbed"] = True
        elif ev == "Attest":
            started = True
            attested.add(st["slot"])
            if st["ok"] and st["slot"] == now:
                # the aggregation jobs (or their absence) are judged for a validator whose flag flipped
                f["attest_after_flip"] |= any((st["slot"], c) in flipped for c in st["committees"])
            if snap is not None and st["ok"]:
                cs = {d["committee"] for d in snap
                      if d["slot"] == st["slot"] and d["committee"] in st["committees"] and _agg(d, target)}
                if st["slot"] == now:
                    f["aggregating_attest"] |= len(cs) >= 1
                    f["two_aggregating_committees"] |= len(cs) >= 2
                    if cs:
                        f["attest_in_flight"] |= inflight > 0 and refreshed_since_store
                        f["attest_after_failed_resub"] |= failed_since_store
                        f["attest_after_resub"] |= bool(f.get("_resubbed"))
                elif cs:
                    f["late_attest"] = True
    f.pop("_resubbed", None)
    if with_flips:
        return f, flips
    return f


def flip_tail(h):
    """A history in which a validator's flag flipped with the committee length, cut after that (re-)subscription
    and continued by the attestation job of the validator's slot, in its slot (Advance and AttestJob are enabled
    there by the specification: the slot is not past and its job has not run): the aggregation jobs scheduled
    from the re-subscription are judged."""
    _f, flips = features(h, with_flips=True)
    for step, slot, committee, now, attested in reversed(flips):
        if h[step]["ev"] == "Fetch" or slot < now or slot in attested:
            continue
        tail = [{"ev": "Advance", "now": slot}] if slot > now else []
        return h[:step + 1] + tail + [{"ev": "Attest", "slot": slot, "committees": [committee], "ok": True}]
    return None


def sig_of(s):
    return sig_wired(s)


def nontrivial(s, rows):
    # exercises an antecedent: a Subscribe with a future duty, or an attestation in its slot for a
    # committee in which a validator is a selected aggregator
    f = features(s["steps"])
    return f["future"] or f["aggregating_attest"]


def sig_wired(s):
    f = dict(features(s["steps"]))
    if s.get("wired"):
        f.update(wired_features(s))
        f.update({"wired_" + k: v for k, v in s["wired"].items()})
    return f


# ---- the wired family: the real signer / submitter / aggregation behind the same services ----------------------
# values of the constant Mix of SubscriberSigner.tla (the sibling implementations of the signing path: wallet
# accounts signed one by one, Dirk accounts signed by one multi-sign request, either of them distributed, and
# batches that signRootsByAccountType splits in two)
MIXES = ["local", "multi", "dist", "mixed", "localmixed"]
# accounts per scenario validator: a scenario validator stands for a block (1: as in the fake-based family;
# 16 / 17 / 24: a slot batch at and above the size from which a signer might spread local signing over the cores;
# up to 64 accounts in one batch)
WIDTHS = [1, 3, 16, 17, 24, 64]
ORDERS = ["reverse", "firstlast", "random", "inorder"]     # latency scripts (completion order the environment wants)
SUBMITTERS = ["immediate", "multinode"]


def wired_ok(h):
    """Histories the wired driver can run: no call parked inside the scripted signer; a re-org that keeps a block's
    committee but changes its length is a resize of the pair (a block moves validator by validator)."""
    for st in h:
        if st["ev"] in ("Fetch", "Finish"):
            return False
        if st["ev"] == "Duty" and st.get("op") == "move" and st.get("ocommittee") == st.get("committee"):
            return False
        if st["ev"] == "Duty" and st.get("v", 1) > 8:
            return False
    return True


def wired_features(s):
    """What a wired scenario exercises (for the log and the non-trivial count; never for the verdict)."""
    w, steps = s["wired"], s["steps"]
    per_slot, best, calls = {}, 0, 0
    for st in steps:
        if st["ev"] == "Duty" and st.get("op", "add") == "add":
            per_slot[st["slot"]] = per_slot.get(st["slot"], 0) + 1
        elif st["ev"] == "Duty" and st.get("op") == "drop":
            per_slot[st["slot"]] = per_slot.get(st["slot"], 0) - 1
        elif st["ev"] in ("Subscribe", "Resub") and not st.get("fail"):
            calls += 1
            best = max([best] + [n * w["width"] for n in per_slot.values()])
    return {"batch": best, "calls": calls,
            "big_local_batch_out_of_order": best >= 16 and w["mix"] in ("local", "localmixed") and w["order"] != "inorder" and calls > 0,
            "split_batch": w["mix"] in ("mixed", "localmixed") and best >= 2 and calls > 0}


def wired_scenarios(tier, pool, first_id):
    quick = tier == "quick"
    rnd = random.Random(vf.seed() + 77)
    cand = [h for h in pool if wired_ok(h) and any(st["ev"] in ("Subscribe", "Resub") and not st.get("fail") for st in h)]
    rnd.shuffle(cand)
    # histories with an in-slot attestation of an aggregating committee first (the aggregation job then runs the real
    # Aggregate with the stored selection proof), then the rest
    cand.sort(key=lambda h: not features(h)["aggregating_attest"])
    n = 72 if quick else 900
    res = []
    for i, h in enumerate(cand[:n]):
        mix = MIXES[i % len(MIXES)]
        # the local kinds get the big batches and the out-of-order scripts most of the time
        width = WIDTHS[(i // len(MIXES)) % len(WIDTHS)] if mix in ("local", "localmixed") or i % 2 else rnd.choice(WIDTHS[:3])
        wiring = {"mix": mix, "width": width, "order": ORDERS[(i // 3) % len(ORDERS)], "submitter": SUBMITTERS[(i // 7) % 2]}
        res.append({"sc": first_id + i, "spe": h[0].get("spe", SPE), "wide": i % 2 == 1, "wired": wiring, "steps": h})
    cnt = {}
    for s in res:
        f = wired_features(s)
        for k in ("big_local_batch_out_of_order", "split_batch"):
            cnt[k] = cnt.get(k, 0) + (1 if f[k] else 0)
        cnt["batch>=16"] = cnt.get("batch>=16", 0) + (1 if f["batch"] >= 16 else 0)
        cnt["batch>=64"] = cnt.get("batch>=64", 0) + (1 if f["batch"] >= 64 else 0)
    vf.log("wired scenarios (of %d): %s" % (len(res), ", ".join("%s=%d" % kv for kv in sorted(cnt.items()))))
    return res


def scenarios(tier):
    quick = tier == "quick"
    gens = [
        ("scen-main", "Scen_Subscriber.cfg", 300 if quick else 2500, 16, None),
        ("scen-dense", "Scen_Subscriber_dense.cfg", 300 if quick else 4000, 14, vf.seed() + 1000),
        # histories on the instances: re-orgs that leave a validator its slot but change committee index / length
        # (moduli 4, 6, 20 / 2, 3, 10; 6, 7, 8 with the mainnet target 16), calls held inside the aggregator
        ("scen-move", "Scen_Subscriber_move.cfg", 500 if quick else 4000, 15, vf.seed() + 2000),
        ("scen-move16", "Scen_Subscriber_move16.cfg", 400 if quick else 3000, 14, vf.seed() + 3000),
    ]
    with concurrent.futures.ThreadPoolExecutor(max_workers=4) as ex:
        main, dense, move, move16 = ex.map(
            lambda g: vf.tlc_scenarios(PID, "Scen_Subscriber", g[1], num=g[2], depth=g[3], name=g[0], aseed=g[4]), gens)
    rnd = random.Random(vf.seed())
    for x in (main, dense, move, move16):
        rnd.shuffle(x)
    cap = 700 if quick else 12000
    # make sure every class of interesting history is present, then fill up at random
    want = ["same_slot_flag_flips", "attest_after_flip", "held_overlaps_store", "held_is_stale", "same_slot_other_committee",
            "held_call", "call_after_signer_refusal",
            "attest_in_flight", "attest_after_failed_resub", "attest_after_resub", "resub_replaces",
            "two_in_flight", "refresh",
            "two_aggregating_committees", "aggregator_behind_non_aggregator", "past_and_future",
            "aggregating_attest", "late_attest"]
    picked, seen = [], set()

    def take(h):
        k = json.dumps(h, sort_keys=True)
        if k not in seen and len(picked) < cap:
            seen.add(k)
            picked.append(h)

    # (the two flip classes are what a memo on the aggregator instance needs: taken first, from every set)
    pool = [h for t in zip(move, move16) for h in t] + move[len(move16):] + move16[len(move):] + dense + main
    # ... continued by the attestation job of the slot concerned (the jobs scheduled from the re-subscription)
    tails = [t for t in (flip_tail(h) for h in pool[:4000]) if t is not None]
    for t in tails[:(40 if quick else 600)]:
        take(t)
    feats = [features(h) for h in pool]
    for i, w in enumerate(want):
        n = 0
        for h, f in zip(pool, feats):
            if f[w]:
                take(h)
                n += 1
                if n >= ((60 if i < 4 else 25) if quick else (900 if i < 4 else 400)):
                    break
    fill = [main, dense, move, move16]
    for i in range(max(len(x) for x in fill)):
        for x in fill:
            if i < len(x):
                take(x[i])
    cnt = {}
    for h in picked:
        for k, on in features(h).items():
            cnt[k] = cnt.get(k, 0) + (1 if on else 0)
    vf.log("scenario classes (of %d): %s" % (len(picked), ", ".join("%s=%d" % kv for kv in sorted(cnt.items()))))
    fake = [{"sc": i + 1, "spe": h[0].get("spe", SPE), "wide": i % 2 == 1, "steps": h} for i, h in enumerate(picked)]
    # the wired family next to them: histories of the same generators on ONE wired instance each
    return fake + wired_scenarios(tier, dense + main + move, len(fake) + 1)


# control designs of the attestation aggregator with state kept on the instance (spec/SubscriberMemo.tla)
MUST_PASS = ["MC_SubscriberMemo_memosig.cfg",            # memoising the signature only is legal
             "MC_SubscriberMemo_memoflag_fresh.cfg",     # every design is right on a fresh instance ...
             "MC_SubscriberMemo_sharedsizes_fresh.cfg",
             "MC_SubscriberMemo_sharedsizes_seq.cfg"]    # ... and this one in every sequential history
MUST_VIOLATE = [("MC_SubscriberMemo_memoflag.cfg", "AggregatorRuleExact"),      # rejected by a sequential history
                ("MC_SubscriberMemo_sharedsizes.cfg", "AggregatorRuleExact")]   # rejected once calls overlap


# the signer behind the aggregator as a component of the specification (spec/SubscriberSigner.tla): the batch contract
# for every kind of account (values of Mix), local signing sequential and parallel, every completion order
SIGNER_PASS_QUICK = ["MC_SubscriberSigner_local_par.cfg", "MC_SubscriberSigner_multi.cfg",
                     "MC_SubscriberSigner_mixed.cfg", "MC_SubscriberSigner_localmixed.cfg",
                     # the deviation below the batch size from which signing is parallel: every small duty set passes
                     "MC_SubscriberSigner_completion_small.cfg"]
SIGNER_PASS_MORE = ["MC_SubscriberSigner_local_seq.cfg", "MC_SubscriberSigner_dist.cfg",
                    "MC_SubscriberSigner_completion_multi.cfg",     # Dirk accounts never reach the parallel branch
                    "MC_SubscriberSigner_concat_onekind.cfg",       # a batch of one kind is not split
                    "MC_SubscriberSigner_local_par_resub.cfg"]      # ... with a refresh and its re-subscription
# deviations that TLC must reject: signatures gathered in completion order (the seeded change); the two groups of a
# split batch concatenated instead of being put back through the index maps
SIGNER_VIOLATE = [("MC_SubscriberSigner_completion.cfg", "AggregatorRuleExact"),
                  ("MC_SubscriberSigner_concat.cfg", "ProofsOwn")]


def _expect_violation(cfg, inv, timeout=600, module="SubscriberMemo"):
    """A control design that the invariants must reject: otherwise the model cannot see the class (broken run,
    never a verdict)."""
    r = vf.tlc(PID, "mc-" + cfg.replace(".cfg", ""), module, cfg, workers=4, timeout=timeout, heap="2g")
    if r["timed_out"] or r["kind"] != "invariant" or r["violated"] != inv:
        raise vf.Broken("%s should violate %s (vacuous model?): %s %s\n%s" % (cfg, inv, r["kind"], r["violated"], r["out"][-1500:]))
    vf.log("TLC %s/%s: %s violated as it must be (%d distinct states, %.1fs)" % (module, cfg, inv, r["distinct"], r["wall_s"]))
    return r


def model(tier):
    """Exhaustive runs and vacuity self-checks, side by side."""
    # (the quick configurations have at most a few hundred thousand states: a small heap keeps the footprint of the
    # runs that go side by side low)
    small = {"heap": "2g"}
    jobs = [("mc", "Subscriber", "MC_Subscriber.cfg", small),
            # ... with the oracle changed by the re-org and housekeeping two epochs later (one committee)
            ("mc", "Subscriber", "MC_Subscriber_reorg.cfg", small),
            # ... a re-subscription held inside the aggregator while others run, the re-org leaving validators their slot
            ("mc", "Subscriber", "MC_Subscriber_overlap.cfg", small)]
    jobs += [("mc", "SubscriberMemo", c, small) for c in MUST_PASS]
    jobs += [("bad", c, inv, {}) for c, inv in MUST_VIOLATE]
    jobs += [("mc", "SubscriberSigner", c, small) for c in SIGNER_PASS_QUICK]
    jobs += [("bad", c, inv, {"module": "SubscriberSigner"}) for c, inv in SIGNER_VIOLATE]
    if tier == "thorough":
        jobs += [("mc", "SubscriberSigner", c, {"timeout": 1500}) for c in SIGNER_PASS_MORE]
        jobs += [("mc", "Subscriber", "MC_Subscriber_big.cfg", {"coverage": True, "timeout": 1800}),
                 ("mc", "Subscriber", "MC_Subscriber_reorg_big.cfg", {"timeout": 1200}),
                 ("mc", "Subscriber", "MC_Subscriber_overlap_big.cfg", {"timeout": 1500})]

    def one(j):
        if j[0] == "bad":
            _expect_violation(j[1], j[2], **j[3])
            return None
        return vf.tlc_exhaustive(PID, j[1], j[2], workers=4, **j[3])

    with concurrent.futures.ThreadPoolExecutor(max_workers=4 if tier == "quick" else 3) as ex:
        return [r for r in ex.map(one, jobs) if r is not None]


def run(tier):
    v = vf.Verdict(PID, tier)
    v.assumptions = [
        "the beacon node's duty answers, the slot-selection signer, the attester, the clock and the scheduler are "
        "scripted fakes at the services' interfaces; the submitter does not fail; the beacon node's "
        "attester-duties endpoint, as seen by the subscriber, can be held (a re-subscription in flight) or made to fail; "
        "the slot-selection signer can park the call of one slot (the re-subscription stays inside the real "
        "AggregatorsAndSignatures while other calls run on the same instances) or refuse the call of a slot",
        "one real controller, beacon committee subscriber and attestation aggregator per history (never re-built "
        "between the calls of a scenario); a re-org may leave a validator its slot and change committee index / length",
        "h (little-endian uint64 of SHA-256(slot signature)[0:8]) is computed in Go and logged modulo 840; every "
        "modulus max(1, size/target) of the scenarios divides 840",
        "the attestation job of a slot runs once, in its slot or later (C02/C03)",
    ]
    # the exhaustive run and the scenario enumeration of the aggregation pipeline run beside the rest
    ah = agg.start(PID, "A", tier)
    # history of the subscription-info store: refresh / re-subscription in flight, ok, failed (frozen oracle) ...;
    # beside them the scenario generators
    with concurrent.futures.ThreadPoolExecutor(max_workers=2) as ex:
        fm = ex.submit(model, tier)
        fs = ex.submit(scenarios, tier)
        for r in fm.result():
            v.add_mc(r)
        sc = fs.result()
    vf.conformance(v, sc, driver, "Trace_Subscriber", "Trace_Subscriber.cfg", sig_of, nontrivial,
                   chunk=None if tier == "quick" else 1500)
    # additional conformance block: what the aggregation jobs set up above do when they run
    # (attestationaggregator/standard Aggregate against pipeline A of Aggregation.tla)
    agg.finish(v, ah)
    v.coverage["rule"] = ("behaviours of Subscriber.tla generated by TLC simulation (seeded; a sparse and a dense "
                          "constant set, two sets for same-slot re-orgs), replayed on the real subscriber + aggregator + controller; every other "
                          "scenario is shifted to a seeded far-away epoch; histories include re-org head events "
                          "through HandleHeadEvent (refresh), re-subscriptions held in flight / answered / failed / held "
                          "inside the aggregator at the signer while other subscriptions run, oracle changes (add, drop, same "
                          "slot in another committee or a committee of another length chosen so that the rule's answer "
                          "changes), signer refusals and attestation jobs at any point of them; control designs with state "
                          "kept on the aggregator instance (SubscriberMemo.tla) are run as self-checks; non-trivial = a successful "
                          "(re-)subscription with a future duty or an in-slot attestation of a committee that aggregates "
                          "by the info in force; distinct by step list.  "
                          "Aggregation pipeline: every behaviour of Scen_Aggregation (A) enumerated by TLC (quick: a "
                          "seeded sample with every outcome class), replayed on the real attestationaggregator; "
                          "non-trivial = the aggregate was obtained")
    return v.finish()


def replay(path):
    v = vf.Verdict(PID, "quick")
    with open(os.path.join(path, "scenario.json")) as fh:
        s = json.load(fh)
    if agg.is_mine(s):
        agg.replay(v, PID, s)
        return 1 if v.violations else 0
    vf.conformance(v, [s], driver, "Trace_Subscriber", "Trace_Subscriber.cfg", sig_of, nontrivial)
    return 1 if v.violations else 0
