"""C03 — every duty is scheduled once, for the right time, across restarts and reorgs
(spec/ChainTime.tla, spec/Controller.tla)."""
import json
import os
from concurrent.futures import ThreadPoolExecutor
import vf

PID = "C03"
CT_PKG = "./services/chaintime/standard"
CT_TEST = "TestVerifC03ChainTime"


# ------------------------------------------------------------------------------------------
# chain time: the real chaintime/standard.Service against ChainTime.tla
# ------------------------------------------------------------------------------------------

def ct_driver(scenarios, tag):
    return vf.run_driver(PID, CT_PKG, CT_TEST, scenarios, "ct-" + tag)


def ct_sig(s):
    r = s["steps"][0]
    return {"part": "chaintime", "d": r["d"], "p": r["p"], "gk": r["gk"]}


def ct_nontrivial(s, rows):
    # a sweep point is non-trivial when epoch-side conversions and a clock reading were sampled
    return any(r.get("ev") == "Conv" and r.get("e") for r in rows) and any(r.get("ev") == "Now" for r in rows)


def ct_scenarios(tier):
    hs = vf.tlc_scenarios(PID, "Scen_ChainTime", "Scen_ChainTime.cfg", exhaustive=True, name="scen-ct")
    if tier == "quick":
        # every (d, p) pair with a rotating choice of genesis positions; thorough takes all
        keep, seen = [], {}
        for h in hs:
            k = (h[0]["d"], h[0]["p"])
            seen[k] = seen.get(k, 0) + 1
            if (seen[k] + vf.seed()) % 3 == 0 or h[0]["gk"] < 0:
                keep.append(h)
        hs = keep
    return [{"sc": i + 1, "steps": h} for i, h in enumerate(hs)]


def ct_mc(tier):
    res = [vf.tlc_exhaustive(PID, "MC_ChainTime", "MC_ChainTime.cfg", name="mc-ct", workers=4)]
    if tier == "thorough":
        res.append(vf.tlc_exhaustive(PID, "MC_ChainTime", "MC_ChainTime_big.cfg", name="mc-ct-big"))
    return res


# ------------------------------------------------------------------------------------------
# controller: the real controller/standard.Service against Controller.tla
# ------------------------------------------------------------------------------------------
CTL_PKG = "./services/controller/standard"
CTL_TEST = "TestVerifC03"


def ctl_driver(scenarios, tag):
    return vf.run_driver(PID, CTL_PKG, CTL_TEST, scenarios, "ctl-" + tag, timeout=900)


def ctl_sig(s):
    """Describes the history: configuration and the shape of the first start-up (what the known
    defects hang on), plus which kinds of stimuli occur."""
    reset = s["steps"][0]
    cfg = reset["cfg"]
    now = reset["now"]
    first = None
    for st in s["steps"][1:]:
        if st["ev"] == "Advance" and first is None:
            now += 1
        if st["ev"] == "Start":
            first = st
            break
    evs = {st["ev"] for st in s["steps"]}
    return {
        "part": "controller",
        "fork": cfg["fork"],
        "fork_positive": cfg["fork"] > 0,
        "start_epoch": (now // cfg["p"]) if first else -1,
        "start_in_epoch0_after_fork": bool(first) and now // cfg["p"] == 0 and cfg["fork"] == 0,
        "waited_for_genesis": bool(first and first.get("w")),
        "delayed_replies": any(st["ev"] == "Hold" and st["k"] in ("att", "prop") for st in s["steps"]),
        "delayed_calls": "+".join(sorted({st["k"] for st in s["steps"] if st["ev"] == "Hold" and st["k"] not in ("att", "prop")})),
        # duty kinds for which a reply was delivered after a newer reply for the same epoch had been obtained
        "late_reply": late_kinds(s["steps"]),
        "reorg": "Reorg" in evs,
        "restart": sum(1 for st in s["steps"] if st["ev"] == "Start") > 1,
        # the accounts provider's answer is part of the history: changes, failing lookups, nobody active
        "accounts_change": "Accounts" in evs,
        "accounts_fail": any(st["ev"] == "Accounts" and st.get("err") for st in s["steps"]) or bool(reset.get("acct", {}).get("err")),
        "accounts_none": any(st["ev"] == "Accounts" and not st.get("err") and not st.get("vals") for st in s["steps"])
                         or (reset.get("acct") is not None and not reset["acct"].get("err") and not reset["acct"].get("vals")),
    }


def ctl_nontrivial(s, rows):
    # exercises the property's antecedent: duties were obtained and turned into jobs, and then
    # either a head event made the controller fetch again (reorg refresh), or the controller was
    # restarted, or a duty job was run
    had_jobs = any(r.get("ev") == "Start" and r.get("jobs") for r in rows)
    refresh = any(r.get("ev") == "HeadEvent" and r.get("fetches") for r in rows)
    restart = sum(1 for r in rows if r.get("ev") == "Start") > 1
    ran = any(r.get("done") for r in rows)
    if had_jobs and (refresh or restart or ran):
        return True
    # ... or (histories on one instance) a call left early - its accounts lookup failed or named nobody - and a later
    # call on the same instance obtained duties that became jobs
    left = False
    acct = dict(s["steps"][0].get("acct") or {"err": False, "vals": [1]})
    for r in rows:
        if r.get("ev") == "Accounts":
            acct = {"err": r.get("err"), "vals": r.get("vals")}
        elif r.get("ev") == "Start":
            left = False
        elif r.get("ev") in ("HeadEvent", "EpochTick", "Fire", "Release"):
            if (acct["err"] or not acct["vals"]) and (r.get("ev") != "Fire" or r.get("k") == "prepepoch"):
                left = True
            elif left and r.get("fetches") and r.get("jobs"):
                return True
    return False


def late_kinds(h):
    return "+".join(sorted({st["k"] for st in h if st["ev"] == "Release" and st.get("late")}))


def ctl_families(tier):
    q = tier == "quick"
    # (cfg, behaviours wanted, simulation runs, depth); the last three are enumerated exhaustively:
    # job starts inside a refresh (a duty job started by the timer or the fast track, or the clock
    # moved on, between two interface calls of a refresh of its epoch: the accounts provider
    # delaying, resp. the scheduler's CancelJob delaying), and design-level
    # counterexamples of NoStaleJob (overlapping refreshes) among short start-up / head event /
    # reorg / delayed-reply histories, to be replayed on the real code
    return [("Scen_Controller.cfg", 280 if q else 2000, 470 if q else 3200, 160),          # small chain, all stimuli
            ("Scen_Controller_wide.cfg", 100 if q else 800, 160 if q else 1200, 260),      # other chain parameters
            ("Scen_Controller_gated_sim.cfg", 30 if q else 250, 120 if q else 800, 200),   # delayed duty replies
            ("Scen_Controller_steps_sim.cfg", 40 if q else 400, 110 if q else 1000, 220),  # delayed accounts / scheduler calls
            ("Scen_Controller_steps.cfg" if q else "Scen_Controller_steps_big.cfg", 4 if q else 20, 0, 0),
            ("Scen_Controller_steps_cancel.cfg" if q else "Scen_Controller_steps_cancel_big.cfg", 4 if q else 40, 0, 0),
            ("Scen_Controller_gated.cfg" if q else "Scen_Controller_gated_big.cfg", 1 if q else 2, 0, 0),
            # histories of calls on ONE instance with the accounts provider's answer as a per-call input (any subset of
            # the validators, nobody, an error; the accounts provider delaying, so that lookups under way at once are
            # answered differently): simulation ...
            ("Scen_Controller_hist_sim.cfg", 50 if q else 700, 170 if q else 2200, 220),
            ("Scen_Controller_hist_sim_wide.cfg", 0 if q else 300, 0 if q else 700, 260),
            # ... and enumerated exhaustively by TLC: a call (attester / proposer / sync committee refresh; the epoch
            # ticker; prepare-for-epoch) that went through to asking the node for duties AFTER a call of the same kind
            # had left early on the same instance (EmitAfterEarly), and two refreshes of one kind under way at once,
            # waiting for their accounts and let through in either order with the answer changing between (EmitOverlap)
            ("Scen_Controller_hist.cfg" if q else "Scen_Controller_hist_big.cfg", 3 if q else 16, 0, 0),
            ("Scen_Controller_hist_tick.cfg", 2 if q else 12, 0, 0),
            ("Scen_Controller_hist_overlap.cfg" if q else "Scen_Controller_hist_overlap_big.cfg", 2 if q else 12, 0, 0)]


def steps_class(h):
    """Shape of a job-start-inside-a-refresh history: fast track or not, which jobs the timer started
    while a refresh was under way, whether the delayed accounts reply came before or after."""
    fired = tuple(sorted({st["k"] for st in h if st["ev"] == "Fire"}))
    evs = [st["ev"] for st in h]
    last_rel = max([i for i, e in enumerate(evs) if e == "Release"] or [-1])
    rel_after_fire = "Fire" in evs and last_rel > evs.index("Fire")
    tick_inside = "Hold" in evs and any(e == "Advance" and evs.index("Hold") < i < last_rel for i, e in enumerate(evs))
    oracle = sum((d["e"] * 7 + d["ver"] * 3 + d["v"]) * (d["slot"] + 1) for d in h[0]["oracle"]["att"]) % 1009
    return (h[0]["cfg"]["ft"], fired, rel_after_fire, tick_inside, oracle)


def hist_class(meta, h):
    """Shape of a history on one instance: which kinds of call went on after one of their kind had left early, which kinds
    of refresh overlapped, how the early call left (failed lookup / nobody active), whether the accounts provider delayed
    and whether its answer changed while a lookup was waiting."""
    evs = [st["ev"] for st in h]
    answers = [h[0].get("acct")] + [st for st in h if st["ev"] == "Accounts"]
    waiting = between = False
    for st in h:
        if st["ev"] == "HeadEvent":
            waiting = any(x["ev"] == "Hold" and x.get("on") for x in h[:h.index(st)])
        elif st["ev"] == "Accounts" and waiting:
            between = True
    return (tuple(sorted(meta.get("aft", []))), tuple(sorted(meta.get("ovl", []))),
            any(a and a.get("err") for a in answers), "Hold" in evs, between)


def ctl_generate(fam):
    cfg, n, runs, depth = fam
    name = "scen-" + cfg.replace(".cfg", "")
    if not n:
        return []
    if runs:
        return vf.tlc_scenarios(PID, "Scen_Controller", cfg, num=runs, depth=depth, name=name, timeout=900)[:n]
    hs = vf.tlc_scenarios(PID, "Scen_Controller", cfg, exhaustive=True, workers=3 if "_hist" in cfg else min(vf.NCPU, 8), name=name,
                          timeout=1200)
    if "_hist" in cfg:
        # the first record (kinds of call concerned) is for this selection only: per class the shortest ones and a
        # seed-dependent choice among the others
        by = {}
        for h in sorted(hs, key=lambda h: (len(h), json.dumps(h, sort_keys=True))):
            meta, h = h[0], h[1:]
            by.setdefault(hist_class(meta, h), []).append(h)
        out = []
        for k in sorted(by):
            first, rest = by[k][:(n + 1) // 2], by[k][(n + 1) // 2:]
            off = (vf.seed() * 7) % max(1, len(rest))
            out += first + (rest[off:] + rest[:off])[:n - len(first)]
        vf.log("%s: %d histories in %d classes, %d taken" % (cfg, len(hs), len(by), len(out)))
        return out
    steps = "_steps" in cfg
    by, out = {}, []
    for h in sorted(hs, key=lambda h: (len(h), json.dumps(h, sort_keys=True))):
        by.setdefault(steps_class(h) if steps else late_kinds(h), []).append(h)
    for k in sorted(by):
        if steps and n:
            # the shortest ones and a seed-dependent choice among the others
            rest = by[k][n // 2:]
            off = (vf.seed() * 7) % max(1, len(rest))
            out += by[k][:n // 2] + (rest[off:] + rest[:off])[:n - n // 2]
        else:
            out += by[k][:n] if n else by[k]
    return out


# Vacuity self-check (spec/Controller.tla, Deviation): a design that keeps state on the instance which the property does
# not make persistent - the proposer refresh takes a lock and gives it back where scheduleProposals returns, not where the
# refresh returns early (seeded/C03-proposer-refresh-mutex-leak).  It is right on every history in which the accounts
# provider always names somebody (the model as it was: that run must pass) and TLC must reject it once the accounts
# provider's answer is part of the history.
def ctl_selfcheck():
    r = vf.tlc(PID, "self-fresh-LeakPropLock", "MC_Controller", "MC_Controller_fresh_LeakPropLock.cfg", workers=2, timeout=600)
    if not r["ok"]:
        raise vf.Broken("model self-check failed: MC_Controller_fresh_LeakPropLock.cfg must pass (%s %s)\n%s" % (
            r["kind"], r["violated"], r["out"][-2000:]))
    vf.log("model self-check: the leaked proposer-refresh lock passes while the accounts provider always names somebody (%d states)" % r["distinct"])
    r = vf.tlc(PID, "self-dev-LeakPropLock", "MC_Controller", "MC_Controller_dev_LeakPropLock.cfg", workers=2, timeout=600)
    if r["kind"] != "invariant" or r["violated"] != "RefreshCompletes":
        raise vf.Broken("model self-check failed: the leaked proposer-refresh lock is not rejected (%s %s)\n%s" % (
            r["kind"], r["violated"], r["out"][-2000:]))
    vf.log("model self-check: the leaked proposer-refresh lock violates RefreshCompletes over histories with a failing / empty accounts lookup (as it must)")
    return []


def ctl_mc_accts(tier):
    # the accounts provider's answer changes during the history (fails, names nobody, names one validator, names all)
    if tier == "quick":
        return [vf.tlc_exhaustive(PID, "MC_Controller", "MC_Controller_accts.cfg", name="mc-ctl-accts", workers=3)]
    # ... more changes; and with the accounts provider delaying (lookups of refreshes under way at once answered differently)
    return [vf.tlc_exhaustive(PID, "MC_Controller", "MC_Controller_accts_big.cfg", name="mc-ctl-accts-big",
                              workers=min(vf.NCPU, 10), timeout=1500, heap="8g"),
            vf.tlc_exhaustive(PID, "MC_Controller", "MC_Controller_accts_gate.cfg", name="mc-ctl-accts-gate",
                              workers=min(vf.NCPU, 10), timeout=1500, heap="8g")]


def ctl_mc(tier):
    res = [vf.tlc_exhaustive(PID, "MC_Controller", "MC_Controller.cfg", name="mc-ctl")]
    if tier == "thorough":
        res.append(vf.tlc_exhaustive(PID, "MC_Controller", "MC_Controller_big.cfg", name="mc-ctl-big",
                                     workers=min(vf.NCPU, 10), timeout=1500, heap="8g"))
        res.append(vf.tlc_exhaustive(PID, "MC_Controller", "MC_Controller_restart.cfg", name="mc-ctl-restart",
                                     workers=min(vf.NCPU, 10), timeout=1500, heap="8g"))
        res.append(vf.tlc_exhaustive(PID, "MC_Controller", "MC_Controller_gated.cfg", name="mc-ctl-gated",
                                     workers=min(vf.NCPU, 10), timeout=1500, heap="8g"))
        res.append(vf.tlc_exhaustive(PID, "MC_Controller", "MC_Controller_long.cfg", name="mc-ctl-long",
                                     workers=min(vf.NCPU, 10), timeout=1500, heap="8g"))
    return res


def ctl_mc_refresh(tier):
    # job starts by the timer between any two steps of the controller's goroutines (Interleave)
    if tier == "quick":
        return [vf.tlc_exhaustive(PID, "MC_Controller", "MC_Controller_refresh.cfg", name="mc-ctl-refresh", workers=4)]
    # ... and, with a delaying accounts provider, clock ticks / head events / reorgs between them as well
    return [vf.tlc_exhaustive(PID, "MC_Controller", "MC_Controller_refresh_big.cfg", name="mc-ctl-refresh-big",
                              workers=min(vf.NCPU, 10), timeout=1500, heap="8g"),
            vf.tlc_exhaustive(PID, "MC_Controller", "MC_Controller_acct.cfg", name="mc-ctl-acct",
                              workers=min(vf.NCPU, 10), timeout=1500, heap="8g")]


# ---------------------------------------------------------------------------------------------
# system level: "no slot is ever ... attested for twice" across the scheduler's cancel (spec/Vouch.tla, docs/Vouch.md)
# ---------------------------------------------------------------------------------------------
SYS_SC = 900001


def sys_driver(scenarios, tag):
    return vf.run_driver(PID, "./services/controller/standard", "TestVerifVouch", scenarios, "vouch-" + tag, timeout=600)


def sys_sig(s):
    return {"part": "system", "history": "cancel_on_fired_timer"}


def sys_nontrivial(s, rows):
    # the schedule was realised: the job goroutine was held after its timer fired, and the refresh cancelled its name meanwhile
    notes = {r.get("what"): r.get("ok") for r in rows if r["ev"] == "Note"}
    return bool(notes.get("hold") and notes.get("release")) and any(r["ev"] == "Cancel" and r["ok"] and r["slot"] == 4 for r in rows)


def sys_scenarios():
    """Directed schedule on the REAL controller + REAL scheduler + REAL attester (driver of the composition, TestVerifVouch): the
    goroutine of "Attestations for slot 4" is held where its select has just taken the timer branch (the scheduler's verif hook)
    while a reorg head event makes the refresh cancel the epoch's jobs and schedule them again under the same names.  CancelJob
    reported success, so the withdrawn job must not run: otherwise slot 4 is attested for twice (Trace_Vouch.tla: CancelledNeverRuns,
    SlotOnce, PendingExact).  Epoch 2 = slots 4, 5: version 0 has v1 in slot 4 and v2 in slot 5, the reorg swaps them."""
    duties = [{"e": e, "w": w, "v": v, "slot": 2 * e + (v - 1 + w) % 2} for e in range(8) for w in range(3) for v in (1, 2)]
    steps = [{"ev": "Reset", "p": 2, "start": 3, "last": 8, "ft": False, "vals": [1, 2], "duties": duties},
             {"ev": "Advance", "slow": []}, {"ev": "Head"}, {"ev": "Hold", "e": 4}, {"ev": "Phase"},
             {"ev": "Reorg", "e": 2}, {"ev": "Head"}, {"ev": "Release"},
             {"ev": "Advance", "slow": []}, {"ev": "Phase"}, {"ev": "Advance", "slow": []}, {"ev": "Phase"}]
    return [{"sc": SYS_SC, "kind": "vouch", "race": True, "slotms": 240, "tail": 3, "steps": steps}]


def sys_conformance(v, sc):
    # replay directories of this block are numbered from 201 (vf.conformance numbers from 1 per call)
    orig = vf.save_replay
    vf.save_replay = lambda pid, n, *a: orig(pid, n + 200, *a)
    try:
        vf.conformance(v, sc, sys_driver, "Trace_Vouch", "Trace_Vouch.cfg", sys_sig, sys_nontrivial, dfs=True, tlc_timeout=600)
    finally:
        vf.save_replay = orig


def run(tier):
    v = vf.Verdict(PID, tier)
    v.assumptions = [
        "Env_GenesisRootsFixed: duty-dependent roots of epoch boundaries 0 and below never change",
        "Env_HeadImpliesBlock: a head event for the current slot means that slot's block exists (its proposal is not rescheduled)",
        "Env_TickBeforeHead: the epoch ticker of an epoch's first slot runs before that slot's head event is handled",
        "Env_TimelyScheduler: the clock does not pass a job's slot before the scheduler has started the job; jobs start earliest-first",
        "head events are delivered for the current slot and carry the roots in force; reorgs reach at most the previous epoch's boundary",
        "Env_SyncRootShallow: the root that fixes the next sync committee (boundary of a period's first epoch) is reorganised only during that epoch, and a head event shows the reorganisation before that epoch is over",
        "delaying interfaces (duty replies, accounts lookups, scheduler calls) delay a call, never lose or reorder its effect; the epoch ticker and prepare-for-epoch are explored with a prompt accounts provider",
        "the accounts provider answers every 'all accounts of the epoch' lookup with the answer in force when the lookup is made (a delayed one: when it is let through) - any subset of the validators, nobody, or an error; the by-index lookups always succeed; New() with a failing accounts provider fails and is not explored",
        "beacon node, accounts, clock, scheduler and duty services are scripted fakes at the controller's interfaces; the chain-time service is bound separately",
    ]
    # TLC work that does not depend on the Go side runs side by side: exhaustive model checking and
    # scenario generation (each run has its own scratch directory)
    fams = ctl_families(tier)
    with ThreadPoolExecutor(max_workers=10 if tier == "quick" else 3) as ex:
        f_ctl_mc = ex.submit(ctl_mc, tier)
        f_ctl_mc2 = ex.submit(ctl_mc_refresh, tier)
        f_ctl_mc3 = ex.submit(ctl_mc_accts, tier)
        f_self = ex.submit(ctl_selfcheck)
        f_gen = [ex.submit(ctl_generate, f) for f in reversed(fams)]
        f_ct_mc = ex.submit(ct_mc, tier)
        f_ct_sc = ex.submit(ct_scenarios, tier)
        for r in f_ct_mc.result() + f_ctl_mc.result() + f_ctl_mc2.result() + f_ctl_mc3.result() + f_self.result():
            v.add_mc(r)
        ct_sc = f_ct_sc.result()
        ctl_hs = [h for f in reversed(f_gen) for h in f.result()]
    ctl_sc = [{"sc": i + 1, "steps": h} for i, h in enumerate(ctl_hs)]
    vf.conformance(v, ct_sc, ct_driver, "Trace_ChainTime", "Trace_ChainTime.cfg", ct_sig, ct_nontrivial)
    if v.violations:
        # every job time of the controller is computed from these conversions: stop here
        vf.log("chain time deviates from ChainTime.tla: controller part not run")
        return v.finish()
    vf.conformance(v, ctl_sc, ctl_driver, "Trace_Controller", "Trace_Controller.cfg",
                   ctl_sig, ctl_nontrivial, dfs=True, chunk=250 if tier == "quick" else 400)
    sys_conformance(v, sys_scenarios())
    v.coverage["rule"] = ("chain time: TLC-enumerated parameter sweep (slot duration x slots per epoch x genesis position) replayed on "
                          "chaintime/standard, non-trivial = epoch-side conversions and a clock reading sampled; controller: behaviours "
                          "of Controller.tla from TLC simulation (seeded) over seed-derived duty oracles and configuration families, "
                          "replayed on the real controller, non-trivial = duties became jobs and then a reorg refresh, a restart or a "
                          "job execution followed, or a call left early (accounts lookup failed / named nobody) and a later call on the "
                          "same instance obtained duties that became jobs; one controller instance per history, the accounts provider's "
                          "answer a per-call input; distinct by step list; system level: one directed schedule (cancel of the current slot's job "
                          "right after its timer fired) on the real controller + real scheduler + real attester, judged by Trace_Vouch.tla")
    return v.finish()


def replay(path):
    v = vf.Verdict(PID, "quick")
    with open(os.path.join(path, "scenario.json")) as fh:
        s = json.load(fh)
    if s.get("kind") == "vouch":
        sys_conformance(v, [s])
    elif s["steps"][0].get("gk") is not None:
        vf.conformance(v, [s], ct_driver, "Trace_ChainTime", "Trace_ChainTime.cfg", ct_sig, ct_nontrivial)
    else:
        vf.conformance(v, [s], ctl_driver, "Trace_Controller", "Trace_Controller.cfg", ctl_sig, ctl_nontrivial, dfs=True)
    return 1 if v.violations else 0
