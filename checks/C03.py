"""C03 — every duty is scheduled once, for the right time, across restarts and reorgs
(spec/ChainTime.tla, spec/Controller.tla)."""
import json
import os
import vf

PID = "C03"
CT_PKG = "./services/chaintime/standard"
CT_TEST = "TestVerifC03ChainTime"


# ------------------------------------------------------------------------------------------
# chain time: the real chaintime/standard.Service against ChainTime.tla
# ------------------------------------------------------------------------------------------

def ct_driver(scenarios, tag):
    return vf.run_driver(PID, CT_PKG, CT_TEST, scenarios, "ct-" + tag)


def ct_sig(s):
    r = s["steps"][0]
    return {"part": "chaintime", "d": r["d"], "p": r["p"], "gk": r["gk"]}


def ct_nontrivial(s, rows):
    # a sweep point is non-trivial when epoch-side conversions and a clock reading were sampled
    return any(r.get("ev") == "Conv" and r.get("e") for r in rows) and any(r.get("ev") == "Now" for r in rows)


def ct_scenarios(tier):
    hs = vf.tlc_scenarios(PID, "Scen_ChainTime", "Scen_ChainTime.cfg", exhaustive=True, name="scen-ct")
    if tier == "quick":
        # every (d, p) pair with a rotating choice of genesis positions; thorough takes all
        keep, seen = [], {}
        for h in hs:
            k = (h[0]["d"], h[0]["p"])
            seen[k] = seen.get(k, 0) + 1
            if (seen[k] + vf.seed()) % 3 == 0 or h[0]["gk"] < 0:
                keep.append(h)
        hs = keep
    return [{"sc": i + 1, "steps": h} for i, h in enumerate(hs)]


def chaintime_part(v, tier):
    v.add_mc(vf.tlc_exhaustive(PID, "MC_ChainTime", "MC_ChainTime.cfg", name="mc-ct"))
    if tier == "thorough":
        v.add_mc(vf.tlc_exhaustive(PID, "MC_ChainTime", "MC_ChainTime_big.cfg", name="mc-ct-big"))
    vf.conformance(v, ct_scenarios(tier), ct_driver, "Trace_ChainTime", "Trace_ChainTime.cfg", ct_sig, ct_nontrivial)


def run(tier):
    v = vf.Verdict(PID, tier)
    v.assumptions = []
    chaintime_part(v, tier)
    return v.finish()


def replay(path):
    v = vf.Verdict(PID, "quick")
    with open(os.path.join(path, "scenario.json")) as fh:
        s = json.load(fh)
    if s["steps"][0].get("gk") is not None:
        vf.conformance(v, [s], ct_driver, "Trace_ChainTime", "Trace_ChainTime.cfg", ct_sig, ct_nontrivial)
    return 1 if v.violations else 0
