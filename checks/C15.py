"""C15 — sync committee members message every slot of their period, independently
(spec/SyncCommittee.tla)."""
import concurrent.futures
import importlib.util
import json
import os
import random
import re
import threading
import vf

PID = "C15"
PKG = "./services/controller/standard"
TEST = "TestVerifC15"
SPE, EPP = 2, 2       # SLOTS_PER_EPOCH / EPOCHS_PER_SYNC_COMMITTEE_PERIOD of Scen_/Trace_SyncCommittee*.cfg


def _own_overlay(pid):
    """Overlay of this check: the shared files plus this property's drivers.  Drivers of other
    properties that live in the same Go package are left out, so that work in progress on them
    cannot break this build (they are test files; nothing here depends on them)."""
    repl = {}
    mine = re.compile(r"zz_verif_(%s|agg)(_|\.)" % pid.lower())
    other = re.compile(r"zz_verif_[a-z0-9]+")
    for root, _dirs, files in os.walk(vf.OVERLAY):
        for f in files:
            if f.endswith("~") or f.startswith("."):
                continue
            if f.endswith("_test.go") and other.match(f) and not mine.match(f):
                continue
            src = os.path.join(root, f)
            rel = os.path.relpath(src, vf.OVERLAY)
            dst = os.path.join(vf.REPO, rel)
            if os.path.exists(dst):
                raise vf.Broken("overlay file would replace an existing repository file: %s" % rel)
            repl[dst] = src
    p = os.path.join(vf.outdir(pid), "overlay.json")
    # (several drivers of this check are built side by side: the file is replaced atomically)
    tmp = "%s.%d.%d" % (p, os.getpid(), threading.get_ident())
    with open(tmp, "w") as fh:
        json.dump({"Replace": repl}, fh, indent=1)
    os.replace(tmp, p)
    return p


vf.overlay_file = _own_overlay


def _patient(fn, least):
    """The machine may be busy with other work (load averages in the hundreds were seen): a TLC process that needs
    seconds alone then needs many minutes.  Every TLC call of this check - also those made for it by the shared
    checks/aggregation.py - gets at least `least` seconds before it is given up (a timeout is exit 2, never a verdict)."""
    def call(*a, **k):
        if k.get("timeout") is None or k["timeout"] < least:
            k["timeout"] = least
        return fn(*a, **k)
    call.__name__ = fn.__name__
    return call


vf.tlc = _patient(vf.tlc, 1800)      # (tlc_exhaustive / tlc_scenarios / validate_trace call vf.tlc with their own timeout)

# the aggregation pipeline that the aggregation jobs of this property start (spec/Aggregation.tla, pipeline B)
_spec = importlib.util.spec_from_file_location(
    "check_aggregation", os.path.join(os.path.dirname(os.path.abspath(__file__)), "aggregation.py"))
agg = importlib.util.module_from_spec(_spec)
_spec.loader.exec_module(agg)


def driver(scenarios, tag):
    return vf.run_driver(PID, PKG, TEST, scenarios, tag)


def _window(period, at, fork, spe, epp):
    start = max(period * epp, fork)
    first = start * spe
    first = max(first - 1 if first > 0 else 0, at)
    last = max((period + 1) * epp, fork) * spe - 2
    return list(range(first, last + 1))


def features(s):
    """What a scenario exercises (to pick and describe scenarios and to match known findings on the
    specific input; never for the verdict)."""
    steps = s["steps"]
    spe, epp = s.get("spe", SPE), s.get("epp", EPP)
    now, fork = steps[0]["now"], steps[0]["fork"]
    members = {}
    f = {"signer": s.get("signer", "scripted"), "schedule_from_epoch0": False, "schedule_before_fork": False,
         "window": False, "message_with_missing_account": False, "message_with_zero_signature": False,
         "message": False, "aggregate": False, "aggregate_after_head_change": False,
         # the signer's faults, per signing step: a zero signature for one member while another member's is
         # given (and the follow-up step of that slot is asked for); an error for the whole batch
         "sel_zero_one_of_several": False, "sel_zero_only_fault_of_slot": False, "root_zero_one_of_several": False,
         "cp_zero_one_of_several": False, "sel_err": False, "root_err": False, "cp_err": False,
         "clean_slot_beside_faulty_slot": False}
    messaged_head = {}
    head = steps[0]["head"]
    selzero, selerr, faulty, clean = {}, set(), set(), set()
    for st in steps[1:]:
        ev = st["ev"]
        if ev == "Member":
            members[st["v"]] = st
        elif ev == "Advance":
            now = st["now"]
        elif ev == "Head":
            head = st["root"]
        elif ev == "Schedule":
            period = st["epoch"] // epp
            if now // spe < fork:
                f["schedule_before_fork"] = True
            else:
                w = [x for x in _window(period, now, fork, spe, epp) if not (st["nc"] and x == now)]
                f["window"] |= bool(w)
                # the slot before the first slot of the period does not exist: first period of the chain
                if max(period * epp, fork) == 0 and now // spe == 0 and w:
                    f["schedule_from_epoch0"] = True
        elif ev == "FirePrepare":
            zs = {x["v"] for x in st["hs"] if x.get("z")}
            selzero[st["slot"]] = zs
            if st.get("err"):
                f["sel_err"] = True
                selerr.add(st["slot"])
            if zs or st.get("err"):
                faulty.add(st["slot"])
        elif ev == "FireMessage":
            slot = st["slot"]
            accts = {v for v, m in members.items() if m["acct"]}
            zv = set(st.get("zv", []))
            healthy = accts - zv
            if st.get("err"):
                f["root_err"] = True
                faulty.add(slot)
            elif healthy:
                f["message"] = True
                if len(accts) < len(members):
                    f["message_with_missing_account"] = True
                if zv:
                    f["message_with_zero_signature"] = f["root_zero_one_of_several"] = True
                    faulty.add(slot)
                zs = selzero.get(slot, set())
                if zs and accts - zs:
                    f["sel_zero_one_of_several"] = True
                    if not zv:
                        f["sel_zero_only_fault_of_slot"] = True
                if slot not in faulty:
                    clean.add(slot)
            messaged_head[slot] = head
        elif ev == "FireAggregate":
            f["aggregate"] = True
            if messaged_head.get(st["slot"]) not in (None, head):
                f["aggregate_after_head_change"] = True
            if st.get("err"):
                f["cp_err"] = True
            elif st.get("zp"):
                f["cp_zero_one_of_several"] = True
    f["clean_slot_beside_faulty_slot"] = bool(clean) and bool(faulty)
    return f


FAULT_KEYS = ("sel_zero_one_of_several", "root_zero_one_of_several", "cp_zero_one_of_several", "sel_err", "root_err", "cp_err")


def _any_fault(h):
    return any(st.get("err") or st.get("zv") or st.get("zp") or any(x.get("z") for x in st.get("hs", [])) for st in h)


def sig_of(s):
    return features(s)


def nontrivial(s, rows):
    # exercises an antecedent: a Schedule with a non-empty window, or a message job with a healthy member
    f = features(s)
    return f["window"] or f["message"]


def generate(tier, pool):
    """Start the three scenario generators (TLC simulation) on the thread pool."""
    quick = tier == "quick"
    return [
        pool.submit(vf.tlc_scenarios, PID, "Scen_SyncCommittee", "Scen_SyncCommittee.cfg", num=900 if quick else 6000,
                    depth=12, name="scen-mess"),
        pool.submit(vf.tlc_scenarios, PID, "Scen_SyncCommittee", "Scen_SyncCommittee_window.cfg", num=60 if quick else 1200,
                    depth=8, name="scen-window", aseed=vf.seed() + 1000),
        pool.submit(vf.tlc_scenarios, PID, "Scen_SyncCommittee", "Scen_SyncCommittee_genesis.cfg", num=40 if quick else 600,
                    depth=7, name="scen-genesis", aseed=vf.seed() + 2000),
    ]


def scenarios(tier, futures=None):
    quick = tier == "quick"
    if futures is None:
        with concurrent.futures.ThreadPoolExecutor(max_workers=3) as pool:
            futures = generate(tier, pool)
            mess, wind, gen = [f.result() for f in futures]
    else:
        mess, wind, gen = [f.result() for f in futures]
    rnd = random.Random(vf.seed())
    rnd.shuffle(mess)
    rnd.shuffle(wind)
    rnd.shuffle(gen)
    wind = gen[:(120 if quick else 2000)] + wind
    cap_m, cap_w = (260, 260) if quick else (5000, 5000)
    out = []

    def add(h, signer):
        out.append({"sc": len(out) + 1, "signer": signer, "spe": SPE, "epp": EPP, "steps": h})

    # window scenarios: make sure the chain start and a start before the fork are present, then fill
    picked, seen = [], set()

    def take(h, lim):
        k = json.dumps(h, sort_keys=True)
        if k not in seen and len(picked) < lim:
            seen.add(k)
            picked.append(h)

    for key in ("schedule_from_epoch0", "schedule_before_fork"):
        n = 0
        for h in wind:
            if features({"steps": h})[key]:
                take(h, cap_w)
                n += 1
                if n >= (20 if quick else 300):
                    break
    for h in wind:
        take(h, cap_w)
    for h in picked:
        add(h, "scripted")
    # messenger scenarios: force the fault classes in (a zero signature for one of several members at each
    # of the three signing steps, an error for each kind of batch, a clean slot beside a faulty one, a
    # missing account, a head change before the aggregation), then fill up.  Every third one (and more of
    # those with a missing account) runs on the real signer, whose answers get the same faults applied.
    picked, seen = [], set()
    feats = [(h, features({"steps": h, "signer": "scripted"})) for h in mess]
    for key, n_q, n_t in (("sel_zero_only_fault_of_slot", 30, 400), ("sel_zero_one_of_several", 20, 300),
                          ("root_zero_one_of_several", 20, 300), ("cp_zero_one_of_several", 20, 300),
                          ("sel_err", 10, 150), ("root_err", 10, 150), ("cp_err", 10, 150),
                          ("clean_slot_beside_faulty_slot", 20, 300), ("message_with_missing_account", 20, 300),
                          ("aggregate_after_head_change", 20, 300)):
        n = 0
        for h, f in feats:
            if f[key]:
                take(h, cap_m)
                n += 1
                if n >= (n_q if quick else n_t):
                    break
    # histories without any signer fault keep their share (the rule, the roots, the window)
    n = 0
    for h, f in feats:
        if not any(f[k] for k in FAULT_KEYS) and not _any_fault(h):
            take(h, cap_m)
            n += 1
            if n >= (60 if quick else 1000):
                break
    for h in mess:
        take(h, cap_m)
    k = 0
    for h in picked:
        missing = any(st["ev"] == "Member" and not st["acct"] for st in h)
        k += 1
        add(h, "real" if (k % 3 == 0 or (missing and k % 3 == 1)) else "scripted")
    return out



# --------------------------------------------------------------------------------------------------
# The scheduling-path family (spec/SyncPaths.tla): WHO is in the duty of a slot, whichever of the
# controller's four entry points set the slot's job up (start-up, epoch ticker, Altair fork handler,
# reorg refresh), on ONE wired instance per history: real controller + real advanced scheduler + real
# wallet account manager over the real validators manager + real signer / messenger / aggregator /
# subscriber; fakes at the beacon node and the wallet store.
# --------------------------------------------------------------------------------------------------
PATHS_TEST = "TestVerifC15Paths"
PATHS_ID0 = 500000
PATHS_REPLAY0 = 2000
PATHS = ("start", "ticker", "fork", "refresh")
PATHS_STATES = ("active_exiting", "active_slashed", "exited_unslashed", "exited_slashed", "withdrawal_possible")

PATHS_CONTROLS = (("MC_SyncPaths_dev_start.cfg", "New() schedules with the validating set"),
                  ("MC_SyncPaths_dev_ticker.cfg", "the epoch ticker prepares the next period with the validating set"),
                  ("MC_SyncPaths_dev_fork.cfg", "the Altair fork handler schedules with the validating set"),
                  ("MC_SyncPaths_dev_refresh.cfg", "the reorg refresh reschedules with the validating set"),
                  ("MC_SyncPaths_dev_byindex.cfg", "the ByIndex account lookup inside the scheduling applies the validating filter"))


def paths_selfcheck():
    """Vacuity self-check of the path model: each control design (one path, or the shared ByIndex lookup, takes
    the validating set) must violate JobsComplete; the refresh design passes when no head event arrives."""
    n = 0
    for cfg, what in PATHS_CONTROLS:
        r = vf.tlc(PID, "self-" + cfg.replace(".cfg", ""), "SyncPaths", cfg, workers=2, timeout=1200)
        if r["timed_out"] or r["kind"] != "invariant" or r["violated"] != "JobsComplete":
            raise vf.Broken("model self-check failed: %s (%s) does not violate JobsComplete (%s %s)\n%s" % (
                cfg, what, r["kind"], r["violated"], r["out"][-1500:]))
        vf.log("model self-check: %s - JobsComplete violated, as it must be (%d distinct states)" % (what, r["distinct"]))
        n += 1
    r = vf.tlc(PID, "self-paths-blind", "SyncPaths", "MC_SyncPaths_dev_refresh_blind.cfg", workers=2, timeout=1200)
    if not r["ok"]:
        raise vf.Broken("model self-check failed: MC_SyncPaths_dev_refresh_blind.cfg should pass (%s %s)" % (r["kind"], r["violated"]))
    vf.log("model self-check: the refresh design passes while no head event arrives (%d distinct states)" % r["distinct"])
    return n


def paths_features(s):
    """What a path scenario exercises (classes come from the specification: the generator writes into every
    RunSlot step which path set the job up and how many of its members were outside the validating set then)."""
    f = {"family": "paths", "fork": 0, "heads": 0, "refresh_accounts": False, "env": False}
    for p in PATHS:
        f["ran_" + p] = False
        f["ran_" + p + "_nonvalidating"] = False
    for x in PATHS_STATES:
        f["ran_with_" + x] = False
    for st in s["steps"]:
        ev = st["ev"]
        if ev == "Reset":
            f["fork"] = st["fork"]
        elif ev == "Head":
            f["heads"] += 1
        elif ev == "RefreshAccounts":
            f["refresh_accounts"] = True
        elif ev in ("Exit", "Slash"):
            f["env"] = True
        elif ev == "RunSlot" and st.get("n", 0) > 0:
            f["ran_" + st["by"]] = True
            if st.get("nv", 0) > 0:
                f["ran_" + st["by"] + "_nonvalidating"] = True
            for x in st.get("st", []):
                if x in PATHS_STATES:
                    f["ran_with_" + x] = True
    return f


def paths_nontrivial(s, rows):
    # exercises the antecedent: the jobs of a slot ran whose duty has a member with an account
    return any(st["ev"] == "RunSlot" and st.get("n", 0) > 0 for st in s["steps"])


def _drop_prefixes(hs):
    keys = sorted(json.dumps(h, sort_keys=True)[:-1] for h in hs)   # without the closing bracket
    drop = set()
    for a, b in zip(keys, keys[1:]):
        if b.startswith(a + ","):
            drop.add(a)
    return [h for h in hs if json.dumps(h, sort_keys=True)[:-1] not in drop]


def paths_pick(tier, pools):
    quick = tier == "quick"
    rnd = random.Random(vf.seed())
    out, seen = [], set()

    def take(h):
        k = json.dumps(h, sort_keys=True)
        if k in seen:
            return False
        seen.add(k)
        out.append({"sc": PATHS_ID0 + len(out), "family": "paths", "steps": h})
        return True

    # (pool, scenarios, forced classes with their number)
    plan = (("refresh", 30 if quick else 700, (("ran_refresh_nonvalidating", 12 if quick else 250), ("ran_refresh", 6 if quick else 100),
                                                ("ran_ticker_nonvalidating", 4 if quick else 100), ("ran_start_nonvalidating", 3 if quick else 100),
                                                ("ran_with_exited_slashed", 2 if quick else 50), ("ran_with_withdrawal_possible", 2 if quick else 50))),
            ("fork", 16 if quick else 400, (("ran_fork_nonvalidating", 6 if quick else 150), ("ran_fork", 3 if quick else 50),
                                            ("ran_ticker_nonvalidating", 2 if quick else 50))),
            ("general", 16 if quick else 500, (("ran_start_nonvalidating", 3 if quick else 100), ("ran_ticker_nonvalidating", 3 if quick else 100),
                                               ("ran_with_exited_slashed", 2 if quick else 50), ("ran_with_active_slashed", 2 if quick else 50),
                                               ("ran_with_exited_unslashed", 2 if quick else 50), ("ran_with_withdrawal_possible", 2 if quick else 50),
                                               ("ran_refresh_nonvalidating", 2 if quick else 50))))
    for name, cap, forced in plan:
        hs = _drop_prefixes(pools[name])
        rnd.shuffle(hs)
        feats = [paths_features({"steps": h}) for h in hs]
        n0 = len(out)
        for key, want in forced:
            n = 0
            for h, f in zip(hs, feats):
                if n >= want or len(out) - n0 >= cap:
                    break
                if f[key] and take(h):
                    n += 1
        for h, f in zip(hs, feats):
            if len(out) - n0 >= cap:
                break
            if any(f["ran_" + p] for p in PATHS):
                take(h)
    return out


def _paths_shards(scens, tag):
    """Run the path driver: each history needs its real time (the epoch ticker waits 200 ms), so the histories
    are spread over several driver processes."""
    if not scens:
        return []
    k = max(1, min(6, len(scens) // 25))
    if k == 1:
        return vf.run_driver(PID, PKG, PATHS_TEST, scens, "paths-" + tag)
    parts = [scens[i::k] for i in range(k)]
    with concurrent.futures.ThreadPoolExecutor(max_workers=k) as pool:
        fs = [pool.submit(vf.run_driver, PID, PKG, PATHS_TEST, part, "paths-%s-%d" % (tag, i)) for i, part in enumerate(parts)]
        rows = []
        for f in fs:
            rows += f.result()
    return rows


def _paths_prepare(tier):
    # the three generators one after the other (one JVM at a time: the other blocks of the check run beside this)
    quick = tier == "quick"
    pools = {}
    for i, (name, cfg, nq, nt, depth) in enumerate((("refresh", "Scen_SyncPaths_refresh.cfg", 350, 6000, 18),
                                                    ("fork", "Scen_SyncPaths_fork.cfg", 250, 4000, 16),
                                                    ("general", "Scen_SyncPaths.cfg", 300, 5000, 20))):
        pools[name] = vf.tlc_scenarios(PID, "Scen_SyncPaths", cfg, num=nq if quick else nt, depth=depth,
                                       name="scen-paths-" + name, aseed=vf.seed() + 5000 + 1000 * i, timeout=900)
    sc = paths_pick(tier, pools)
    vf.log("scheduling paths: %d histories (%s)" % (len(sc), ", ".join("%d from %s" % (len(v), k) for k, v in pools.items())))
    return sc, _paths_shards(sc, "batch")


def _paths_model(tier):
    res = [vf.tlc_exhaustive(PID, "SyncPaths", c, workers=3, timeout=2400) for c in ("MC_SyncPaths.cfg", "MC_SyncPaths_fork.cfg")]
    paths_selfcheck()
    if tier != "quick":
        res += [vf.tlc_exhaustive(PID, "SyncPaths", c, workers=4, timeout=2400) for c in ("MC_SyncPaths_big.cfg", "MC_SyncPaths_fork_big.cfg")]
    return res


def paths_start(tier):
    pool = concurrent.futures.ThreadPoolExecutor(max_workers=2)
    return {"tier": tier, "pool": pool, "prep": pool.submit(_paths_prepare, tier), "mc": pool.submit(_paths_model, tier)}


def _paths_conformance(v, sc, rows):
    def drv(scens, tag):
        if tag == "batch" and rows is not None:
            return rows
        return _paths_shards(scens, tag)
    orig = vf.save_replay
    vf.save_replay = lambda p, n, s, r, note: orig(p, PATHS_REPLAY0 + n, s, r, note)
    try:
        return vf.conformance(v, sc, drv, "Trace_SyncPaths", "Trace_SyncPaths.cfg", paths_features, paths_nontrivial,
                              chunk=None if len(sc) < 400 else 300)
    finally:
        vf.save_replay = orig


def paths_finish(v, h):
    try:
        sc, rows = h["prep"].result()
        _paths_conformance(v, sc, rows)
        for r in h["mc"].result():
            v.add_mc(r)
    finally:
        h["pool"].shutdown(wait=False)
    v.assumptions.append(
        "scheduling paths (spec/SyncPaths.tla): one wired instance per history - real controller, advanced scheduler (jobs "
        "started with RunJob, the chain clock moved by hand, no timer ever fires), wallet account manager over a filesystem "
        "store with real keystore accounts, validators manager, signer, sync committee messenger / aggregator / subscriber; "
        "scripted: the beacon node (validator records, sync committee duties per period, head root, contributions, "
        "submissions) and which accounts the store offers; SLOTS_PER_EPOCH = 2, EPOCHS_PER_SYNC_COMMITTEE_PERIOD = 8, "
        "preparation 5 epochs ahead (the code's constant), committee of 32 on 4 subnets with target 16 (every member is an "
        "aggregator); every signature succeeds; validators were activated long ago and never reach withdrawal_done")

# seconds on a quiet machine; the timeouts leave room for a machine that is busy with other work
MC_TIMEOUT = 2400


def _mc_lane(cfgs):
    return [vf.tlc_exhaustive(PID, "SyncCommittee", cfg, workers=4, timeout=MC_TIMEOUT) for cfg in cfgs]


# control designs (constant Deviation of SyncCommittee.tla): one zero signature at one signing step takes
# the whole slot / everybody's messages / everybody's contributions with it, or is remembered for later slots
CONTROLS = (("MC_SyncCommittee_dev_sel.cfg", "a zero selection signature leaves the slot without its message job"),
            ("MC_SyncCommittee_dev_root.cfg", "a zero root signature suppresses everybody's message"),
            ("MC_SyncCommittee_dev_cp.cfg", "a zero contribution-and-proof signature suppresses every contribution"),
            ("MC_SyncCommittee_dev_sticks.cfg", "a member whose selection signature failed once is left out of later slots"))


def selfcheck():
    """Vacuity self-check: the model must be able to SEE the class (broken run otherwise, never a verdict)."""
    for cfg, what in CONTROLS:
        r = vf.tlc(PID, "self-" + cfg.replace(".cfg", ""), "SyncCommittee", cfg, workers=2, timeout=1200)
        if r["timed_out"] or r["kind"] != "invariant" or r["violated"] != "MembersIndependent":
            raise vf.Broken("model self-check failed: %s (%s) does not violate MembersIndependent (%s %s)\n%s" % (
                cfg, what, r["kind"], r["violated"], r["out"][-1500:]))
        vf.log("model self-check: %s - MembersIndependent violated, as it must be (%d distinct states)" % (what, r["distinct"]))
    # ... and the same design passes while the alphabet has no zero SELECTION signature: why it went unseen before
    r = vf.tlc(PID, "self-blind", "SyncCommittee", "MC_SyncCommittee_dev_sel_blind.cfg", workers=2, timeout=1200)
    if not r["ok"]:
        raise vf.Broken("model self-check failed: MC_SyncCommittee_dev_sel_blind.cfg should pass (%s %s)" % (r["kind"], r["violated"]))
    vf.log("model self-check: the same design passes when the alphabet lacks the zero selection signature (%d distinct states)" % r["distinct"])


def run(tier):
    v = vf.Verdict(PID, tier)
    v.assumptions = [
        "sync committee duties, accounts, head root, contributions, clock and scheduler are scripted fakes at the "
        "services' interfaces; the beacon node and the submitters do not fail; the signer's faults are chosen anew "
        "at each signing step (selection proofs, roots, contribution-and-proofs) of every slot: the zero signature "
        "in the position of any subset of the members, or an error for the whole batch (after which the "
        "specification leaves the rest of that slot open)",
        "the selection scalar (little-endian uint64 of SHA-256(selection signature)[0:8]) is computed in Go from the "
        "signatures the signer returned and logged modulo 840; every modulus of the scenarios divides 840",
        "SLOTS_PER_EPOCH = 2 and EPOCHS_PER_SYNC_COMMITTEE_PERIOD = 2 in the conformance runs; a prepare job runs once (C02/C03)",
        "every third messenger scenario runs on the real signer/standard over in-memory wallet accounts (signatures "
        "verified with BLS; faults applied to its answers the way a multi-signer leaves a zero signature for an "
        "account that did not sign), the others on a scripted signer",
    ]
    # the exhaustive runs and the scenario generators are independent TLC processes: run them side by side
    ah = agg.start(PID, "B", tier)
    ph = paths_start(tier)
    with concurrent.futures.ThreadPoolExecutor(max_workers=5) as pool:
        gens = generate(tier, pool)
        mcs = [pool.submit(vf.tlc_exhaustive, PID, "SyncCommittee", "MC_SyncCommittee.cfg", workers=4, timeout=MC_TIMEOUT),
               pool.submit(_mc_lane, ["MC_SyncCommittee_window.cfg", "MC_SyncCommittee_two.cfg", "MC_SyncCommittee_err.cfg", "MC_SyncCommittee_roots.cfg"])]
        self_f = pool.submit(selfcheck)
        v.add_mc(mcs[0].result())
        for r in mcs[1].result():
            v.add_mc(r)
        self_f.result()
        sc = scenarios(tier, gens)
    bigpool, bigs = None, []
    if tier == "thorough":
        # the big exhaustive configurations run beside the conformance blocks
        bigpool = concurrent.futures.ThreadPoolExecutor(max_workers=2)
        bigs = [bigpool.submit(vf.tlc_exhaustive, PID, "SyncCommittee", "MC_SyncCommittee_big.cfg", workers=6, timeout=2400, heap="8g"),
                bigpool.submit(lambda: [vf.tlc_exhaustive(PID, "SyncCommittee", c, workers=4, timeout=1500)
                                        for c in ("MC_SyncCommittee_two_big.cfg", "MC_SyncCommittee_window_big.cfg")])]
    vf.conformance(v, sc, driver, "Trace_SyncCommittee", "Trace_SyncCommittee.cfg", sig_of, nontrivial,
                   chunk=None if tier == "quick" else 1500)
    if tier == "thorough":
        # a second geometry: 3 slots per epoch, 3 epochs per period, a 512-member committee on 4 subnets
        hs = vf.tlc_scenarios(PID, "Scen_SyncCommittee", "Scen_SyncCommittee_b.cfg", num=1500, depth=11, name="scen-b",
                              aseed=vf.seed() + 3000)
        random.Random(vf.seed()).shuffle(hs)
        scb = []
        for i, h in enumerate(hs[:4000]):
            scb.append({"sc": 100000 + i, "signer": "real" if i % 3 == 0 else "scripted",
                        "spe": 3, "epp": 3, "steps": h})
        vf.conformance(v, scb, driver, "Trace_SyncCommittee", "Trace_SyncCommittee_b.cfg", sig_of, nontrivial, chunk=1500)
    # additional conformance block: what the aggregation jobs set up above do when they run
    # (synccommitteeaggregator/standard SetBeaconBlockRoot / Aggregate against pipeline B of Aggregation.tla)
    agg.finish(v, ah)
    # the scheduling-path family (its exhaustive runs, scenarios and driver ran beside everything above)
    paths_finish(v, ph)
    if bigpool is not None:
        v.add_mc(bigs[0].result())
        for r in bigs[1].result():
            v.add_mc(r)
        bigpool.shutdown()
    v.coverage["rule"] = ("behaviours of SyncCommittee.tla generated by TLC simulation (seeded; a messenger-centred and a "
                          "window-centred constant set), replayed on the real controller + sync committee messenger + "
                          "aggregator (+ real signer for a third); non-trivial = a Schedule with a non-empty window or a "
                          "message job with a member that has an account and a signature; distinct by step list and signer.  Aggregation "
                          "pipeline: every one-job behaviour of Scen_Aggregation (B) enumerated by TLC plus simulated "
                          "two-job histories (quick: a seeded sample with every outcome class), replayed on the real "
                          "synccommitteeaggregator; non-trivial = a contribution was obtained.  Scheduling paths: behaviours "
                          "of SyncPaths.tla (three seeded constant sets: refresh-, fork-centred, general) with the classes "
                          "'the jobs of a slot set up by path X ran with a member outside the validating set' forced in for "
                          "each of the four paths, each on one wired instance; non-trivial = the jobs of a slot ran whose "
                          "duty has a member with an account")
    return v.finish()


def replay(path):
    v = vf.Verdict(PID, "quick")
    with open(os.path.join(path, "scenario.json")) as fh:
        s = json.load(fh)
    if agg.is_mine(s):
        agg.replay(v, PID, s)
        return 1 if v.violations else 0
    if s.get("family") == "paths":
        _paths_conformance(v, [s], None)
        return 1 if v.violations else 0
    cfg = "Trace_SyncCommittee_b.cfg" if s.get("spe", SPE) == 3 else "Trace_SyncCommittee.cfg"
    vf.conformance(v, [s], driver, "Trace_SyncCommittee", cfg, sig_of, nontrivial)
    return 1 if v.violations else 0
