"""C15 — sync committee members message every slot of their period, independently
(spec/SyncCommittee.tla)."""
import concurrent.futures
import importlib.util
import json
import os
import random
import re
import vf

PID = "C15"
PKG = "./services/controller/standard"
TEST = "TestVerifC15"
SPE, EPP = 2, 2       # SLOTS_PER_EPOCH / EPOCHS_PER_SYNC_COMMITTEE_PERIOD of Scen_/Trace_SyncCommittee*.cfg


def _own_overlay(pid):
    """Overlay of this check: the shared files plus this property's drivers.  Drivers of other
    properties that live in the same Go package are left out, so that work in progress on them
    cannot break this build (they are test files; nothing here depends on them)."""
    repl = {}
    mine = re.compile(r"zz_verif_(%s|agg)(_|\.)" % pid.lower())
    other = re.compile(r"zz_verif_[a-z0-9]+")
    for root, _dirs, files in os.walk(vf.OVERLAY):
        for f in files:
            if f.endswith("~") or f.startswith("."):
                continue
            if f.endswith("_test.go") and other.match(f) and not mine.match(f):
                continue
            src = os.path.join(root, f)
            rel = os.path.relpath(src, vf.OVERLAY)
            dst = os.path.join(vf.REPO, rel)
            if os.path.exists(dst):
                raise vf.Broken("overlay file would replace an existing repository file: %s" % rel)
            repl[dst] = src
    p = os.path.join(vf.outdir(pid), "overlay.json")
    with open(p, "w") as fh:
        json.dump({"Replace": repl}, fh, indent=1)
    return p


vf.overlay_file = _own_overlay

# the aggregation pipeline that the aggregation jobs of this property start (spec/Aggregation.tla, pipeline B)
_spec = importlib.util.spec_from_file_location(
    "check_aggregation", os.path.join(os.path.dirname(os.path.abspath(__file__)), "aggregation.py"))
agg = importlib.util.module_from_spec(_spec)
_spec.loader.exec_module(agg)


def driver(scenarios, tag):
    return vf.run_driver(PID, PKG, TEST, scenarios, tag)


def _window(period, at, fork, spe, epp):
    start = max(period * epp, fork)
    first = start * spe
    first = max(first - 1 if first > 0 else 0, at)
    last = max((period + 1) * epp, fork) * spe - 2
    return list(range(first, last + 1))


def features(s):
    """What a scenario exercises (to pick and describe scenarios and to match known findings on the
    specific input; never for the verdict)."""
    steps = s["steps"]
    spe, epp = s.get("spe", SPE), s.get("epp", EPP)
    now, fork = steps[0]["now"], steps[0]["fork"]
    members = {}
    f = {"signer": s.get("signer", "scripted"), "schedule_from_epoch0": False, "schedule_before_fork": False,
         "window": False, "message_with_missing_account": False, "message_with_zero_signature": False,
         "message": False, "aggregate": False, "aggregate_after_head_change": False}
    messaged_head = {}
    head = steps[0]["head"]
    for st in steps[1:]:
        ev = st["ev"]
        if ev == "Member":
            members[st["v"]] = st
        elif ev == "Advance":
            now = st["now"]
        elif ev == "Head":
            head = st["root"]
        elif ev == "Schedule":
            period = st["epoch"] // epp
            if now // spe < fork:
                f["schedule_before_fork"] = True
            else:
                w = [x for x in _window(period, now, fork, spe, epp) if not (st["nc"] and x == now)]
                f["window"] |= bool(w)
                # the slot before the first slot of the period does not exist: first period of the chain
                if max(period * epp, fork) == 0 and now // spe == 0 and w:
                    f["schedule_from_epoch0"] = True
        elif ev == "FireMessage":
            healthy = [m for m in members.values() if m["acct"] and not (m["zero"] and f["signer"] == "scripted")]
            if healthy:
                f["message"] = True
                if any(not m["acct"] for m in members.values()):
                    f["message_with_missing_account"] = True
                if f["signer"] == "scripted" and any(m["acct"] and m["zero"] for m in members.values()):
                    f["message_with_zero_signature"] = True
            messaged_head[st["slot"]] = head
        elif ev == "FireAggregate":
            f["aggregate"] = True
            if messaged_head.get(st["slot"]) not in (None, head):
                f["aggregate_after_head_change"] = True
    return f


def sig_of(s):
    return features(s)


def nontrivial(s, rows):
    # exercises an antecedent: a Schedule with a non-empty window, or a message job with a healthy member
    f = features(s)
    return f["window"] or f["message"]


def generate(tier, pool):
    """Start the three scenario generators (TLC simulation) on the thread pool."""
    quick = tier == "quick"
    return [
        pool.submit(vf.tlc_scenarios, PID, "Scen_SyncCommittee", "Scen_SyncCommittee.cfg", num=260 if quick else 2000,
                    depth=12, name="scen-mess"),
        pool.submit(vf.tlc_scenarios, PID, "Scen_SyncCommittee", "Scen_SyncCommittee_window.cfg", num=60 if quick else 1200,
                    depth=8, name="scen-window", aseed=vf.seed() + 1000),
        pool.submit(vf.tlc_scenarios, PID, "Scen_SyncCommittee", "Scen_SyncCommittee_genesis.cfg", num=40 if quick else 600,
                    depth=7, name="scen-genesis", aseed=vf.seed() + 2000),
    ]


def scenarios(tier, futures=None):
    quick = tier == "quick"
    if futures is None:
        with concurrent.futures.ThreadPoolExecutor(max_workers=3) as pool:
            futures = generate(tier, pool)
            mess, wind, gen = [f.result() for f in futures]
    else:
        mess, wind, gen = [f.result() for f in futures]
    rnd = random.Random(vf.seed())
    rnd.shuffle(mess)
    rnd.shuffle(wind)
    rnd.shuffle(gen)
    wind = gen[:(120 if quick else 2000)] + wind
    cap_m, cap_w = (260, 260) if quick else (5000, 5000)
    out = []

    def add(h, signer):
        out.append({"sc": len(out) + 1, "signer": signer, "spe": SPE, "epp": EPP, "steps": h})

    # window scenarios: make sure the chain start and a start before the fork are present, then fill
    picked, seen = [], set()

    def take(h, lim):
        k = json.dumps(h, sort_keys=True)
        if k not in seen and len(picked) < lim:
            seen.add(k)
            picked.append(h)

    for key in ("schedule_from_epoch0", "schedule_before_fork"):
        n = 0
        for h in wind:
            if features({"steps": h})[key]:
                take(h, cap_w)
                n += 1
                if n >= (20 if quick else 300):
                    break
    for h in wind:
        take(h, cap_w)
    for h in picked:
        add(h, "scripted")
    # messenger scenarios: every third one that has no zero-signature member runs on the real signer
    # (the real signer cannot be made to return a zero signature); force the fault classes in
    picked, seen = [], set()
    for key in ("message_with_missing_account", "message_with_zero_signature", "aggregate_after_head_change"):
        n = 0
        for h in mess:
            if features({"steps": h, "signer": "scripted"})[key]:
                take(h, cap_m)
                n += 1
                if n >= (25 if quick else 400):
                    break
    for h in mess:
        take(h, cap_m)
    k = 0
    for h in picked:
        zero = any(st["ev"] == "Member" and st["acct"] and st["zero"] for st in h)
        missing = any(st["ev"] == "Member" and not st["acct"] for st in h)
        signer = "scripted"
        if not zero:
            k += 1
            if k % 3 == 0 or (missing and k % 3 == 1):
                signer = "real"
        add(h, signer)
    return out


def run(tier):
    v = vf.Verdict(PID, tier)
    v.assumptions = [
        "sync committee duties, accounts, head root, contributions, clock and scheduler are scripted fakes at the "
        "services' interfaces; the beacon node and the submitters do not fail; the signer fails only per member "
        "(missing account, zero signature), never for a whole batch",
        "the selection scalar (little-endian uint64 of SHA-256(selection signature)[0:8]) is computed in Go from the "
        "signatures the signer returned and logged modulo 840; every modulus of the scenarios divides 840",
        "SLOTS_PER_EPOCH = 2 and EPOCHS_PER_SYNC_COMMITTEE_PERIOD = 2 in the conformance runs; a prepare job runs once (C02/C03)",
        "every third messenger scenario without a zero-signature member runs on the real signer/standard over in-memory "
        "wallet accounts (signatures verified with BLS), the others on a scripted signer",
    ]
    # the exhaustive runs and the scenario generators are independent TLC processes: run them side by side
    ah = agg.start(PID, "B", tier)
    with concurrent.futures.ThreadPoolExecutor(max_workers=5) as pool:
        gens = generate(tier, pool)
        mcs = [pool.submit(vf.tlc_exhaustive, PID, "SyncCommittee", "MC_SyncCommittee.cfg", workers=4),
               pool.submit(vf.tlc_exhaustive, PID, "SyncCommittee", "MC_SyncCommittee_window.cfg", workers=4)]
        for f in mcs:
            v.add_mc(f.result())
        sc = scenarios(tier, gens)
    if tier == "thorough":
        v.add_mc(vf.tlc_exhaustive(PID, "SyncCommittee", "MC_SyncCommittee_big.cfg", coverage=True, timeout=1200))
        v.add_mc(vf.tlc_exhaustive(PID, "SyncCommittee", "MC_SyncCommittee_window_big.cfg", timeout=1200))
    vf.conformance(v, sc, driver, "Trace_SyncCommittee", "Trace_SyncCommittee.cfg", sig_of, nontrivial,
                   chunk=None if tier == "quick" else 1500)
    if tier == "thorough":
        # a second geometry: 3 slots per epoch, 3 epochs per period, a 512-member committee on 4 subnets
        hs = vf.tlc_scenarios(PID, "Scen_SyncCommittee", "Scen_SyncCommittee_b.cfg", num=1500, depth=11, name="scen-b",
                              aseed=vf.seed() + 3000)
        random.Random(vf.seed()).shuffle(hs)
        scb = []
        for i, h in enumerate(hs[:4000]):
            zero = any(st["ev"] == "Member" and st["acct"] and st["zero"] for st in h)
            scb.append({"sc": 100000 + i, "signer": "real" if (not zero and i % 3 == 0) else "scripted",
                        "spe": 3, "epp": 3, "steps": h})
        vf.conformance(v, scb, driver, "Trace_SyncCommittee", "Trace_SyncCommittee_b.cfg", sig_of, nontrivial, chunk=1500)
    # additional conformance block: what the aggregation jobs set up above do when they run
    # (synccommitteeaggregator/standard SetBeaconBlockRoot / Aggregate against pipeline B of Aggregation.tla)
    agg.finish(v, ah)
    v.coverage["rule"] = ("behaviours of SyncCommittee.tla generated by TLC simulation (seeded; a messenger-centred and a "
                          "window-centred constant set), replayed on the real controller + sync committee messenger + "
                          "aggregator (+ real signer for a third); non-trivial = a Schedule with a non-empty window or a "
                          "message job with a healthy member; distinct by step list and signer.  Aggregation "
                          "pipeline: every one-job behaviour of Scen_Aggregation (B) enumerated by TLC plus simulated "
                          "two-job histories (quick: a seeded sample with every outcome class), replayed on the real "
                          "synccommitteeaggregator; non-trivial = a contribution was obtained")
    return v.finish()


def replay(path):
    v = vf.Verdict(PID, "quick")
    with open(os.path.join(path, "scenario.json")) as fh:
        s = json.load(fh)
    if agg.is_mine(s):
        agg.replay(v, PID, s)
        return 1 if v.violations else 0
    cfg = "Trace_SyncCommittee_b.cfg" if s.get("spe", SPE) == 3 else "Trace_SyncCommittee.cfg"
    vf.conformance(v, [s], driver, "Trace_SyncCommittee", cfg, sig_of, nontrivial)
    return 1 if v.violations else 0
