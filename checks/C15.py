"""C15 — sync committee members message every slot of their period, independently
(spec/SyncCommittee.tla)."""
import concurrent.futures
import importlib.util
import json
import os
import random
import re
import vf

PID = "C15"
PKG = "./services/controller/standard"
TEST = "TestVerifC15"
SPE, EPP = 2, 2       # SLOTS_PER_EPOCH / EPOCHS_PER_SYNC_COMMITTEE_PERIOD of Scen_/Trace_SyncCommittee*.cfg


def _own_overlay(pid):
    """Overlay of this check: the shared files plus this property's drivers.  Drivers of other
    properties that live in the same Go package are left out, so that work in progress on them
    cannot break this build (they are test files; nothing here depends on them)."""
    repl = {}
    mine = re.compile(r"zz_verif_(%s|agg)(_|\.)" % pid.lower())
    other = re.compile(r"zz_verif_[a-z0-9]+")
    for root, _dirs, files in os.walk(vf.OVERLAY):
        for f in files:
            if f.endswith("~") or f.startswith("."):
                continue
            if f.endswith("_test.go") and other.match(f) and not mine.match(f):
                continue
            src = os.path.join(root, f)
            rel = os.path.relpath(src, vf.OVERLAY)
            dst = os.path.join(vf.REPO, rel)
            if os.path.exists(dst):
                raise vf.Broken("overlay file would replace an existing repository file: %s" % rel)
            repl[dst] = src
    p = os.path.join(vf.outdir(pid), "overlay.json")
    with open(p, "w") as fh:
        json.dump({"Replace": repl}, fh, indent=1)
    return p


vf.overlay_file = _own_overlay

# the aggregation pipeline that the aggregation jobs of this property start (spec/Aggregation.tla, pipeline B)
_spec = importlib.util.spec_from_file_location(
    "check_aggregation", os.path.join(os.path.dirname(os.path.abspath(__file__)), "aggregation.py"))
agg = importlib.util.module_from_spec(_spec)
_spec.loader.exec_module(agg)


def driver(scenarios, tag):
    return vf.run_driver(PID, PKG, TEST, scenarios, tag)


def _window(period, at, fork, spe, epp):
    start = max(period * epp, fork)
    first = start * spe
    first = max(first - 1 if first > 0 else 0, at)
    last = max((period + 1) * epp, fork) * spe - 2
    return list(range(first, last + 1))


def features(s):
    """What a scenario exercises (to pick and describe scenarios and to match known findings on the
    specific input; never for the verdict)."""
    steps = s["steps"]
    spe, epp = s.get("spe", SPE), s.get("epp", EPP)
    now, fork = steps[0]["now"], steps[0]["fork"]
    members = {}
    f = {"signer": s.get("signer", "scripted"), "schedule_from_epoch0": False, "schedule_before_fork": False,
         "window": False, "message_with_missing_account": False, "message_with_zero_signature": False,
         "message": False, "aggregate": False, "aggregate_after_head_change": False,
         # the signer's faults, per signing step: a zero signature for one member while another member's is
         # given (and the follow-up step of that slot is asked for); an error for the whole batch
         "sel_zero_one_of_several": False, "sel_zero_only_fault_of_slot": False, "root_zero_one_of_several": False,
         "cp_zero_one_of_several": False, "sel_err": False, "root_err": False, "cp_err": False,
         "clean_slot_beside_faulty_slot": False}
    messaged_head = {}
    head = steps[0]["head"]
    selzero, selerr, faulty, clean = {}, set(), set(), set()
    for st in steps[1:]:
        ev = st["ev"]
        if ev == "Member":
            members[st["v"]] = st
        elif ev == "Advance":
            now = st["now"]
        elif ev == "Head":
            head = st["root"]
        elif ev == "Schedule":
            period = st["epoch"] // epp
            if now // spe < fork:
                f["schedule_before_fork"] = True
            else:
                w = [x for x in _window(period, now, fork, spe, epp) if not (st["nc"] and x == now)]
                f["window"] |= bool(w)
                # the slot before the first slot of the period does not exist: first period of the chain
                if max(period * epp, fork) == 0 and now // spe == 0 and w:
                    f["schedule_from_epoch0"] = True
        elif ev == "FirePrepare":
            zs = {x["v"] for x in st["hs"] if x.get("z")}
            selzero[st["slot"]] = zs
            if st.get("err"):
                f["sel_err"] = True
                selerr.add(st["slot"])
            if zs or st.get("err"):
                faulty.add(st["slot"])
        elif ev == "FireMessage":
            slot = st["slot"]
            accts = {v for v, m in members.items() if m["acct"]}
            zv = set(st.get("zv", []))
            healthy = accts - zv
            if st.get("err"):
                f["root_err"] = True
                faulty.add(slot)
            elif healthy:
                f["message"] = True
                if len(accts) < len(members):
                    f["message_with_missing_account"] = True
                if zv:
                    f["message_with_zero_signature"] = f["root_zero_one_of_several"] = True
                    faulty.add(slot)
                zs = selzero.get(slot, set())
                if zs and accts - zs:
                    f["sel_zero_one_of_several"] = True
                    if not zv:
                        f["sel_zero_only_fault_of_slot"] = True
                if slot not in faulty:
                    clean.add(slot)
            messaged_head[slot] = head
        elif ev == "FireAggregate":
            f["aggregate"] = True
            if messaged_head.get(st["slot"]) not in (None, head):
                f["aggregate_after_head_change"] = True
            if st.get("err"):
                f["cp_err"] = True
            elif st.get("zp"):
                f["cp_zero_one_of_several"] = True
    f["clean_slot_beside_faulty_slot"] = bool(clean) and bool(faulty)
    return f


FAULT_KEYS = ("sel_zero_one_of_several", "root_zero_one_of_several", "cp_zero_one_of_several", "sel_err", "root_err", "cp_err")


def _any_fault(h):
    return any(st.get("err") or st.get("zv") or st.get("zp") or any(x.get("z") for x in st.get("hs", [])) for st in h)


def sig_of(s):
    return features(s)


def nontrivial(s, rows):
    # exercises an antecedent: a Schedule with a non-empty window, or a message job with a healthy member
    f = features(s)
    return f["window"] or f["message"]


def generate(tier, pool):
    """Start the three scenario generators (TLC simulation) on the thread pool."""
    quick = tier == "quick"
    return [
        pool.submit(vf.tlc_scenarios, PID, "Scen_SyncCommittee", "Scen_SyncCommittee.cfg", num=900 if quick else 6000,
                    depth=12, name="scen-mess"),
        pool.submit(vf.tlc_scenarios, PID, "Scen_SyncCommittee", "Scen_SyncCommittee_window.cfg", num=60 if quick else 1200,
                    depth=8, name="scen-window", aseed=vf.seed() + 1000),
        pool.submit(vf.tlc_scenarios, PID, "Scen_SyncCommittee", "Scen_SyncCommittee_genesis.cfg", num=40 if quick else 600,
                    depth=7, name="scen-genesis", aseed=vf.seed() + 2000),
    ]


def scenarios(tier, futures=None):
    quick = tier == "quick"
    if futures is None:
        with concurrent.futures.ThreadPoolExecutor(max_workers=3) as pool:
            futures = generate(tier, pool)
            mess, wind, gen = [f.result() for f in futures]
    else:
        mess, wind, gen = [f.result() for f in futures]
    rnd = random.Random(vf.seed())
    rnd.shuffle(mess)
    rnd.shuffle(wind)
    rnd.shuffle(gen)
    wind = gen[:(120 if quick else 2000)] + wind
    cap_m, cap_w = (260, 260) if quick else (5000, 5000)
    out = []

    def add(h, signer):
        out.append({"sc": len(out) + 1, "signer": signer, "spe": SPE, "epp": EPP, "steps": h})

    # window scenarios: make sure the chain start and a start before the fork are present, then fill
    picked, seen = [], set()

    def take(h, lim):
        k = json.dumps(h, sort_keys=True)
        if k not in seen and len(picked) < lim:
            seen.add(k)
            picked.append(h)

    for key in ("schedule_from_epoch0", "schedule_before_fork"):
        n = 0
        for h in wind:
            if features({"steps": h})[key]:
                take(h, cap_w)
                n += 1
                if n >= (20 if quick else 300):
                    break
    for h in wind:
        take(h, cap_w)
    for h in picked:
        add(h, "scripted")
    # messenger scenarios: force the fault classes in (a zero signature for one of several members at each
    # of the three signing steps, an error for each kind of batch, a clean slot beside a faulty one, a
    # missing account, a head change before the aggregation), then fill up.  Every third one (and more of
    # those with a missing account) runs on the real signer, whose answers get the same faults applied.
    picked, seen = [], set()
    feats = [(h, features({"steps": h, "signer": "scripted"})) for h in mess]
    for key, n_q, n_t in (("sel_zero_only_fault_of_slot", 30, 400), ("sel_zero_one_of_several", 20, 300),
                          ("root_zero_one_of_several", 20, 300), ("cp_zero_one_of_several", 20, 300),
                          ("sel_err", 10, 150), ("root_err", 10, 150), ("cp_err", 10, 150),
                          ("clean_slot_beside_faulty_slot", 20, 300), ("message_with_missing_account", 20, 300),
                          ("aggregate_after_head_change", 20, 300)):
        n = 0
        for h, f in feats:
            if f[key]:
                take(h, cap_m)
                n += 1
                if n >= (n_q if quick else n_t):
                    break
    # histories without any signer fault keep their share (the rule, the roots, the window)
    n = 0
    for h, f in feats:
        if not any(f[k] for k in FAULT_KEYS) and not _any_fault(h):
            take(h, cap_m)
            n += 1
            if n >= (60 if quick else 1000):
                break
    for h in mess:
        take(h, cap_m)
    k = 0
    for h in picked:
        missing = any(st["ev"] == "Member" and not st["acct"] for st in h)
        k += 1
        add(h, "real" if (k % 3 == 0 or (missing and k % 3 == 1)) else "scripted")
    return out


def _mc_lane(cfgs):
    return [vf.tlc_exhaustive(PID, "SyncCommittee", cfg, workers=4) for cfg in cfgs]


# control designs (constant Deviation of SyncCommittee.tla): one zero signature at one signing step takes
# the whole slot / everybody's messages / everybody's contributions with it, or is remembered for later slots
CONTROLS = (("MC_SyncCommittee_dev_sel.cfg", "a zero selection signature leaves the slot without its message job"),
            ("MC_SyncCommittee_dev_root.cfg", "a zero root signature suppresses everybody's message"),
            ("MC_SyncCommittee_dev_cp.cfg", "a zero contribution-and-proof signature suppresses every contribution"),
            ("MC_SyncCommittee_dev_sticks.cfg", "a member whose selection signature failed once is left out of later slots"))


def selfcheck():
    """Vacuity self-check: the model must be able to SEE the class (broken run otherwise, never a verdict)."""
    for cfg, what in CONTROLS:
        r = vf.tlc(PID, "self-" + cfg.replace(".cfg", ""), "SyncCommittee", cfg, workers=2, timeout=600)
        if r["timed_out"] or r["kind"] != "invariant" or r["violated"] != "MembersIndependent":
            raise vf.Broken("model self-check failed: %s (%s) does not violate MembersIndependent (%s %s)\n%s" % (
                cfg, what, r["kind"], r["violated"], r["out"][-1500:]))
        vf.log("model self-check: %s - MembersIndependent violated, as it must be (%d distinct states)" % (what, r["distinct"]))
    # ... and the same design passes while the alphabet has no zero SELECTION signature: why it went unseen before
    r = vf.tlc(PID, "self-blind", "SyncCommittee", "MC_SyncCommittee_dev_sel_blind.cfg", workers=2, timeout=600)
    if not r["ok"]:
        raise vf.Broken("model self-check failed: MC_SyncCommittee_dev_sel_blind.cfg should pass (%s %s)" % (r["kind"], r["violated"]))
    vf.log("model self-check: the same design passes when the alphabet lacks the zero selection signature (%d distinct states)" % r["distinct"])


def run(tier):
    v = vf.Verdict(PID, tier)
    v.assumptions = [
        "sync committee duties, accounts, head root, contributions, clock and scheduler are scripted fakes at the "
        "services' interfaces; the beacon node and the submitters do not fail; the signer's faults are chosen anew "
        "at each signing step (selection proofs, roots, contribution-and-proofs) of every slot: the zero signature "
        "in the position of any subset of the members, or an error for the whole batch (after which the "
        "specification leaves the rest of that slot open)",
        "the selection scalar (little-endian uint64 of SHA-256(selection signature)[0:8]) is computed in Go from the "
        "signatures the signer returned and logged modulo 840; every modulus of the scenarios divides 840",
        "SLOTS_PER_EPOCH = 2 and EPOCHS_PER_SYNC_COMMITTEE_PERIOD = 2 in the conformance runs; a prepare job runs once (C02/C03)",
        "every third messenger scenario runs on the real signer/standard over in-memory wallet accounts (signatures "
        "verified with BLS; faults applied to its answers the way a multi-signer leaves a zero signature for an "
        "account that did not sign), the others on a scripted signer",
    ]
    # the exhaustive runs and the scenario generators are independent TLC processes: run them side by side
    ah = agg.start(PID, "B", tier)
    with concurrent.futures.ThreadPoolExecutor(max_workers=5) as pool:
        gens = generate(tier, pool)
        mcs = [pool.submit(vf.tlc_exhaustive, PID, "SyncCommittee", "MC_SyncCommittee.cfg", workers=4),
               pool.submit(_mc_lane, ["MC_SyncCommittee_window.cfg", "MC_SyncCommittee_two.cfg", "MC_SyncCommittee_err.cfg", "MC_SyncCommittee_roots.cfg"])]
        self_f = pool.submit(selfcheck)
        v.add_mc(mcs[0].result())
        for r in mcs[1].result():
            v.add_mc(r)
        self_f.result()
        sc = scenarios(tier, gens)
    bigpool, bigs = None, []
    if tier == "thorough":
        # the big exhaustive configurations run beside the conformance blocks
        bigpool = concurrent.futures.ThreadPoolExecutor(max_workers=2)
        bigs = [bigpool.submit(vf.tlc_exhaustive, PID, "SyncCommittee", "MC_SyncCommittee_big.cfg", workers=6, timeout=2400, heap="8g"),
                bigpool.submit(lambda: [vf.tlc_exhaustive(PID, "SyncCommittee", c, workers=4, timeout=1500)
                                        for c in ("MC_SyncCommittee_two_big.cfg", "MC_SyncCommittee_window_big.cfg")])]
    vf.conformance(v, sc, driver, "Trace_SyncCommittee", "Trace_SyncCommittee.cfg", sig_of, nontrivial,
                   chunk=None if tier == "quick" else 1500)
    if tier == "thorough":
        # a second geometry: 3 slots per epoch, 3 epochs per period, a 512-member committee on 4 subnets
        hs = vf.tlc_scenarios(PID, "Scen_SyncCommittee", "Scen_SyncCommittee_b.cfg", num=1500, depth=11, name="scen-b",
                              aseed=vf.seed() + 3000)
        random.Random(vf.seed()).shuffle(hs)
        scb = []
        for i, h in enumerate(hs[:4000]):
            scb.append({"sc": 100000 + i, "signer": "real" if i % 3 == 0 else "scripted",
                        "spe": 3, "epp": 3, "steps": h})
        vf.conformance(v, scb, driver, "Trace_SyncCommittee", "Trace_SyncCommittee_b.cfg", sig_of, nontrivial, chunk=1500)
    # additional conformance block: what the aggregation jobs set up above do when they run
    # (synccommitteeaggregator/standard SetBeaconBlockRoot / Aggregate against pipeline B of Aggregation.tla)
    agg.finish(v, ah)
    if bigpool is not None:
        v.add_mc(bigs[0].result())
        for r in bigs[1].result():
            v.add_mc(r)
        bigpool.shutdown()
    v.coverage["rule"] = ("behaviours of SyncCommittee.tla generated by TLC simulation (seeded; a messenger-centred and a "
                          "window-centred constant set), replayed on the real controller + sync committee messenger + "
                          "aggregator (+ real signer for a third); non-trivial = a Schedule with a non-empty window or a "
                          "message job with a member that has an account and a signature; distinct by step list and signer.  Aggregation "
                          "pipeline: every one-job behaviour of Scen_Aggregation (B) enumerated by TLC plus simulated "
                          "two-job histories (quick: a seeded sample with every outcome class), replayed on the real "
                          "synccommitteeaggregator; non-trivial = a contribution was obtained")
    return v.finish()


def replay(path):
    v = vf.Verdict(PID, "quick")
    with open(os.path.join(path, "scenario.json")) as fh:
        s = json.load(fh)
    if agg.is_mine(s):
        agg.replay(v, PID, s)
        return 1 if v.violations else 0
    cfg = "Trace_SyncCommittee_b.cfg" if s.get("spe", SPE) == 3 else "Trace_SyncCommittee.cfg"
    vf.conformance(v, [s], driver, "Trace_SyncCommittee", cfg, sig_of, nontrivial)
    return 1 if v.violations else 0
