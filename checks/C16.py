"""C16 — no data from a beacon node, relay or configuration can crash Vouch (spec/Robustness.tla).

TLC enumerates the shape lattice of every entry point (Scen_Robustness); the drivers in
overlay/verifdrivers/c16 build the concrete input of every shape and call the real code END TO END
(decode, then every consumer of the decoded value: spec actions Decoded / Use; defer/recover
in a child goroutine, inside a child process so that panics in goroutines Vouch starts are observed
too); TLC validates the recorded trace against Trace_Robustness, whose vocabulary contains the event
Crash but no action producing it.

HISTORIES (spec/RobustnessInst.tla): the objects that consume outside data live as long as the process, so
what one call leaves in such an object (a memo, a flag, a lock) is a second path from an outside input
to code.  TLC generates histories of calls on ONE long-lived instance per scenario (Scen_RobustnessInst:
for every lattice point s the histories  s, s, probe, t  and  s||t, s||s, s||probe, probe  - the first
call of a pair is held at a gate inside the instance's surroundings while the second runs - plus random
heterogeneous histories); the drivers keep one real instance per history; TLC validates the recorded
history against Trace_RobustnessInst: no Crash, no Hung (a call that never came back), every call ends
ok / error / fallback, and the well-formed probe input yields after any history what it yields on a
fresh instance (HistoryIndependent).  Control designs that are right on every fresh instance
(RobustnessMemo: nil memo, poisoned flag, kept lock, shared scratch) must be rejected by TLC: vacuity
self-checks of the history invariants.

Own loop instead of vf.conformance (one crash site is usually reached by many lattice points):
  * the scenarios whose trace has no Crash line are validated in one batch (rejections there are
    handled like in vf.conformance: attributed, confirmed, reported);
  * the scenarios with a Crash line are grouped by (matching open finding, entry point, crashing
    frame); for one representative per group the scenario is re-run alone (must crash again, else the
    run is broken), its new trace is validated by TLC (the rejection is the verdict) and reported with
    the list of all shapes of the group.
"""
import json
import os
import random
import subprocess
import time
from concurrent.futures import ThreadPoolExecutor
import vf

PID = "C16"
PKG = "./verifdrivers/c16"
TEST = "TestVerifC16"
ALL_EPS = ["execv2", "execv1", "execmutate", "execdoc", "execservice", "graffiti", "builderbid", "proposalbest", "proposer", "attester", "aggregator",
           "syncmessenger", "syncaggregator", "mergeduties", "cacheevents", "submitclassify"]
# the all-benign shape of every entry point: must end "ok", otherwise the harness does not reach the code
BASELINE = {
    "execv2": {"version": "2", "top": "all", "relays": "one", "proposers": "account", "prelays": "one", "match": "y"},
    "execv1": {"version": "absent", "dflt": "full", "pc": "one", "brelays": "one", "match": "y"},
    "execmutate": {"base": "v2", "site": "0", "mut": "duplicate"},
    "execdoc": {"doc": "valid2"},
    "execservice": {"doc": "valid2", "source": "file", "prior": "none", "addr": "good", "pk": "none", "strat": "best",
                    "bid": "valid", "bid2": "same", "bid3": "same"},
    "graffiti": {"file": "one", "fallback": "none", "loc": "plain", "use": "call", "nodeclient": "na"},
    "builderbid": {"strat": "best", "addr": "good", "bid": "valid", "bid2": "same", "bid3": "same", "second": "none", "pkcfg": "none"},
    "proposalbest": {"strat": "best", "graffiti": "plain", "clen": "10", "nodeclient": "ok", "nodeclient1": "na", "proposal": "ok", "n": "1"},
    "proposer": {"auction": "none", "ver": "deneb", "blinded": "n", "body": "valid", "unblind": "ok", "graffiti": "none", "nodeclient": "ok"},
    "attester": {"body": "valid", "slot": "64", "duty": "one", "style": "direct", "node1": "none"},
    "aggregator": {"body": "valid", "slot": "64", "account": "present", "style": "direct", "node1": "none"},
    "syncmessenger": {"body": "valid", "accounts": "all", "slot": "64", "style": "direct", "node1": "none"},
    "syncaggregator": {"body": "valid", "root": "known", "slot": "64", "style": "direct", "node1": "none"},
    "mergeduties": {"n": "3", "dup": "none", "range": "ok", "zero": "none", "entry": "ok"},
    "cacheevents": {"event": "head", "ver": "deneb", "body": "valid", "style": "direct", "node1": "none"},
    "submitclassify": {"op": "messages", "server": "lighthouse", "err": "known"},
}
MAX_GROUPS = 16
LONG_LIVED = ["execservice", "graffiti", "builderbid", "proposalbest", "proposer", "attester", "aggregator",
              "syncmessenger", "syncaggregator", "mergeduties", "cacheevents", "submitclassify"]
# control designs (spec/RobustnessMemo.tla): cfg suffix -> the invariant TLC must report (None = must pass)
# control designs for the auxiliary requests (spec/RobustnessAux.tla)
AUX_SELF_CHECKS = {"narrow": None, "checked": None, "caller": None, "deref": "KeepsRunning", "goroutine": "KeepsRunning",
                   "kindsplit": "KeepsRunning"}
# control designs for the poll sequences of one relay within one auction (spec/RobustnessPoll.tla)
POLL_SELF_CHECKS = {"checked": None, "diagonal": None, "best": None, "caller": None, "firstraw": "KeepsRunning", "noguard": "KeepsRunning"}
SELF_CHECKS = {"fresh": None, "shared_seq": None, "nilmemo": "KeepsRunning", "poison": "HistoryIndependent",
               "lock": "MTotal", "shared": "KeepsRunning"}


def eps():
    e = os.environ.get("VERIF_C16_EPS")
    return [x for x in e.split(",") if x] if e else ALL_EPS


_BUILT = {}


def build():
    """The driver package exists only in the overlay (no directory in the repository), so `go test`
    cannot chdir into it: the test binary is built with -c and run by this script."""
    key = vf.REPO
    if key in _BUILT:
        return _BUILT[key]
    binp = os.path.join(vf.outdir(PID), "c16.test")
    if os.path.exists(binp):
        os.remove(binp)
    rc, out, dt = vf.go_test(PID, PKG, "^%s$" % TEST, timeout=900, extra_args=["-c", "-o", binp])
    if rc != 0 or not os.path.exists(binp):
        raise vf.Broken("driver does not build against the current tree:\n" + out[-4000:])
    vf.log("driver built (%.1fs)" % dt)
    _BUILT[key] = binp
    return binp


def driver(scenarios, tag, timeout=1500):
    binp = build()
    d = vf.outdir(PID)
    sp = os.path.join(d, "scenarios-%s.ndjson" % tag)
    tp = os.path.join(d, "trace-%s.ndjson" % tag)
    vf.write_ndjson(sp, scenarios)
    if os.path.exists(tp):
        os.remove(tp)
    env = vf.go_env({"VERIF_SCENARIOS": sp, "VERIF_TRACE_OUT": tp, "VERIF_SEED": vf.seed(),
                     "VERIF_TIER": os.environ.get("VERIF_TIER", "quick")})
    t0 = time.time()
    try:
        p = subprocess.run([binp, "-test.run", "^%s$" % TEST, "-test.timeout", "%ds" % timeout, "-test.count", "1"],
                           cwd=d, env=env, stdout=subprocess.PIPE, stderr=subprocess.STDOUT, timeout=timeout + 60, text=True)
    except subprocess.TimeoutExpired as e:
        raise vf.Broken("driver timed out") from e
    with open(os.path.join(d, "run-%s.log" % tag), "w") as fh:
        fh.write(p.stdout)
    if p.returncode != 0 or not os.path.exists(tp):
        raise vf.Broken("driver %s failed (rc=%d):\n%s" % (TEST, p.returncode, p.stdout[-6000:]))
    rows = vf.read_ndjson(tp)
    vf.log("driver %s: %d scenarios -> %d trace lines (%.1fs)" % (TEST, len(scenarios), len(rows), time.time() - t0))
    return rows


def is_history(s):
    return bool(s.get("steps"))


def sig_of(s):
    sig = {"ep": s["ep"]}
    if is_history(s):
        sig["history"] = s.get("tmpl", "")
        sig.update(s["of"])
    else:
        sig.update(s["shape"])
    return sig


def write_cfgs(active):
    """The cfg files name every entry point; a development run restricted with VERIF_C16_EPS uses
    generated copies (the committed cfgs are the full set)."""
    bases = ("Scen_Robustness", "Trace_Robustness", "Scen_RobustnessInst", "Scen_RobustnessInst_random", "Trace_RobustnessInst")
    if active == ALL_EPS:
        return {b: b + ".cfg" for b in bases}
    names = {}
    for base in bases:
        eps_ = [e for e in active if e in LONG_LIVED] if "Inst" in base else active
        sset = "{" + ", ".join('"%s"' % e for e in eps_) + "}"
        txt = open(os.path.join(vf.SPEC, base + ".cfg")).read()
        lines = [("  EPs = " + sset) if l.strip().startswith("EPs =") else l for l in txt.splitlines()]
        name = base + "_dev.cfg"
        with open(os.path.join(vf.SPEC, name), "w") as fh:
            fh.write("\n".join(lines) + "\n")
        names[base] = name
    return names


def scenarios(tier, scen_cfg):
    hs = vf.tlc_scenarios(PID, "Scen_Robustness", scen_cfg, exhaustive=True, timeout=1200, heap="2g")
    calls = [h[0] for h in hs if isinstance(h, list) and h and h[0].get("ev") == "Call"]
    calls.sort(key=lambda c: (c["ep"], json.dumps(c["shape"], sort_keys=True)))
    if tier == "quick":
        # quick: the whole lattice of the small entry points (including every whole-document shape, through the
        # decoder and through the real block relay service), a seeded half of the two big configuration
        # lattices and a seeded 30 % of the mutated documents (the thorough tier runs everything)
        rnd = random.Random(vf.seed())
        keep = []
        for c in calls:
            base = BASELINE.get(c["ep"]) == c["shape"]
            if c["ep"] in ("execv1", "execv2") and not base and rnd.random() < 0.5:
                continue
            if c["ep"] == "execmutate" and not base and rnd.random() < 0.7:
                continue
            keep.append(c)
        calls = keep
    return [{"sc": i + 1, "ep": c["ep"], "shape": c["shape"]} for i, c in enumerate(calls)]


# quick tier: share of the lattice points of an entry point whose histories are run (seeded); the degenerate
# relay-key / relay-address / document shapes whose first call can leave something behind are always kept
QUICK_SEQ = {"attester": 0.2, "proposalbest": 0.15, "graffiti": 0.25, "submitclassify": 0.25, "execservice": 0.3,
             "proposer": 0.4, "mergeduties": 0.6, "syncmessenger": 0.45, "builderbid": 0.25, "aggregator": 0.5,
             "syncaggregator": 0.5, "cacheevents": 0.5}
QUICK_OVERLAP = 0.12
QUICK_RANDOM = 60
THOROUGH_RANDOM = 400


AUX_FAULTS = ("error", "timeout", "canceled", "notactive", "down")


def always(h):
    """Histories that the quick tier never drops: relay keys and keyed relay addresses (both sources); one template per
    entry point with every fault kind of the auxiliary request behind it (sequential history; for the strategy also with
    a second, healthy node and the overlapping history)."""
    s = h["of"]
    if h["ep"] == "proposalbest" and s.get("strat") == "best" and s.get("graffiti") == "prefix" and s.get("proposal") == "ok" \
            and s.get("nodeclient") in AUX_FAULTS and s.get("nodeclient1") in ("na", "ok"):
        return True
    if h["tmpl"] == "seq" and ((h["ep"] == "proposer" and s.get("graffiti") == "client" and s.get("nodeclient") in AUX_FAULTS) or
                               (h["ep"] == "graffiti" and s.get("file") == "client" and s.get("nodeclient") in AUX_FAULTS)):
        return True
    return (h["ep"] == "builderbid" and (s.get("pkcfg") == "badpoint" or s.get("addr") in ("badkeyed", "shortkeyed"))) or \
           (h["ep"] == "execservice" and (s.get("pk") == "badpoint" or s.get("addr") in ("badkeyed", "shortkeyed")))


def histories(tier, cfgs):
    """Histories on one long-lived instance, generated by TLC: the two templates for every lattice point of every
    long-lived entry point (exhaustive; the partner input t is drawn by TLC, -seed = VERIF_SEED) and random ones."""
    active = [e for e in eps() if e in LONG_LIVED]
    if not active:
        return []
    nrandom = QUICK_RANDOM if tier == "quick" else THOROUGH_RANDOM
    with ThreadPoolExecutor(max_workers=1) as ex:     # the random histories are generated next to the enumerated ones
        fr = ex.submit(vf.tlc_scenarios, PID, "Scen_RobustnessInst", cfgs["Scen_RobustnessInst_random"], num=nrandom, depth=8,
                       name="scen-inst-random", timeout=900, heap="2g")
        r = vf.tlc(PID, "scen-inst", "Scen_RobustnessInst", cfgs["Scen_RobustnessInst"], workers=1, timeout=1200, aseed=vf.seed(), heap="3g")
        rs = fr.result()
    if r["timed_out"] or r["kind"] in ("invariant", "action_property", "error", "deadlock"):
        raise vf.Broken("history generation failed (%s %s):\n%s" % (r["kind"], r["violated"], r["out"][-3000:]))
    hs = [h for h in vf.tlc_emitted(r["out"]) if isinstance(h, dict) and h.get("steps")]
    hs.sort(key=lambda h: (h["ep"], h["tmpl"], json.dumps(h["of"], sort_keys=True)))
    vf.log("TLC generated %d histories from Scen_RobustnessInst/%s" % (len(hs), cfgs["Scen_RobustnessInst"]))
    if tier == "quick":
        rnd = random.Random(vf.seed() * 7919 + 1)
        keep = []
        for h in hs:
            share = QUICK_SEQ.get(h["ep"], 1.0) if h["tmpl"] == "seq" else QUICK_OVERLAP
            if always(h) or h["of"] == h["inst"] and h["tmpl"] == "seq" or rnd.random() < share:
                keep.append(h)
        hs = keep
    rs = [h for h in rs if isinstance(h, dict) and h.get("steps")]
    # one behaviour prints its last two states: keep the longest plan of each
    best = {}
    for h in rs:
        k = json.dumps([h["ep"], h["inst"], h["steps"][:2]], sort_keys=True)
        if k not in best or len(h["steps"]) > len(best[k]["steps"]):
            best[k] = h
    rs = sorted(best.values(), key=lambda h: json.dumps(h, sort_keys=True))[:nrandom]
    out = []
    for h in hs + rs:
        out.append({"sc": 0, "ep": h["ep"], "tmpl": h["tmpl"], "inst": h["inst"], "of": h["of"], "steps": h["steps"]})
    return out


def strict(rows):
    """VERIF_C16_DECODER_PANIC=violation: a panic inside the HTTP decoding layer of a client library beneath a call
    Vouch makes is treated as a Crash of Vouch (the process does die) instead of an input outside the property's
    quantifier (see Robustness!DecoderPanic and docs/C16.md).  Default: observation only."""
    if os.environ.get("VERIF_C16_DECODER_PANIC") != "violation":
        return rows
    out = []
    for r in rows:
        if r.get("ev") == "DecoderPanic":
            r = dict(r, ev="Crash", frame="%s -> %s" % (r.get("via"), r.get("decoder")))
        out.append(r)
    return out


def poll_class(a):
    """RobustnessShapes!PollClass"""
    if a in ("valid", "higher", "lower"):
        return "eligible"
    if a == "zerovalue":
        return "zero"
    if a in ("zerofee", "wrongparent", "badsig"):
        return "ineligible"
    return "nodata"


def split(rows):
    per = {}
    for r in rows:
        per.setdefault(r.get("sc"), []).append(r)
    return per


def validate(rows, module, trace_cfg, name):
    tp = os.path.join(vf.outdir(PID), "validate-%s.ndjson" % name)
    vf.write_ndjson(tp, rows)
    return vf.validate_trace(PID, module, trace_cfg, tp, name="trace-" + name, timeout=900)


def crash_of(rows):
    """The event of a recorded scenario that no action of the specification produces: Crash, or a call that never came
    back (Hung: a call of a history; Stuck: the single call of a lattice scenario).  Only a verdict if it reproduces
    when the scenario is re-run alone."""
    for r in rows:
        if r.get("ev") in ("Crash", "Hung", "Stuck"):
            return r
    return None


def explain(s, rows, res):
    """Text for a history that TLC rejected without a Crash / Hung line (the verdict is TLC's; this only names the line)."""
    why = res["why"]
    if not is_history(s) or not res.get("line"):
        return why
    bad = rows[res["line"] - 1] if res["line"] - 1 < len(rows) else {}
    fresh = [r for r in rows if r.get("ev") == "Fresh"]
    if bad.get("ev") == "Return" and fresh:
        call = [r for r in rows if r.get("ev") == "Call" and r.get("call") == bad.get("call")]
        if call and call[0].get("shape") == fresh[0].get("shape") and bad.get("outcome") != fresh[0].get("outcome"):
            why += ("; HistoryIndependent: the probe input %s ends %s (%s) on a fresh instance and %s (%s) as call %s of this history"
                    % (json.dumps(fresh[0]["shape"], sort_keys=True), fresh[0]["outcome"], fresh[0].get("detail"),
                       bad["outcome"], bad.get("detail"), bad["call"]))
    return why


def judge(v, kind, ids, by_id, per, module, trace_cfg, failures, first=None):
    """Validate the recorded scenarios of one kind (lattice / history) against their trace specification; first = the
    result of the validation of all scenarios without a Crash / Hung line, if it has been run already."""
    clean = [i for i in ids if crash_of(per[i]) is None]
    crashed = [i for i in ids if crash_of(per[i]) is not None]

    # 1. everything without a Crash / Hung line: one batch; anything rejected there is handled one by one
    rest = list(clean)
    accepted = 0
    while rest:
        res, first = first or validate([r for i in rest for r in per[i]], module, trace_cfg, "clean-" + kind), None
        if res["accepted"]:
            accepted += len(rest)
            break
        sel = [r for i in rest for r in per[i]]
        sid = vf.scenario_of_line(sel, res["line"])
        pos = rest.index(sid)
        accepted += pos
        confirmed = None
        for attempt in range(3 if kind == "history" else 1):
            rr = strict(driver([by_id[sid]], "confirm"))
            res2 = validate(rr, module, trace_cfg, "confirm")
            if not res2["accepted"]:
                confirmed = (rr, res2)
                break
        if confirmed is None:
            v.unreproduced.append("scenario %s: %s" % (sid, res["why"]))
        else:
            rr, res2 = confirmed
            failures[0] += 1
            why = explain(by_id[sid], rr, res2)
            d = vf.save_replay(PID, failures[0], by_id[sid], rr, why)
            v.report(sig_of(by_id[sid]), "%s; scenario %s" % (why, json.dumps(by_id[sid])[:1500]), d)
        rest = rest[pos + 1:]
        if failures[0] >= 5:
            break
    v.coverage["traces_validated_against_impl"] += accepted

    # 2. scenarios with a Crash / Hung line, grouped by (open finding, entry point, frame)
    groups = {}
    for i in crashed:
        c = crash_of(per[i])
        f = vf.match_finding(PID, sig_of(by_id[i]))
        key = (f["id"] if f else "", c.get("ep"), c.get("frame") or c.get("ev"))
        groups.setdefault(key, []).append(i)
    if crashed:
        vf.log("%s: %d scenario(s) crashed / hung, %d distinct (finding, entry point, frame) group(s)" % (kind, len(crashed), len(groups)))
    for key in sorted(groups)[:MAX_GROUPS]:
        members = groups[key]
        rep = members[0]
        rr = None
        for attempt in range(3):
            rr = strict(driver([by_id[rep]], "confirm-crash"))
            if crash_of(rr) is not None:
                break
            rr = None
        if rr is None:
            v.unreproduced.append("scenario %s: crash %s did not reproduce" % (rep, key))
            continue
        res2 = validate(rr, module, trace_cfg, "confirm-crash")
        if res2["accepted"]:
            raise vf.Broken("trace with a Crash / Hung line was accepted by the trace specification")
        c = crash_of(rr)
        failures[0] += 1
        if kind == "history":
            shapes = [{"tmpl": by_id[i].get("tmpl"), "of": by_id[i]["of"]} for i in members]
            done = [r for r in rr if r.get("ev") in ("Call", "Return", "Held")]
            story = " ".join("%s%s%s" % ({"Call": "call", "Return": "ret", "Held": "held"}[r["ev"]], r.get("call"),
                                         ("=" + r["outcome"]) if r.get("outcome") else "") for r in done)
            what = "%s on the long-lived instance, call(s) in flight %s, after: %s" % (c["ev"], c.get("calls"), story)
        else:
            shapes = [by_id[i]["shape"] for i in members]
            what = "Crash" if c["ev"] == "Crash" else "the duty never ended (%s)" % c["ev"]
        note = "%s\n%s: %s\nframe: %s\nfatal (process died): %s\n%d scenario(s) of entry point %s reach this:\n%s" % (
            res2["why"], what, c.get("text"), c.get("frame"), c.get("fatal"), len(members), key[1],
            "\n".join(json.dumps(x, sort_keys=True) for x in shapes[:60]))
        d = vf.save_replay(PID, failures[0], by_id[rep], rr, note)
        where = ("at %s: %s" % (c.get("frame"), c.get("text"))) if c["ev"] == "Crash" else \
            "call %s did not come back within the watchdog time (something an earlier call kept?)" % c.get("call", 1)
        v.report(sig_of(by_id[rep]), "%s in %s %s (%d scenario(s), e.g. %s)" % (
            what, key[1], where, len(members), json.dumps(shapes[0], sort_keys=True)), d)
    if len(groups) > MAX_GROUPS:
        vf.log("stopping after %d crash groups (%d more)" % (MAX_GROUPS, len(groups) - MAX_GROUPS))


def check(v, sc, cfgs, full=True):
    by_id = {s["sc"]: s for s in sc}
    rows = strict(driver(sc, "batch"))
    per = split(rows)
    missing = [i for i in by_id if i not in per or len(per[i]) < 3]
    if missing:
        raise vf.Broken("driver produced no complete trace for scenarios %s" % missing[:5])
    v.coverage["evaluations"] += len(sc)
    lattice = [s for s in sc if not is_history(s)]
    hist = [s for s in sc if is_history(s)]
    # harness sanity: the benign shape of every entry point reaches the end of the real code path
    if full:
        for s in lattice:
            if BASELINE.get(s["ep"]) == s["shape"]:
                out = [r for r in per[s["sc"]] if r.get("ev") in ("Outcome", "Crash")]
                if not out or out[-1].get("ev") != "Outcome" or out[-1].get("outcome") != "ok":
                    c = out[-1] if out else None
                    if not (c and c.get("ev") == "Crash"):
                        raise vf.Broken("baseline shape of %s did not end ok: %s" % (s["ep"], json.dumps(c)))
    nontrivial = set()
    for s in lattice:
        evs = [r.get("ev") for r in per[s["sc"]]]
        if "Outcome" in evs or "Crash" in evs:      # the input was deliverable and reached Vouch
            if s["shape"].get("bid2", "same") != "same" and "Crash" not in evs and \
                    len([r for r in per[s["sc"]] if r.get("ev") == "Poll" and r.get("relay") == "relay1"]) < 2:
                continue                            # a poll sequence of which only the first answer was ever requested
            nontrivial.add(json.dumps(sig_of(s), sort_keys=True))
    hstats = {"histories": len(hist), "calls": 0, "calls_held_at_a_gate": 0, "probe_calls_compared_with_fresh": 0, "by_entry_point": {}}
    for s in hist:
        rs = per[s["sc"]]
        returned = [r for r in rs if r.get("ev") == "Return"]
        hstats["calls"] += len([r for r in rs if r.get("ev") == "Call"])
        hstats["calls_held_at_a_gate"] += len([r for r in rs if r.get("ev") == "Held"])
        fresh = [r for r in rs if r.get("ev") == "Fresh"]
        if fresh:
            shapes = {r["call"]: r["shape"] for r in rs if r.get("ev") == "Call"}
            hstats["probe_calls_compared_with_fresh"] += len([r for r in returned if shapes.get(r["call"]) == fresh[0]["shape"]])
        k = "%s/%s" % (s["ep"], s.get("tmpl"))
        hstats["by_entry_point"][k] = hstats["by_entry_point"].get(k, 0) + 1
        if len(returned) >= 2 or crash_of(rs) is not None:   # state could be carried from one call to a later one
            nontrivial.add(json.dumps(sig_of(s), sort_keys=True))
    if hist:
        v.coverage["histories"] = hstats
    v.coverage["distinct_nontrivial"] += len(nontrivial)
    for s in lattice[:2] + hist[:1]:
        v.coverage["samples"].append({"scenario": s, "trace": per[s["sc"]]})
    outcomes = {}
    for r in rows:
        if r.get("ev") in ("Outcome", "Return", "Undeliverable", "Crash", "Hung", "Stuck", "DecoderPanic"):
            k = (r.get("ep"), r.get("outcome") or r["ev"].lower())
            outcomes[k] = outcomes.get(k, 0) + 1
    v.coverage["outcomes"] = {"%s/%s" % k: n for k, n in sorted(outcomes.items())}
    # auxiliary requests the real code really made (logged by the fake that was asked) and what they were answered
    aux = {}
    for r in rows:
        if r.get("ev") == "Aux":
            k = "%s: %s = %s" % (r.get("ep"), r.get("req"), r.get("answer"))
            aux[k] = aux.get(k, 0) + 1
    v.coverage["auxiliary_requests_answered"] = dict(sorted(aux.items()))
    # polls the real code really made (logged by the scripted relay that was asked): per entry point and strategy, how
    # many calls had relay 1 asked once / twice / three times or more, and how many of them were given answers of
    # DIFFERENT classes within one call (zero value then a real bid, a real bid then garbage ...)
    polls, mixed = {}, {}
    for s in sc:
        per_call = {}
        for r in per[s["sc"]]:
            if r.get("ev") == "Poll" and r.get("relay") == "relay1":
                per_call.setdefault(r.get("call", 0), []).append(r.get("answer"))
        strat = (s.get("shape") or s.get("inst") or {}).get("strat")
        for answers in per_call.values():
            k = "%s/%s: %s" % (s["ep"], strat, min(len(answers), 3))
            polls[k] = polls.get(k, 0) + 1
            if len({poll_class(a) for a in answers}) > 1:
                k2 = "%s/%s" % (s["ep"], strat)
                mixed[k2] = mixed.get(k2, 0) + 1
    if polls:
        v.coverage["relay_polls_per_call"] = dict(sorted(polls.items()))
        v.coverage["calls_with_answers_of_different_classes"] = dict(sorted(mixed.items()))
    if full:
        for ep in ("builderbid", "execservice"):
            if any(s["ep"] == ep and s["shape"].get("strat") == "deadline" and s["shape"].get("bid2") != "same" for s in lattice) \
                    and not mixed.get("%s/deadline" % ep):
                raise vf.Broken("no auction of %s with the deadline strategy saw answers of different classes from one relay: the "
                                "harness does not present the poll sequences (too few polls before the deadline?)" % ep)
        for ep in ("proposalbest", "proposer", "graffiti"):
            if any(s["ep"] == ep for s in lattice) and not any(
                    r.get("ev") == "Aux" and r.get("ep") == ep and r.get("delivered") == "fault" for r in rows):
                raise vf.Broken("no auxiliary request of %s was answered with a fault: the harness does not reach the node "
                                "version request behind {{CLIENT}} (the environment's alphabet is not being presented)" % ep)
    dps = {}
    for r in rows:
        if r.get("ev") == "DecoderPanic":
            k = "%s: %s (called from %s)" % (r.get("ep"), r.get("decoder"), r.get("via"))
            s = by_id[r["sc"]]
            dps.setdefault(k, []).append(s.get("shape") or s.get("of"))
    if dps:
        v.coverage["decoder_panics_outside_property"] = {k: {"shapes": len(x), "example": x[0]} for k, x in sorted(dps.items())}
        for k, x in sorted(dps.items()):
            vf.log("observation (outside C16's quantifier): client library decoder panics, %s, %d scenario(s)" % (k, len(x)))

    failures = [0]
    kinds = [("lattice", sorted(s["sc"] for s in lattice), "Trace_Robustness"), ("history", sorted(s["sc"] for s in hist), "Trace_RobustnessInst")]
    kinds = [k for k in kinds if k[1]]

    def batch(k):   # the two big validations side by side
        clean = [r for i in k[1] if crash_of(per[i]) is None for r in per[i]]
        return validate(clean, k[2], cfgs[k[2]], "clean-" + k[0]) if clean else None
    with ThreadPoolExecutor(max_workers=2) as ex:
        firsts = list(ex.map(batch, kinds))
    for k, first in zip(kinds, firsts):
        judge(v, k[0], k[1], by_id, per, k[2], cfgs[k[2]], failures, first)
    return rows


def self_checks(v):
    """The control designs of spec/RobustnessMemo.tla (right on every fresh instance, wrong over histories / overlap),
    spec/RobustnessAux.tla (auxiliary requests) and spec/RobustnessPoll.tla (poll sequences of one relay within one
    auction, per style of the strategy kind).  TLC must say exactly what is expected; anything else means the invariants
    have lost their teeth (broken run)."""
    tables = {"RobustnessMemo": SELF_CHECKS, "RobustnessAux": AUX_SELF_CHECKS, "RobustnessPoll": POLL_SELF_CHECKS}
    short = {"RobustnessMemo": "memo", "RobustnessAux": "aux", "RobustnessPoll": "poll"}

    def one(job):
        module, name = job
        return job, vf.tlc(PID, "%s-%s" % (short[module], name), module,
                           "MC_%s_%s.cfg" % (module, name), workers=2, timeout=900, heap="1g")
    jobs = [(m, n) for m in sorted(tables) for n in sorted(tables[m])]
    res = {m: {} for m in tables}
    with ThreadPoolExecutor(max_workers=6) as ex:
        for (module, name), r in ex.map(one, jobs):
            want = tables[module][name]
            got = r["violated"] if not r["ok"] else None
            if r["timed_out"] or r["kind"] == "error" or got != want:
                raise vf.Broken("self-check %s/%s: expected %s, TLC reports %s (%s); see %s/tlc.out" % (
                    module, name, want or "no violation", got or "no violation", r["kind"], r["dir"]))
            res[module][name] = "%s (%d states)" % (("rejected: " + want) if want else "passes", r["distinct"])
    v.coverage["self_checks"] = res["RobustnessMemo"]
    v.coverage["self_checks_auxiliary_requests"] = res["RobustnessAux"]
    v.coverage["self_checks_poll_sequences"] = res["RobustnessPoll"]
    for module in sorted(tables):
        vf.log("control designs (%s): " % module + ", ".join("%s %s" % (k, x) for k, x in sorted(res[module].items())))


def run(tier):
    v = vf.Verdict(PID, tier)
    v.assumptions = [
        "beacon nodes and relays are local HTTP servers answering with scripted bodies; what reaches Vouch is what the real "
        "go-eth2-client / go-builder-client HTTP clients decode from them",
        "signer, accounts, submitters, scheduler and clock are fakes at Vouch's interfaces",
        "shapes built as Go values that only a decoder could produce are gated: kept only if the real decoder delivers them",
        "histories: call k of a history is for a later slot / epoch / block height than call k-1 (as in production); relays, "
        "relay keys, nodes, validators, accounts, files and URLs are the same objects in every call of a history",
    ]
    active = eps()
    cfgs = write_cfgs(active)
    # the exhaustive runs are part of every run (also of development runs restricted with VERIF_C16_EPS):
    # evidence.states / transitions are always those of THIS run.  Independent of each other and of the
    # scenario generation and the build of the driver: side by side.
    if tier == "thorough":
        mcs = [("Robustness", "MC_Robustness.cfg", 900), ("RobustnessInst", "MC_RobustnessInst_big.cfg", 1500)]
    else:
        # (time-outs: the machine may be heavily shared; a quiet one needs 10-30 s for each)
        mcs = [("Robustness", "MC_Robustness.cfg", 1500), ("RobustnessInst", "MC_RobustnessInst.cfg", 1500),
               ("RobustnessInst", "MC_RobustnessInst_live.cfg", 1500)]
    with ThreadPoolExecutor(max_workers=8) as ex:
        fm = [ex.submit(vf.tlc_exhaustive, PID, m, c, 4, to, "6g" if tier == "thorough" else "3g", tier == "thorough" and m == "Robustness") for m, c, to in mcs]
        fs = ex.submit(self_checks, v)
        fl = ex.submit(scenarios, tier, cfgs["Scen_Robustness"])
        fb = ex.submit(build)
        hs = histories(tier, cfgs)
        for f in fm:
            v.add_mc(f.result())
        fs.result()
        sc = fl.result()
        fb.result()
    sizes = {}
    for s in sc:
        sizes[s["ep"]] = sizes.get(s["ep"], 0) + 1
    v.coverage["lattice_points_run"] = sizes
    for h in hs:
        h["sc"] = len(sc) + 1
        sc.append(h)
    try:
        check(v, sc, cfgs)
    finally:
        for name in os.listdir(vf.SPEC):   # development runs only
            if name.endswith("_dev.cfg") and "Robustness" in name:
                os.remove(os.path.join(vf.SPEC, name))
    v.coverage["rule"] = ("one evaluation = one lattice point of Robustness!Shapes(ep) (enumerated by TLC) executed on a fresh "
                          "instance of the real code, or one TLC-generated history of calls (Scen_RobustnessInst) executed on ONE "
                          "long-lived real instance; non-trivial = the input was deliverable and reached Vouch (lattice), at least "
                          "two calls of the history came back on the same instance (history); distinct by entry point + shape (+ template)")
    return v.finish()


def replay(path):
    v = vf.Verdict(PID, "quick")
    with open(os.path.join(path, "scenario.json")) as fh:
        s = json.load(fh)
    cfgs = {b: b + ".cfg" for b in ("Trace_Robustness", "Trace_RobustnessInst")}
    check(v, [s], cfgs, full=False)
    return 1 if v.violations else 0
