"""C16 — no data from a beacon node, relay or configuration can crash Vouch (spec/Robustness.tla).

TLC enumerates the shape lattice of every entry point (Scen_Robustness); the drivers in
overlay/verifdrivers/c16 build the concrete input of every shape and call the real code END TO END
(decode, then every consumer of the decoded value: spec actions Decoded / Use; defer/recover
in a child goroutine, inside a child process so that panics in goroutines Vouch starts are observed
too); TLC validates the recorded trace against Trace_Robustness, whose vocabulary contains the event
Crash but no action producing it.

Own loop instead of vf.conformance (one crash site is usually reached by many lattice points):
  * the scenarios whose trace has no Crash line are validated in one batch (rejections there are
    handled like in vf.conformance: attributed, confirmed, reported);
  * the scenarios with a Crash line are grouped by (matching open finding, entry point, crashing
    frame); for one representative per group the scenario is re-run alone (must crash again, else the
    run is broken), its new trace is validated by TLC (the rejection is the verdict) and reported with
    the list of all shapes of the group.
"""
import json
import os
import random
import subprocess
import time
import vf

PID = "C16"
PKG = "./verifdrivers/c16"
TEST = "TestVerifC16"
ALL_EPS = ["execv2", "execv1", "execmutate", "execdoc", "execservice", "graffiti", "builderbid", "proposalbest", "proposer", "attester", "aggregator",
           "syncmessenger", "syncaggregator", "mergeduties", "cacheevents", "submitclassify"]
# the all-benign shape of every entry point: must end "ok", otherwise the harness does not reach the code
BASELINE = {
    "execv2": {"version": "2", "top": "all", "relays": "one", "proposers": "account", "prelays": "one", "match": "y"},
    "execv1": {"version": "absent", "dflt": "full", "pc": "one", "brelays": "one", "match": "y"},
    "execmutate": {"base": "v2", "site": "0", "mut": "duplicate"},
    "execdoc": {"doc": "valid2"},
    "execservice": {"doc": "valid2", "source": "file", "prior": "none", "addr": "good"},
    "graffiti": {"file": "one", "fallback": "none", "loc": "plain", "use": "call"},
    "builderbid": {"strat": "best", "addr": "good", "bid": "valid", "second": "none", "pkcfg": "none"},
    "proposalbest": {"graffiti": "plain", "clen": "10", "nodeclient": "ok", "proposal": "ok", "n": "1"},
    "proposer": {"auction": "none", "ver": "deneb", "blinded": "n", "body": "valid", "unblind": "ok", "graffiti": "none"},
    "attester": {"body": "valid", "slot": "64", "duty": "one"},
    "aggregator": {"body": "valid", "slot": "64", "account": "present"},
    "syncmessenger": {"body": "valid", "accounts": "all", "slot": "64"},
    "syncaggregator": {"body": "valid", "root": "known", "slot": "64"},
    "mergeduties": {"n": "3", "dup": "none", "range": "ok", "zero": "none", "entry": "ok"},
    "cacheevents": {"event": "head", "ver": "deneb", "body": "valid"},
    "submitclassify": {"op": "messages", "server": "lighthouse", "err": "known"},
}
MAX_GROUPS = 16


def eps():
    e = os.environ.get("VERIF_C16_EPS")
    return [x for x in e.split(",") if x] if e else ALL_EPS


_BUILT = {}


def build():
    """The driver package exists only in the overlay (no directory in the repository), so `go test`
    cannot chdir into it: the test binary is built with -c and run by this script."""
    key = vf.REPO
    if key in _BUILT:
        return _BUILT[key]
    binp = os.path.join(vf.outdir(PID), "c16.test")
    if os.path.exists(binp):
        os.remove(binp)
    rc, out, dt = vf.go_test(PID, PKG, "^%s$" % TEST, timeout=900, extra_args=["-c", "-o", binp])
    if rc != 0 or not os.path.exists(binp):
        raise vf.Broken("driver does not build against the current tree:\n" + out[-4000:])
    vf.log("driver built (%.1fs)" % dt)
    _BUILT[key] = binp
    return binp


def driver(scenarios, tag, timeout=1500):
    binp = build()
    d = vf.outdir(PID)
    sp = os.path.join(d, "scenarios-%s.ndjson" % tag)
    tp = os.path.join(d, "trace-%s.ndjson" % tag)
    vf.write_ndjson(sp, scenarios)
    if os.path.exists(tp):
        os.remove(tp)
    env = vf.go_env({"VERIF_SCENARIOS": sp, "VERIF_TRACE_OUT": tp, "VERIF_SEED": vf.seed(),
                     "VERIF_TIER": os.environ.get("VERIF_TIER", "quick")})
    t0 = time.time()
    try:
        p = subprocess.run([binp, "-test.run", "^%s$" % TEST, "-test.timeout", "%ds" % timeout, "-test.count", "1"],
                           cwd=d, env=env, stdout=subprocess.PIPE, stderr=subprocess.STDOUT, timeout=timeout + 60, text=True)
    except subprocess.TimeoutExpired as e:
        raise vf.Broken("driver timed out") from e
    with open(os.path.join(d, "run-%s.log" % tag), "w") as fh:
        fh.write(p.stdout)
    if p.returncode != 0 or not os.path.exists(tp):
        raise vf.Broken("driver %s failed (rc=%d):\n%s" % (TEST, p.returncode, p.stdout[-6000:]))
    rows = vf.read_ndjson(tp)
    vf.log("driver %s: %d scenarios -> %d trace lines (%.1fs)" % (TEST, len(scenarios), len(rows), time.time() - t0))
    return rows


def sig_of(s):
    sig = {"ep": s["ep"]}
    sig.update(s["shape"])
    return sig


def write_cfgs(active):
    """The cfg files name every entry point; a development run restricted with VERIF_C16_EPS uses
    generated copies (the committed cfgs are the full set)."""
    if active == ALL_EPS:
        return "Scen_Robustness.cfg", "Trace_Robustness.cfg"
    sset = "{" + ", ".join('"%s"' % e for e in active) + "}"
    names = []
    for base in ("Scen_Robustness", "Trace_Robustness"):
        txt = open(os.path.join(vf.SPEC, base + ".cfg")).read()
        lines = [("  EPs = " + sset) if l.strip().startswith("EPs =") else l for l in txt.splitlines()]
        name = base + "_dev.cfg"
        with open(os.path.join(vf.SPEC, name), "w") as fh:
            fh.write("\n".join(lines) + "\n")
        names.append(name)
    return names[0], names[1]


def scenarios(tier, scen_cfg):
    hs = vf.tlc_scenarios(PID, "Scen_Robustness", scen_cfg, exhaustive=True, timeout=600)
    calls = [h[0] for h in hs if isinstance(h, list) and h and h[0].get("ev") == "Call"]
    calls.sort(key=lambda c: (c["ep"], json.dumps(c["shape"], sort_keys=True)))
    if tier == "quick":
        # quick: the whole lattice of the small entry points (including every whole-document shape, through the
        # decoder and through the real block relay service), a seeded half of the two big configuration
        # lattices and a seeded 30 % of the mutated documents (the thorough tier runs everything)
        rnd = random.Random(vf.seed())
        keep = []
        for c in calls:
            base = BASELINE.get(c["ep"]) == c["shape"]
            if c["ep"] in ("execv1", "execv2") and not base and rnd.random() < 0.5:
                continue
            if c["ep"] == "execmutate" and not base and rnd.random() < 0.7:
                continue
            keep.append(c)
        calls = keep
    return [{"sc": i + 1, "ep": c["ep"], "shape": c["shape"]} for i, c in enumerate(calls)]


def strict(rows):
    """VERIF_C16_DECODER_PANIC=violation: a panic inside the HTTP decoding layer of a client library beneath a call
    Vouch makes is treated as a Crash of Vouch (the process does die) instead of an input outside the property's
    quantifier (see Robustness!DecoderPanic and docs/C16.md).  Default: observation only."""
    if os.environ.get("VERIF_C16_DECODER_PANIC") != "violation":
        return rows
    out = []
    for r in rows:
        if r.get("ev") == "DecoderPanic":
            r = dict(r, ev="Crash", frame="%s -> %s" % (r.get("via"), r.get("decoder")))
        out.append(r)
    return out


def split(rows):
    per = {}
    for r in rows:
        per.setdefault(r.get("sc"), []).append(r)
    return per


def validate(rows, trace_cfg, name):
    tp = os.path.join(vf.outdir(PID), "validate-%s.ndjson" % name)
    vf.write_ndjson(tp, rows)
    return vf.validate_trace(PID, "Trace_Robustness", trace_cfg, tp, name="trace-" + name, timeout=900)


def crash_of(rows):
    for r in rows:
        if r.get("ev") == "Crash":
            return r
    return None


def check(v, sc, trace_cfg, full=True):
    by_id = {s["sc"]: s for s in sc}
    rows = strict(driver(sc, "batch"))
    per = split(rows)
    missing = [i for i in by_id if i not in per or len(per[i]) < 3]
    stuck = [r for r in rows if r.get("ev") == "Stuck"]
    if stuck:
        raise vf.Broken("scenario(s) did not end within the watchdog time: %s" % [by_id[r["sc"]] for r in stuck[:3]])
    if missing:
        raise vf.Broken("driver produced no complete trace for scenarios %s" % missing[:5])
    v.coverage["evaluations"] += len(sc)
    # harness sanity: the benign shape of every entry point reaches the end of the real code path
    if full:
        for s in sc:
            if BASELINE.get(s["ep"]) == s["shape"]:
                out = [r for r in per[s["sc"]] if r.get("ev") in ("Outcome", "Crash")]
                if not out or out[-1].get("ev") != "Outcome" or out[-1].get("outcome") != "ok":
                    c = out[-1] if out else None
                    if not (c and c.get("ev") == "Crash"):
                        raise vf.Broken("baseline shape of %s did not end ok: %s" % (s["ep"], json.dumps(c)))
    nontrivial = set()
    for s in sc:
        evs = [r.get("ev") for r in per[s["sc"]]]
        if "Outcome" in evs or "Crash" in evs:      # the input was deliverable and reached Vouch
            nontrivial.add(json.dumps(sig_of(s), sort_keys=True))
    v.coverage["distinct_nontrivial"] += len(nontrivial)
    for s in sc[:2]:
        v.coverage["samples"].append({"scenario": s, "trace": per[s["sc"]]})
    outcomes = {}
    for r in rows:
        if r.get("ev") in ("Outcome", "Undeliverable", "Crash", "DecoderPanic"):
            k = (r.get("ep"), r.get("outcome") or r["ev"].lower())
            outcomes[k] = outcomes.get(k, 0) + 1
    v.coverage["outcomes"] = {"%s/%s" % k: n for k, n in sorted(outcomes.items())}
    dps = {}
    for r in rows:
        if r.get("ev") == "DecoderPanic":
            k = "%s: %s (called from %s)" % (r.get("ep"), r.get("decoder"), r.get("via"))
            dps.setdefault(k, []).append(by_id[r["sc"]]["shape"])
    if dps:
        v.coverage["decoder_panics_outside_property"] = {k: {"shapes": len(x), "example": x[0]} for k, x in sorted(dps.items())}
        for k, x in sorted(dps.items()):
            vf.log("observation (outside C16's quantifier): client library decoder panics, %s, %d shape(s)" % (k, len(x)))

    clean = [i for i in sorted(per) if crash_of(per[i]) is None]
    crashed = [i for i in sorted(per) if crash_of(per[i]) is not None]

    # 1. everything without a Crash line: one batch; anything rejected there is handled one by one
    ids = list(clean)
    accepted = 0
    failures = 0
    while ids:
        res = validate([r for i in ids for r in per[i]], trace_cfg, "clean")
        if res["accepted"]:
            accepted += len(ids)
            break
        sel = [r for i in ids for r in per[i]]
        sid = vf.scenario_of_line(sel, res["line"])
        pos = ids.index(sid)
        accepted += pos
        rr = strict(driver([by_id[sid]], "confirm"))
        res2 = validate(rr, trace_cfg, "confirm")
        if res2["accepted"]:
            v.unreproduced.append("scenario %s: %s" % (sid, res["why"]))
        else:
            failures += 1
            d = vf.save_replay(PID, failures, by_id[sid], rr, res2["why"])
            v.report(sig_of(by_id[sid]), "%s; scenario %s" % (res2["why"], json.dumps(by_id[sid])), d)
        ids = ids[pos + 1:]
        if failures >= 5:
            break
    v.coverage["traces_validated_against_impl"] += accepted

    # 2. scenarios with a Crash line, grouped by (open finding, entry point, frame)
    groups = {}
    for i in crashed:
        c = crash_of(per[i])
        f = vf.match_finding(PID, sig_of(by_id[i]))
        key = (f["id"] if f else "", c.get("ep"), c.get("frame"))
        groups.setdefault(key, []).append(i)
    if crashed:
        vf.log("%d scenario(s) crashed, %d distinct (finding, entry point, frame) group(s)" % (len(crashed), len(groups)))
    n = failures
    for key in sorted(groups)[:MAX_GROUPS]:
        members = groups[key]
        rep = members[0]
        rr = None
        for attempt in range(3):
            rr = strict(driver([by_id[rep]], "confirm-crash"))
            if crash_of(rr) is not None:
                break
            rr = None
        if rr is None:
            v.unreproduced.append("scenario %s: crash %s did not reproduce" % (rep, key))
            continue
        res2 = validate(rr, trace_cfg, "confirm-crash")
        if res2["accepted"]:
            raise vf.Broken("trace with a Crash line was accepted by the trace specification")
        c = crash_of(rr)
        n += 1
        shapes = [by_id[i]["shape"] for i in members]
        note = "%s\nCrash: %s\nframe: %s\nfatal (process died): %s\n%d shape(s) of entry point %s reach this crash:\n%s" % (
            res2["why"], c.get("text"), c.get("frame"), c.get("fatal"), len(members), key[1],
            "\n".join(json.dumps(x, sort_keys=True) for x in shapes[:60]))
        d = vf.save_replay(PID, n, by_id[rep], rr, note)
        v.report(sig_of(by_id[rep]), "Crash in %s at %s: %s (%d shape(s), e.g. %s)" % (
            key[1], c.get("frame"), c.get("text"), len(members), json.dumps(by_id[rep]["shape"], sort_keys=True)), d)
    if len(groups) > MAX_GROUPS:
        vf.log("stopping after %d crash groups (%d more)" % (MAX_GROUPS, len(groups) - MAX_GROUPS))
    return rows


def run(tier):
    v = vf.Verdict(PID, tier)
    v.assumptions = [
        "beacon nodes and relays are local HTTP servers answering with scripted bodies; what reaches Vouch is what the real "
        "go-eth2-client / go-builder-client HTTP clients decode from them",
        "signer, accounts, submitters, scheduler and clock are fakes at Vouch's interfaces",
        "shapes built as Go values that only a decoder could produce are gated: kept only if the real decoder delivers them",
    ]
    active = eps()
    scen_cfg, trace_cfg = write_cfgs(active)
    # the exhaustive run is part of every run (also of development runs restricted with VERIF_C16_EPS):
    # evidence.states / transitions are always those of THIS run
    v.add_mc(vf.tlc_exhaustive(PID, "Robustness", "MC_Robustness.cfg", coverage=(tier == "thorough")))
    sc = scenarios(tier, scen_cfg)
    sizes = {}
    for s in sc:
        sizes[s["ep"]] = sizes.get(s["ep"], 0) + 1
    v.coverage["lattice_points_run"] = sizes
    try:
        check(v, sc, trace_cfg)
    finally:
        for name in ("Scen_Robustness_dev.cfg", "Trace_Robustness_dev.cfg"):   # development runs only
            if os.path.exists(os.path.join(vf.SPEC, name)):
                os.remove(os.path.join(vf.SPEC, name))
    v.coverage["rule"] = ("one evaluation = one lattice point of Robustness!Shapes(ep) (enumerated by TLC) executed on the real "
                          "code; non-trivial = the input was deliverable and reached Vouch (Outcome or Crash logged); "
                          "distinct by entry point + shape")
    return v.finish()


def replay(path):
    v = vf.Verdict(PID, "quick")
    with open(os.path.join(path, "scenario.json")) as fh:
        s = json.load(fh)
    check(v, [s], "Trace_Robustness.cfg", full=False)
    return 1 if v.violations else 0
