"""C08 — a submission reaches every configured node and succeeds iff one accepts, within the
time-out (spec/Submitter.tla, spec/SubmitterScatter.tla)."""
import json
import os
import random
import vf

PID = "C08"
PKG = "./services/submitter/multinode"
TEST = "TestVerifC08"
KINDS = ["att", "agg", "proposal", "syncmsg", "contrib", "bcsub", "scsub", "prep"]
FULL_IN_QUICK = ("att", "syncmsg")


def driver(scenarios, tag):
    return vf.run_driver(PID, PKG, TEST, scenarios, tag, timeout=1200)


def _d12_node(kind, n):
    """A node whose reply is an error JSON that lists no failure, from a client whose batch
    errors the submitter parses (suspected defect D12 of DESIGN.md)."""
    if n.get("out") != "error" or n.get("reason") not in ("noFailures", "emptyFailures"):
        return False
    if kind == "syncmsg":
        return n.get("client") in ("lighthouse", "teku")
    if kind == "contrib":
        return n.get("client") == "lighthouse"
    return False


def sig_of(s):
    if s.get("sub") == "scatter":
        return {"sub": "scatter", "items": s.get("items")}
    return {"sub": s.get("sub"), "kind": s.get("kind"),
            "error_json_without_failures": any(_d12_node(s.get("kind"), n) for n in s.get("nodes", [])),
            "att_mixed_batches": s.get("kind") == "att" and any(
                n.get("reason") == "attMixed" and n.get("out") == "error" for n in s.get("nodes", []))}


def nontrivial(s, rows):
    """The scenario exercises C08's antecedent: a submission with at least one faulty node
    (anything but a prompt acceptance) that was really offered to some node, or a Scatter run
    that has something to split."""
    if s.get("sub") == "scatter":
        return s.get("items", 0) > 1
    faulty = any(n.get("out") != "accept" for n in s.get("nodes", []))
    called = any(r.get("ev") == "Call" for r in rows)
    return faulty and called


def scenarios(tier):
    rnd = random.Random(vf.seed())
    out = []
    base = vf.tlc_scenarios(PID, "Scen_Submitter", "Scen_Submitter_base.cfg", exhaustive=True, name="scen-base")
    if len(base) != 343 * len(KINDS):
        raise vf.Broken("expected every outcome vector for every kind, got %d" % len(base))
    if tier == "quick":
        keep = [b for b in base if b["kind"] in FULL_IN_QUICK]
        for k in KINDS:
            if k not in FULL_IN_QUICK:
                keep += rnd.sample([b for b in base if b["kind"] == k], 100)
        base = keep
    out += base
    serial = vf.tlc_scenarios(PID, "Scen_Submitter", "Scen_Submitter_serial.cfg", exhaustive=True, name="scen-serial")
    if tier == "quick":
        serial = [b for b in serial if b["kind"] in FULL_IN_QUICK] + rnd.sample(
            [b for b in serial if b["kind"] not in FULL_IN_QUICK], 96)
    out += serial
    out += vf.tlc_scenarios(PID, "Scen_Submitter", "Scen_Submitter_classify.cfg", exhaustive=True, name="scen-classify")
    out += vf.tlc_scenarios(PID, "Scen_Submitter", "Scen_Submitter_imm.cfg", exhaustive=True, name="scen-imm")
    n = 160 if tier == "quick" else 4000
    sim = vf.tlc_scenarios(PID, "Scen_Submitter", "Scen_Submitter_sim.cfg", num=n, depth=6, name="scen-sim")
    rnd.shuffle(sim)
    out += sim[:n]
    if tier == "quick":
        sizes = list(range(1, 25)) + sorted(rnd.sample(range(25, 201), 36))
    else:
        sizes = list(range(1, 201))
    out += [{"sub": "scatter", "items": i, "maxConc": 64} for i in sizes]
    return [dict(s, sc=i + 1) for i, s in enumerate(out)]


def run(tier):
    v = vf.Verdict(PID, tier)
    v.assumptions = [
        "Env_StepsAreFast: code steps take no time relative to the time-out (the caller is registered in Wait long before the time-out signal)",
        "Env_ErrorShapes: beacon nodes are scripted fakes at the eth2client submitter interfaces; their version strings and error texts (lighthouse/teku/nimbus rejection bodies) are the shapes the submitter's own parsers document",
        "timing: T = 200 ms, instants classified before/ambiguous/after with a 50 ms tolerance; a scenario during which a scheduling probe saw a stall > 20 ms is re-run and finally judged with every instant ambiguous",
        "immediate submitter: no time-out is configured there, its return instant and client-specific tolerance are not judged",
    ]
    v.add_mc(vf.tlc_exhaustive(PID, "Submitter", "MC_Submitter.cfg"))
    v.add_mc(vf.tlc_exhaustive(PID, "MC_SubmitterScatter", "MC_SubmitterScatter.cfg", workers=1))
    if tier == "thorough":
        v.add_mc(vf.tlc_exhaustive(PID, "Submitter", "MC_Submitter_big.cfg", coverage=True, timeout=1500))
    sc = scenarios(tier)
    vf.conformance(v, sc, driver, "Trace_Submitter", "Trace_Submitter.cfg", sig_of, nontrivial, tlc_timeout=1200)
    v.coverage["rule"] = ("multinode: every assignment of the 7 outcomes to 3 nodes (TLC-enumerated) for attestations and sync "
                          "messages (all 8 kinds in thorough, a seeded sample of the others in quick), every assignment of the 4 "
                          "prompt outcomes with concurrency 1 < 3 nodes, the whole classifier table "
                          "(one node, every client x reply shape per kind), plus TLC-simulated "
                          "submissions (any client x reply shape, 1-4 nodes, concurrency 1-8, payload 1-13); immediate: every "
                          "kind x outcome; util.Scatter: items x concurrency 0..64, one trace line each; non-trivial = at least "
                          "one faulty node and at least one node really called (Scatter: more than one item); distinct by scenario")
    return v.finish()


def replay(path):
    v = vf.Verdict(PID, "quick")
    with open(os.path.join(path, "scenario.json")) as fh:
        s = json.load(fh)
    vf.conformance(v, [s], driver, "Trace_Submitter", "Trace_Submitter.cfg", sig_of, nontrivial)
    return 1 if v.violations else 0
