"""C08 — a submission reaches every configured node and succeeds iff one accepts, within the
time-out, for every submission of a history on one long-lived submitter instance (spec/Submitter.tla,
spec/SubmitterInst.tla, spec/SubmitterClassifier.tla, spec/SubmitterScatter.tla) - and for the SIBLING
FAN-OUTS that do not go through the submitter (kinds "prepdirect", "regnodes", "regrelays" of Submitter.tla;
"prepdirect" bound on the real proposal preparer, spec/Scen_SubmitterDirect.tla)."""
import concurrent.futures
import json
import os
import random
import threading
import time
import vf

PID = "C08"
PKG = "./services/submitter/multinode"
TEST = "TestVerifC08"
KINDS = ["att", "agg", "proposal", "syncmsg", "contrib", "bcsub", "scsub", "prep"]
FULL_IN_QUICK = ("att", "syncmsg")


PREP_PKG = "./services/proposalpreparer/standard"
PREP_TEST = "TestVerifC08Prep"
_early = {}     # rows of the wired (untimed) family, recorded while the TLC phase runs


def prep_driver(scenarios, tag):
    return vf.run_driver(PID, PREP_PKG, PREP_TEST, scenarios, tag + "-prep", timeout=1200)


def driver(scenarios, tag):
    """The sibling fan-out family (sub "direct") runs on the real proposal preparer, everything else on the
    real submitters."""
    direct = [s for s in scenarios if s.get("sub") == "direct"]
    rest = [s for s in scenarios if s.get("sub") != "direct"]
    rows = []
    if direct:
        key = tuple(s["sc"] for s in direct)
        if tag == "batch" and _early.get("key") == key:
            _early["thread"].join()
            if "error" in _early:
                raise _early["error"]
            rows += _early["rows"]
        else:
            rows += prep_driver(direct, tag)
    if rest:
        rows += vf.run_driver(PID, PKG, TEST, rest, tag, timeout=1200)
    return rows


def start_early(scenarios):
    """The wired family has no time-out and none of its instants is judged: it is recorded side by side with
    the TLC phase (the timed driver never is)."""
    direct = [s for s in scenarios if s.get("sub") == "direct"]
    if not direct:
        return
    _early.clear()
    _early["key"] = tuple(s["sc"] for s in direct)

    def work():
        try:
            _early["rows"] = prep_driver(direct, "batch")
        except BaseException as e:      # noqa: handed to the caller of driver()
            _early["error"] = e
    _early["thread"] = threading.Thread(target=work, daemon=True)
    _early["thread"].start()


def _d12_node(kind, n):
    """A node whose reply is an error JSON that lists no failure, from a client whose batch
    errors the submitter parses (suspected defect D12 of DESIGN.md)."""
    if n.get("out") != "error" or n.get("reason") not in ("noFailures", "emptyFailures"):
        return False
    if kind == "syncmsg":
        return n.get("client") in ("lighthouse", "teku")
    if kind == "contrib":
        return n.get("client") == "lighthouse"
    return False


def calls_of(s):
    """The submissions of a scenario (a scenario is a history on one instance; the older groups
    are histories of one submission)."""
    if s.get("calls"):
        return s["calls"]
    return [{"kind": s.get("kind"), "items": s.get("items"), "nodes": s.get("nodes", [])}]


def sig_of(s):
    if s.get("sub") == "scatter":
        return {"sub": "scatter", "items": s.get("items")}
    cs = calls_of(s)
    sig = {"sub": s.get("sub"), "kind": s.get("kind") if not s.get("calls") else "+".join(c["kind"] for c in cs),
           "error_json_without_failures": any(_d12_node(c["kind"], n) for c in cs for n in c["nodes"]),
           "att_mixed_batches": any(c["kind"] == "att" and n.get("reason") == "attMixed" and n.get("out") == "error"
                                    for c in cs for n in c["nodes"])}
    if s.get("calls"):
        sig["mode"] = s.get("mode")
        sig["calls"] = len(cs)
    if s.get("sub") == "direct":
        sig["nodes"] = len(cs[0]["nodes"])
    return sig


def nontrivial(s, rows):
    """The scenario exercises C08's antecedent: a submission with at least one faulty node
    (anything but a prompt acceptance with a working version query) that was really offered to some
    node, or a Scatter run that has something to split.  A history additionally needs a second
    submission that was really made on the same instance."""
    if s.get("sub") == "scatter":
        return s.get("items", 0) > 1
    cs = calls_of(s)
    faulty = any(n.get("out") != "accept" or n.get("ver") == "fail" for c in cs for n in c["nodes"])
    called = any(r.get("ev") == "Call" for r in rows)
    if len(cs) > 1:
        called = called and any(r.get("ev") == "Call" and r.get("call", 1) > 1 for r in rows)
    return faulty and called


def _core_vector(s):
    """prompt / rank 1 rejections and rank 2 acceptances only"""
    return all(n.get("out") in ("error", "slowerr") or (n.get("out") == "slowok" and n.get("lat") == 2)
               for n in s["calls"][0]["nodes"])


def generate(tier):
    """All TLC scenario generations of the check, side by side (they are independent of each other)."""
    n = 160 if tier == "quick" else 4000
    nh = 150 if tier == "quick" else 3000
    jobs = {
        "base": dict(module="Scen_Submitter", cfg="Scen_Submitter_base.cfg", exhaustive=True),
        "serial": dict(module="Scen_Submitter", cfg="Scen_Submitter_serial.cfg", exhaustive=True),
        "classify": dict(module="Scen_Submitter", cfg="Scen_Submitter_classify.cfg", exhaustive=True),
        "imm": dict(module="Scen_Submitter", cfg="Scen_Submitter_imm.cfg", exhaustive=True),
        "sim": dict(module="Scen_Submitter", cfg="Scen_Submitter_sim.cfg", num=n, depth=6),
        "hcarry": dict(module="Scen_SubmitterHist", cfg="Scen_SubmitterHist_carry.cfg", exhaustive=True),
        "hover": dict(module="Scen_SubmitterHist", cfg="Scen_SubmitterHist_overlap.cfg", exhaustive=True),
        "hkinds": dict(module="Scen_SubmitterHist", cfg="Scen_SubmitterHist_kinds.cfg", exhaustive=True),
        "hwide": dict(module="Scen_SubmitterHist", cfg="Scen_SubmitterHist_wide.cfg", exhaustive=True),
        "hsim": dict(module="Scen_SubmitterHist", cfg="Scen_SubmitterHist_sim.cfg", num=max(60, nh // 6), depth=40),
        "dvec": dict(module="Scen_SubmitterDirect", cfg="Scen_SubmitterDirect_vec.cfg", exhaustive=True),
        "dsim": dict(module="Scen_SubmitterDirect", cfg="Scen_SubmitterDirect_sim.cfg", num=60 if tier == "quick" else 300, depth=16),
    }

    def one(name):
        j = dict(jobs[name])
        return name, vf.tlc_scenarios(PID, j.pop("module"), j.pop("cfg"), name="scen-" + name, **j)

    with concurrent.futures.ThreadPoolExecutor(max_workers=5) as ex:
        return dict(ex.map(one, list(jobs)))


def hist_scenarios(tier, rnd, gen):
    """Histories of submissions on ONE instance (TLC: Scen_SubmitterHist)."""
    out = []
    carry = gen["hcarry"]
    over = gen["hover"]
    if len(carry) != 6912 or len(over) != 2304:
        raise vf.Broken("expected 6912 carry and 2304 overlap histories, got %d and %d" % (len(carry), len(over)))
    # every kind with its OWN node list (different sizes) on one instance, every kind run, rejections that
    # arrive before the first acceptance: 8 patterns x 54 vectors, 8 submissions each
    kinds = gen["hkinds"]
    if len(kinds) != 432:
        raise vf.Broken("expected 432 per-kind node list histories, got %d" % len(kinds))
    n = 150 if tier == "quick" else 3000
    sim = gen["hsim"]
    rnd.shuffle(sim)
    if tier == "quick":
        carry = rnd.sample(carry, 220)
        over = rnd.sample(over, 110)
        # the core of the class - delayed and prompt rejections, then an acceptance of rank 2 - is run in full
        # (18 vectors x 8 patterns); the vectors with an acceptance of rank 1 (only a prompt rejection can
        # precede it) or a hanging node (each of the 8 submissions lasts T + tolerance) are sampled
        rest = [k for k in kinds if not _core_vector(k)]
        kinds = [k for k in kinds if _core_vector(k)] + rnd.sample(rest, 40)
    # ONE kind configured with the whole pool, every other kind with node 1 only, process concurrency = pool size,
    # the wide kind submitted with a hanging node and an accepting one: 8 kinds x 12 vectors (both tiers in full)
    wide = gen["hwide"]
    if len(wide) != 96:
        raise vf.Broken("expected 96 wide-kind histories, got %d" % len(wide))
    out += carry + over + kinds + wide + sim[:n]
    return out


def _real_failure(n):
    return n.get("out") in ("error", "slowerr") and n.get("reason") != "notActive"


def _rank(n):
    return 0 if n.get("out") in ("accept", "error") else (n.get("lat") or 2) if n.get("out") in ("slowok", "slowerr") else 9


def _fail_while_in_flight(s):
    """the class of the seeded change: some node fails of its own before the acceptance of another node is in"""
    ns = s["calls"][0]["nodes"]
    return any(_real_failure(a) and b.get("out") in ("accept", "slowok") and _rank(a) < _rank(b) for a in ns for b in ns)


def direct_scenarios(tier, rnd, gen):
    """Histories of fan-outs on ONE real proposal preparer (TLC: Scen_SubmitterDirect)."""
    vec = gen["dvec"]
    if len(vec) != 584:
        raise vf.Broken("expected 584 outcome vectors for the preparer's fan-out, got %d" % len(vec))
    sim = gen["dsim"]
    rnd.shuffle(sim)
    if tier == "quick":
        # in full: the vectors without a hanging node (a hang ends the preparer's loop for good and costs the
        # quiet period); sampled: those with one
        plain = [v for v in vec if not any(n["out"] == "hang" for n in v["calls"][0]["nodes"])]
        hang = [v for v in vec if any(n["out"] == "hang" for n in v["calls"][0]["nodes"])]
        vec = plain + rnd.sample(hang, 40)
        sim = sim[:40]
    else:
        sim = sim[:600]
    return vec + sim


def scenarios(tier):
    rnd = random.Random(vf.seed())
    out = []
    gen = generate(tier)
    base = gen["base"]
    if len(base) != 343 * len(KINDS):
        raise vf.Broken("expected every outcome vector for every kind, got %d" % len(base))
    if tier == "quick":
        keep = [b for b in base if b["kind"] in FULL_IN_QUICK]
        for k in KINDS:
            if k not in FULL_IN_QUICK:
                keep += rnd.sample([b for b in base if b["kind"] == k], 100)
        base = keep
    out += base
    serial = gen["serial"]
    if tier == "quick":
        serial = [b for b in serial if b["kind"] in FULL_IN_QUICK] + rnd.sample(
            [b for b in serial if b["kind"] not in FULL_IN_QUICK], 96)
    out += serial
    out += gen["classify"]
    out += gen["imm"]
    n = 160 if tier == "quick" else 4000
    sim = gen["sim"]
    rnd.shuffle(sim)
    out += sim[:n]
    if tier == "quick":
        sizes = list(range(1, 25)) + sorted(rnd.sample(range(25, 201), 36))
    else:
        sizes = list(range(1, 201))
    out += hist_scenarios(tier, rnd, gen)
    out += [{"sub": "scatter", "items": i, "maxConc": 64} for i in sizes]
    # LAST, so that the scenario ids of the older families do not move (rnd is used after them only)
    out += direct_scenarios(tier, rnd, gen)
    return [dict(s, sc=i + 1) for i, s in enumerate(out)]


# (module, cfg, invariants one of which TLC must report as violated) - designs that carry state between
# the submissions of one instance and are right for every submission made alone on a fresh instance
DEVIATIONS = [
    ("Submitter", "MC_Submitter_dev_memofail.cfg", ("SuccessIff", "FlagSound")),
    ("Submitter", "MC_Submitter_dev_sharedsem.cfg", ("OfferedInFull", "Independence")),
    ("SubmitterInst", "MC_SubmitterInst_memofail.cfg", ("SuccessIffC",)),
    ("SubmitterInst", "MC_SubmitterInst_sharedsem.cfg", ("OfferedC", "IndependenceC")),
    ("SubmitterInst", "MC_SubmitterInst_sharedflag.cfg", ("SuccessIffC",)),
    # failures counted against the node list of ANOTHER kind: right when the lists are equally long
    # (MC_Submitter_wrongcount_samesize.cfg passes), rejected when the kind's own list is longer
    ("Submitter", "MC_Submitter_dev_wrongcount.cfg", ("SuccessIff",)),
    # the sibling fan-outs (preparer's loop, registrations to nodes / relays): ONE derived context for the whole
    # fan-out, cancelled by the first call that fails (errgroup.WithContext): right as long as nobody fails of its
    # own (MC_Submitter_errgroup_nofail.cfg passes), rejected otherwise; and a loop that stops at the first failure
    ("Submitter", "MC_Submitter_dev_errgroup.cfg", ("DeliveredToEach",)),
    ("Submitter", "MC_Submitter_dev_seqstop.cfg", ("OfferedInFull",)),
]


def model_checks(v, tier):
    """Exhaustive TLC runs of the designs that must satisfy C08 and vacuity self-checks (designs with state
    carried between submissions that TLC must reject), side by side."""
    good = [("Submitter", "MC_Submitter.cfg", 900), ("MC_SubmitterScatter", "MC_SubmitterScatter.cfg", 300),
            ("Submitter", "MC_Submitter_hist.cfg", 900), ("Submitter", "MC_Submitter_hist_cacheok.cfg", 900),
            ("SubmitterInst", "MC_SubmitterInst_percall.cfg", 900),
            ("Submitter", "MC_Submitter_kinds.cfg", 900), ("Submitter", "MC_Submitter_allfailed.cfg", 900),
            ("Submitter", "MC_Submitter_wrongcount_samesize.cfg", 900),
            ("Submitter", "MC_Submitter_direct.cfg", 900), ("Submitter", "MC_Submitter_direct_parfan.cfg", 900),
            ("Submitter", "MC_Submitter_errgroup_nofail.cfg", 900), ("Submitter", "MC_Submitter_direct_hist.cfg", 900)]
    if tier == "thorough":
        good += [("Submitter", "MC_Submitter_big.cfg", 1800), ("Submitter", "MC_Submitter_hist_big.cfg", 1800),
                 ("Submitter", "MC_Submitter_hist_cacheok_big.cfg", 1800),
                 ("SubmitterInst", "MC_SubmitterInst_percall_big.cfg", 1800),
                 ("Submitter", "MC_Submitter_kinds_big.cfg", 1800), ("Submitter", "MC_Submitter_allfailed_big.cfg", 1800),
                 ("Submitter", "MC_Submitter_hist_kinds.cfg", 1800), ("Submitter", "MC_Submitter_direct_big.cfg", 1800)]

    def killed(out):
        """the JVM was killed from outside (the machine's OOM killer under load): TLC said neither that it had
        finished nor what was wrong - infrastructure, the run is repeated"""
        return "Error:" not in out and "Model checking completed" not in out and "Finished in" not in out

    def run_good(job):
        module, cfg, timeout = job
        # the quick configurations have at most a few 100 000 states: a small heap keeps the resident size small
        heap = "2g" if timeout <= 900 else "6g"
        for attempt in range(3):
            try:
                return vf.tlc_exhaustive(PID, module, cfg, workers=1 if "Scatter" in cfg else 4, timeout=timeout,
                                         coverage=(cfg == "MC_Submitter_big.cfg"), heap=heap)
            except vf.Broken as e:
                if attempt == 2 or "(error None)" not in str(e) or not killed(str(e)):
                    raise
                vf.log("TLC run of %s was killed from outside; repeating it" % cfg)
                time.sleep(20)

    def run_dev(job):
        module, cfg, expect = job
        for attempt in range(3):
            r = vf.tlc(PID, "dev-" + cfg.replace(".cfg", ""), module, cfg, workers=2, timeout=600, heap="2g")
            if r["kind"] == "error" and not r["timed_out"] and killed(r["out"]) and attempt < 2:
                vf.log("TLC run of %s was killed from outside; repeating it" % cfg)
                time.sleep(20)
                continue
            break
        if r["kind"] != "invariant" or r["violated"] not in expect:
            raise vf.Broken("model self-check failed: %s/%s does not violate one of %s (%s %s)\n%s" % (
                module, cfg, expect, r["kind"], r["violated"], r["out"][-2000:]))
        vf.log("model self-check: %s/%s violates %s over histories (as it must)" % (module, cfg, r["violated"]))
        return r

    ex = concurrent.futures.ThreadPoolExecutor(max_workers=8)
    fg = [ex.submit(run_good, j) for j in good]
    fd = [ex.submit(run_dev, j) for j in DEVIATIONS]

    def join():
        try:
            for f in fg:
                v.add_mc(f.result())
            for f in fd:
                f.result()
        finally:
            ex.shutdown(wait=True, cancel_futures=True)
    return join


def run(tier):
    v = vf.Verdict(PID, tier)
    v.assumptions = [
        "Env_StepsAreFast: code steps take no time relative to the time-out (the caller is registered in Wait long before the time-out signal)",
        "Env_ErrorShapes: beacon nodes are scripted fakes at the eth2client submitter interfaces; their version strings and error texts (lighthouse/teku/nimbus rejection bodies) are the shapes the submitter's own parsers document",
        "timing: T = 200 ms, instants classified before/ambiguous/after with a 50 ms tolerance; a scenario during which a scheduling probe saw a stall > 20 ms is re-run and finally judged with every instant ambiguous",
        "immediate submitter: no time-out is configured there, its return instant and client-specific tolerance are not judged",
        "Env_ClientFixedPerAddress: within one history a node keeps its client type (the property lets the instance remember a client type a node reported at a successful lookup)",
        "Env_VersionStableWithinOverlap: while two submissions overlap, a node's version query either works for both or fails for both",
        "Env_HonoursContext: a node client ends a call in flight when the context it was given is cancelled (as go-eth2-client's HTTP requests do); the scripted node clients of both drivers do",
        "sibling fan-outs: the proposal preparer's own loop is bound (real service, node clients faked); the block relay's registration fan-outs (regnodes, regrelays) are model-level here and bound by C11's driver",
    ]
    join = model_checks(v, tier)     # TLC runs side by side with the scenario generation ...
    try:
        sc = scenarios(tier)
        start_early(sc)              # the wired, untimed family is recorded meanwhile
    finally:
        join()                       # ... but never with the timed driver
    # The wired sibling family first: none of its instants is judged, so it gives a verdict however loaded the
    # machine is.  A reproduced violation is final (exit 1) - the timed families could only add to it.
    direct = [s for s in sc if s.get("sub") == "direct"]
    vf.conformance(v, direct, driver, "Trace_Submitter", "Trace_Submitter.cfg", sig_of, nontrivial, tlc_timeout=1200)
    if v.violations:
        return v.finish()
    vf.conformance(v, [s for s in sc if s.get("sub") != "direct"], driver, "Trace_Submitter", "Trace_Submitter.cfg", sig_of,
                   nontrivial, tlc_timeout=1200)
    v.coverage["rule"] = ("multinode: every assignment of the 7 outcomes to 3 nodes (TLC-enumerated) for attestations and sync "
                          "messages (all 8 kinds in thorough, a seeded sample of the others in quick), every assignment of the 4 "
                          "prompt outcomes with concurrency 1 < 3 nodes, the whole classifier table "
                          "(one node, every client x reply shape per kind), plus TLC-simulated "
                          "submissions (any client x reply shape, 1-4 nodes, concurrency 1-8, payload 1-13); HISTORIES on one instance "
                          "(TLC: Scen_SubmitterHist): poison x probe pairs (any kind with the first node's version query failing "
                          "or working, then a kind with tolerated rejections), overlapped pairs of different kinds (a held node "
                          "reply of the first is released when the second has returned), simulated histories of 2-4 submissions "
                          "(per submission: kind, payload, per node outcome and version-query outcome; EVERY KIND WITH ITS OWN NODE LIST: "
                          "any non-empty subset of the pool per kind), per-kind node lists of different sizes on one instance with every "
                          "kind run (8 patterns: one kind has the whole pool of 3, the others 2 or 1 peers) x vectors in which prompt / "
                          "delayed rejections arrive before the first acceptance within the time-out (ranks of delay 30/60/90 ms chosen "
                          "by TLC: the order of the completions); immediate: every "
                          "kind x outcome; util.Scatter: items x concurrency 0..64, one trace line each; SIBLING FAN-OUT on the real proposal preparer "
                          "(TLC: Scen_SubmitterDirect): every vector of accept / reject / not active / client time-out / delayed accept "
                          "(ranks 1, 2) / delayed reject / hang over 1-3 node clients that honour their context (quick: all without a "
                          "hang, a sample with), simulated histories of 2-3 UpdatePreparations on one instance; non-trivial = at least "
                          "one faulty node and at least one node really called (Scatter: more than one item); distinct by scenario")
    return v.finish()


def replay(path):
    v = vf.Verdict(PID, "quick")
    with open(os.path.join(path, "scenario.json")) as fh:
        s = json.load(fh)
    vf.conformance(v, [s], driver, "Trace_Submitter", "Trace_Submitter.cfg", sig_of, nontrivial)
    return 1 if v.violations else 0
