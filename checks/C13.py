"""C13 — only configured accounts validate, and only while their validator is active (spec/Accounts.tla)."""
import json
import os
import random
import vf

PID = "C13"
DRIVERS = {
    "wallet": ("./services/accountmanager/wallet", "TestVerifC13Wallet"),
    "dirk": ("./services/accountmanager/dirk", "TestVerifC13Dirk"),
}


def mgr_of(s):
    return s["steps"][0]["mgr"]


def driver(scenarios, tag):
    """Each scenario runs on the manager it names; the rows come back in scenario order."""
    per = {}
    for mgr, (pkg, test) in DRIVERS.items():
        sel = [s for s in scenarios if mgr_of(s) == mgr]
        if not sel:
            continue
        for r in vf.run_driver(PID, pkg, test, sel, "%s-%s" % (tag, mgr), timeout=1500):
            per.setdefault(r.get("sc"), []).append(r)
    rows = []
    for s in scenarios:
        rows += per.get(s["sc"], [])
    return rows


def top_alt(spec):
    return spec.get("form") == "pat" and spec["p"]["t"] == "alt"


def sig_of(s):
    r = s["steps"][0]
    shape = "toplevel-alternation" if any(top_alt(sp) for sp in r["cfg"]) else "other"
    return {"family": s.get("family", "?"), "mgr": r["mgr"], "specifier_shape": shape}


def nontrivial(s, rows):
    fam = s.get("family")
    refreshes = [r for r in rows if r.get("ev") == "Refresh"]
    queries = [r for r in rows if r.get("ev") == "Query"]
    if fam == "match":
        # the antecedent of (a): something offered must be refused and something taken
        return any(0 < len(r["known"]) < len(r["offer"]) for r in refreshes)
    if fam == "life":
        # the antecedent of (b): an account that validates at some epoch and not at another
        seen = {}
        for q in queries:
            if q["kind"] == "validating":
                for e in q["reply"]:
                    seen.setdefault(json.dumps(e[1]), set()).add(q["epoch"])
        nq = len([q for q in queries if q["kind"] == "validating"])
        return any(0 < len(v) < nq for v in seen.values())
    if fam == "hist":
        # the antecedent of (c): a refresh that fetches nothing while something is known
        had_known = had_vals = False
        for r in refreshes:
            if had_known and mgr_of(s) == "dirk" and not r["offer"]:
                return True
            if had_vals and (r["mode"] == "err" or not r["recs"]):
                return True
            had_known = had_known or bool(r["known"])
            had_vals = had_vals or bool(r["vals"])
        return False
    return False


def scenarios(tier):
    rnd = random.Random(vf.seed())
    out = []
    # (a) matching: exhaustive over the pattern grammar
    hs = vf.tlc_scenarios(PID, "Scen_Accounts", "Scen_Accounts_match.cfg", exhaustive=True, timeout=900,
                          name="scen-match")

    def anchored(h):
        return any(sp.get("pre") or sp.get("post") for sp in h[0]["cfg"])

    def topalt(h):
        return any(top_alt(sp) for sp in h[0]["cfg"])

    plain = [h for h in hs if not anchored(h) and not topalt(h)]
    anch = [h for h in hs if anchored(h) and not topalt(h)]
    alts = [h for h in hs if topalt(h)]
    rnd.shuffle(anch)
    rnd.shuffle(alts)
    # quick: every pattern without explicit anchors, a seeded sample of the anchored variants and of the
    # top-level alternations (the shape of the open finding D15); thorough: everything
    sel = plain + (anch[:200] + alts[:24] if tier == "quick" else anch + alts)
    out += [("match", h) for h in sel]
    # (b) lifecycles and (c) refresh histories: seeded simulation
    nl, nh = (140, 160) if tier == "quick" else (4000, 3000)
    hl = vf.tlc_scenarios(PID, "Scen_Accounts", "Scen_Accounts_life.cfg", num=nl, depth=8, timeout=900,
                          name="scen-life")
    out += [("life", h) for h in hl[:nl]]
    hh = vf.tlc_scenarios(PID, "Scen_Accounts", "Scen_Accounts_hist.cfg", num=max(20, nh // 8), depth=12, timeout=900,
                          name="scen-hist")
    rnd.shuffle(hh)
    out += [("hist", h) for h in hh[:nh]]
    return [{"sc": i + 1, "family": f, "steps": h} for i, (f, h) in enumerate(out)]


def lifecycle_coverage(sc):
    recs = set()
    for s in sc:
        if s["family"] != "life":
            continue
        for st in s["steps"]:
            for r in st.get("recs", []) if st["ev"] == "Refresh" else []:
                recs.add((r["elig"], r["act"], r["exit"], r["wd"], r["slashed"], r["bal0"]))
    return len(recs)


def under_admissions(sc, tracefiles):
    """Informational (never a verdict): offered accounts a specifier admits that the manager did not take.
    The property is an only-if; this is reported so that the reader sees where the managers are stricter."""
    n = 0
    examples = []
    byid = {s["sc"]: s for s in sc}
    for tf in tracefiles:
        if not os.path.exists(tf):
            continue
        for r in vf.read_ndjson(tf):
            if r.get("ev") != "Refresh":
                continue
            s = byid.get(r["sc"])
            if not s or s["family"] != "match":
                continue
            # cheap textual criterion for the two forms whose meaning is "every account of the wallet"
            paths = s["steps"][0]["paths"]
            for p in paths:
                if "/" not in p or p.endswith("/"):
                    w = p.rstrip("/")
                    offered = [o for o in r["offer"] if o[0] == w]
                    known = [k for k in r["known"] if k[0] == w]
                    if len(known) < len(offered):
                        n += 1
                        if len(examples) < 3:
                            examples.append({"mgr": s["steps"][0]["mgr"], "specifier": p,
                                             "offered": len(offered), "taken": len(known)})
    return n, examples


def run(tier):
    v = vf.Verdict(PID, tier)
    v.assumptions = [
        "Env_WalletByName: the text before the slash of a specifier is a wallet name (both managers open the wallet "
        "by that name); patterns are in the account part",
        "Env_WellFormedValidator: validator records are what the beacon chain can produce (epochs ordered, a slashed "
        "validator has an exit epoch, withdrawable epoch set iff exit epoch set); the beacon node keys its answer "
        "by the validator's index and filters by the public keys asked for (none asked = no filter)",
        "admission is checked as stated (only-if): every account held is admitted by a specifier; accounts a "
        "specifier admits but the manager does not take are counted in evidence (under_admissions), not judged",
        "dirk: no Dirk server exists in the sandbox - the service's wallet cache is filled with scripted wallets "
        "over real accounts; gRPC listing / signing is not exercised.  wallet: real filesystem store with real nd "
        "wallets; its local refresh always sees every account",
        "regular-expression semantics of Go's regexp package are trusted for what a compiled expression matches; "
        "the specification decides what a specifier MEANS",
    ]
    v.add_mc(vf.tlc_exhaustive(PID, "MC_Accounts", "MC_Accounts.cfg"))
    if tier == "thorough":
        v.add_mc(vf.tlc_exhaustive(PID, "MC_Accounts", "MC_Accounts_big.cfg", coverage=True, timeout=1800))
    sc = scenarios(tier)
    vf.conformance(v, sc, driver, "Trace_Accounts", "Trace_Accounts.cfg", sig_of, nontrivial, chunk=400,
                   tlc_timeout=1500, max_failures=3)
    d = vf.outdir(PID)
    ua, ex = under_admissions(sc, [os.path.join(d, "trace-batch-%s.ndjson" % m) for m in DRIVERS])
    v.coverage["rule"] = ("(a) every pattern of the grammar (depth 2 over {a,b,.,[ab]} and their stars, plus depth-3 "
                          "shapes with an alternation inside) as a specifier, on both managers, against all names of "
                          "length <= 3; (b) TLC-simulated validator lifecycles x every query x epochs 0..5; (c) "
                          "TLC-simulated refresh histories.  non-trivial: (a) something offered is refused and "
                          "something taken, (b) an account validates at some epoch and not at another, (c) a refresh "
                          "fetches nothing while something is known; distinct by scenario")
    return v.finish(extra={"distinct_lifecycles": lifecycle_coverage(sc), "under_admissions": ua,
                           "under_admission_examples": ex})


def replay(path):
    v = vf.Verdict(PID, "quick")
    with open(os.path.join(path, "scenario.json")) as fh:
        s = json.load(fh)
    vf.conformance(v, [s], driver, "Trace_Accounts", "Trace_Accounts.cfg", sig_of, nontrivial)
    return 1 if v.violations else 0
