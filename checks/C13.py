"""C13 — only configured accounts validate, and only while their validator is active (spec/Accounts.tla)."""
import concurrent.futures
import json
import os
import random
import vf

PID = "C13"
DRIVERS = {
    "wallet": ("./services/accountmanager/wallet", "TestVerifC13Wallet"),
    "dirk": ("./services/accountmanager/dirk", "TestVerifC13Dirk"),
}


def mgr_of(s):
    return s["steps"][0]["mgr"]


def driver(scenarios, tag):
    """Each scenario runs on the manager it names; the rows come back in scenario order.
    (The two drivers run one after the other: vf.go_test rewrites one overlay.json per property on every call,
    a second go test starting at that moment reads a truncated file.)"""
    per = {}
    for mgr, (pkg, test) in DRIVERS.items():
        sel = [s for s in scenarios if mgr_of(s) == mgr]
        if not sel:
            continue
        for r in vf.run_driver(PID, pkg, test, sel, "%s-%s" % (tag, mgr), timeout=1500):
            per.setdefault(r.get("sc"), []).append(r)
    rows = []
    for s in scenarios:
        rows += per.get(s["sc"], [])
    return rows


def top_alt(spec):
    return spec.get("form") == "pat" and spec["p"]["t"] == "alt"


def sig_of(s):
    r = s["steps"][0]
    shape = "toplevel-alternation" if any(top_alt(sp) for sp in r["cfg"]) else "other"
    return {"family": s.get("family", "?"), "mgr": r["mgr"], "specifier_shape": shape}


def nontrivial(s, rows):
    fam = s.get("family")
    refreshes = [r for r in rows if r.get("ev") == "RefreshA"]
    queries = [r for r in rows if r.get("ev") == "Query"]
    if fam == "match":
        # the antecedent of (a): something offered must be refused and something taken
        return any(0 < len(r["known"]) < len(r["offer"]) for r in refreshes)
    if fam == "life":
        # the antecedent of (b): an account that validates at some epoch and not at another
        seen = {}
        for q in queries:
            if q["kind"] == "validating":
                for e in q["reply"]:
                    seen.setdefault(json.dumps(e[1]), set()).add(q["epoch"])
        nq = len([q for q in queries if q["kind"] == "validating"])
        return any(0 < len(v) < nq for v in seen.values())
    if fam in ("hist", "vanish"):
        # the antecedent of (c): a refresh that fetches nothing while something is known; and of (b) over a
        # history: a query answered while the validators manager's table holds a validator that is not (or no
        # longer) the manager's, or a query / refresh that another call overlapped
        had_known = had_vals = False
        known = set()
        for r in rows:
            ev = r.get("ev")
            if ev == "RefreshA":
                if had_known and mgr_of(s) == "dirk" and not r["offer"]:
                    return True
                known = set(json.dumps(k) for k in r["known"])
                had_known = had_known or bool(known)
            elif ev == "RefreshV":
                if had_vals and (r["mode"] == "err" or not r["recs"]):
                    return True
                had_vals = had_vals or bool(r["vals"])
                vals = set(json.dumps(p[1]) for p in r["vals"])
                if vals - known:
                    return True
            elif ev in ("QueryCall", "QueryReturn"):
                return True
        return False
    return False


def overlapped(rows):
    """(refreshes held between their parts with a query inside, queries under way over a refresh part)"""
    held = over = 0
    in_refresh = in_query = False
    for r in rows:
        ev = r.get("ev")
        if ev == "RefreshA":
            in_refresh = True
            over += 1 if in_query else 0
        elif ev == "RefreshV":
            in_refresh = False
        elif ev == "Query" and in_refresh:
            held += 1
            in_refresh = False
        elif ev == "QueryCall":
            in_query = True
        elif ev == "QueryReturn":
            in_query = False
    return held, over


def scenarios(tier):
    rnd = random.Random(vf.seed())
    out = []
    nl, nh, nv = (140, 200, 160) if tier == "quick" else (4000, 3000, None)
    with concurrent.futures.ThreadPoolExecutor(max_workers=4) as pool:
        def gen(cfg, name, **kw):
            return pool.submit(vf.tlc_scenarios, PID, "Scen_Accounts", cfg, timeout=900, name=name, **kw)
        # (a) matching: exhaustive over the pattern grammar
        fm = gen("Scen_Accounts_match.cfg", "scen-match", exhaustive=True)
        # (b) lifecycles: seeded simulation
        fl = gen("Scen_Accounts_life.cfg", "scen-life", num=nl, depth=8)
        # (b) + (c) over histories on one pair of instances: the directed core (enumerated by TLC; all of it in
        # the thorough tier, a seeded sample in the quick tier) and seeded simulation of longer histories
        fv = gen("Scen_Accounts_vanish.cfg", "scen-vanish", exhaustive=True)
        fh = gen("Scen_Accounts_hist.cfg", "scen-hist", num=max(20, nh), depth=48)
        hs, hl, hv, hh = fm.result(), fl.result(), fv.result(), fh.result()

    def anchored(h):
        return any(sp.get("pre") or sp.get("post") for sp in h[0]["cfg"])

    def topalt(h):
        return any(top_alt(sp) for sp in h[0]["cfg"])

    plain = [h for h in hs if not anchored(h) and not topalt(h)]
    anch = [h for h in hs if anchored(h) and not topalt(h)]
    alts = [h for h in hs if topalt(h)]
    rnd.shuffle(anch)
    rnd.shuffle(alts)
    # quick: every pattern without explicit anchors, a seeded sample of the anchored variants and of the
    # top-level alternations (the shape of the open finding D15); thorough: everything
    sel = plain + (anch[:200] + alts[:24] if tier == "quick" else anch + alts)
    out += [("match", h) for h in sel]
    out += [("life", h) for h in hl[:nl]]
    hv.sort(key=lambda h: json.dumps(h, sort_keys=True))
    rnd.shuffle(hv)
    out += [("vanish", h) for h in (hv if nv is None else hv[:nv])]
    hh.sort(key=lambda h: json.dumps(h, sort_keys=True))
    rnd.shuffle(hh)
    out += [("hist", h) for h in hh[:nh]]
    return [{"sc": i + 1, "family": f, "steps": h} for i, (f, h) in enumerate(out)]


def lifecycle_coverage(sc):
    recs = set()
    for s in sc:
        if s["family"] != "life":
            continue
        for st in s["steps"]:
            for r in st.get("recs", []) if st["ev"] == "Refresh" else []:
                recs.add((r["elig"], r["act"], r["exit"], r["wd"], r["slashed"], r["bal0"]))
    return len(recs)


def under_admissions(sc, tracefiles):
    """Informational (never a verdict): offered accounts a specifier admits that the manager did not take.
    The property is an only-if; this is reported so that the reader sees where the managers are stricter."""
    n = 0
    examples = []
    byid = {s["sc"]: s for s in sc}
    for tf in tracefiles:
        if not os.path.exists(tf):
            continue
        for r in vf.read_ndjson(tf):
            if r.get("ev") != "RefreshA":
                continue
            s = byid.get(r["sc"])
            if not s or s["family"] != "match":
                continue
            # cheap textual criterion for the two forms whose meaning is "every account of the wallet"
            paths = s["steps"][0]["paths"]
            for p in paths:
                if "/" not in p or p.endswith("/"):
                    w = p.rstrip("/")
                    offered = [o for o in r["offer"] if o[0] == w]
                    known = [k for k in r["known"] if k[0] == w]
                    if len(known) < len(offered):
                        n += 1
                        if len(examples) < 3:
                            examples.append({"mgr": s["steps"][0]["mgr"], "specifier": p,
                                             "offered": len(offered), "taken": len(known)})
    return n, examples


def model_checks(tier):
    mcs = [("MC_Accounts", "MC_Accounts.cfg", False), ("MC_Accounts", "MC_Accounts_overlap.cfg", False)]
    if tier == "thorough":
        mcs += [("MC_Accounts", "MC_Accounts_big.cfg", True), ("MC_Accounts", "MC_Accounts_overlap_big.cfg", False)]
    return mcs


CONTROLS = [
    # design, invariants one of which TLC must report, what it is
    ("direct", ("NoStrangers",), "by-index lookups that ask the validators manager by index and do not look "
     "whether the account is (still) held (seeded/C13-byindex-bypasses-known-accounts)"),
    ("split", ("NoStrangers",), "a query that takes the keys at the call and looks the accounts up again after "
     "the validators lookup, with a refresh in between"),
    ("memo", ("ExactlyActive",), "replies memoised on the instance and kept through a refresh"),
]


def selfcheck():
    """Vacuity: designs that are right on every fresh pair of instances (FreshOnly passes) and wrong only over a
    history / an overlap must be rejected by TLC."""
    done = []
    for design, allowed, what in CONTROLS:
        r = vf.tlc(PID, "ctl-%s-fresh" % design, "AccountsCtl", "MC_AccountsCtl_%s_fresh.cfg" % design, workers=2,
                   timeout=600)
        if not r["ok"]:
            raise vf.Broken("model self-check failed: control design '%s' is not right on a fresh instance (%s %s)\n%s"
                            % (design, r["kind"], r["violated"], r["out"][-2000:]))
        r = vf.tlc(PID, "ctl-%s" % design, "AccountsCtl", "MC_AccountsCtl_%s.cfg" % design, workers=2, timeout=600)
        if r["kind"] != "invariant" or r["violated"] not in allowed:
            raise vf.Broken("model self-check failed: %s does not violate %s (%s %s)\n%s" % (
                what, " / ".join(allowed), r["kind"], r["violated"], r["out"][-2000:]))
        vf.log("model self-check: control design '%s' passes on fresh instances and violates %s over histories "
               "(as it must)" % (design, r["violated"]))
        done.append({"design": design, "violates": r["violated"], "what": what})
    return done


def run(tier):
    v = vf.Verdict(PID, tier)
    v.assumptions = [
        "Env_WalletByName: the text before the slash of a specifier is a wallet name (both managers open the wallet "
        "by that name); patterns are in the account part",
        "Env_WellFormedValidator: validator records are what the beacon chain can produce (epochs ordered, a slashed "
        "validator has an exit epoch, withdrawable epoch set iff exit epoch set); the beacon node keys its answer "
        "by the validator's index and filters by the public keys asked for (none asked = no filter)",
        "admission is checked as stated (only-if): every account held is admitted by a specifier; accounts a "
        "specifier admits but the manager does not take are counted in evidence (under_admissions), not judged",
        "dirk: no Dirk server exists in the sandbox - the service's wallet cache is filled with scripted wallets "
        "over real accounts; gRPC listing / signing is not exercised.  wallet: real filesystem store with real nd "
        "wallets; an account is withdrawn from / given back to the store by renaming its file",
        "histories: one account manager and one validators manager per history (created at Reset, kept to the end); "
        "per refresh the accounts offered and the beacon node's answer are independent (any of the offers incl. fewer "
        "than before; answer / failure / empty answer); overlap is controlled at the two places where the calls wait "
        "on something outside the account manager: the beacon node request of the refresh job (between its accounts "
        "part and its validators part) and the validators manager's lookup of a query (before or after the real "
        "lookup).  A query that other calls overlap must be exact for an account set and a table the instances held "
        "at some moment of the call (each from its own moment); a call the code orders after a held one (a lock kept "
        "across the wait) is waited for by letting the held call go - only a call that does not return with nothing "
        "held is the event Hung, a panic is the event Crash (no action of the specification allows either)",
        "regular-expression semantics of Go's regexp package are trusted for what a compiled expression matches; "
        "the specification decides what a specifier MEANS",
    ]
    with concurrent.futures.ThreadPoolExecutor(max_workers=4) as pool:
        # the model-checking runs and the self-checks go on beside scenario generation and the drivers
        futs = [pool.submit(vf.tlc_exhaustive, PID, m, c, 2 if tier == "quick" else 6, 1800, "6g", cov, None) for m, c, cov in model_checks(tier)]
        fself = pool.submit(selfcheck)
        try:
            sc = scenarios(tier)
            vf.conformance(v, sc, driver, "Trace_Accounts", "Trace_Accounts.cfg", sig_of, nontrivial, chunk=400,
                           tlc_timeout=1500, max_failures=3)
        finally:
            for f in futs:
                v.add_mc(f.result())
            v.coverage["control_designs_rejected"] = fself.result()
    d = vf.outdir(PID)
    ua, ex = under_admissions(sc, [os.path.join(d, "trace-batch-%s.ndjson" % m) for m in DRIVERS])
    v.coverage["rule"] = ("(a) every pattern of the grammar (depth 2 over {a,b,.,[ab]} and their stars, plus depth-3 "
                          "shapes with an alternation inside) as a specifier, on both managers, against all names of "
                          "length <= 3; (b) TLC-simulated validator lifecycles x every query x epochs 0..5; (b)+(c) "
                          "histories on one pair of long-lived instances: the TLC-enumerated directed core 'vanish' "
                          "(accounts known, then fewer offered x every outcome of the validators part; the refresh "
                          "whole / held between its parts / running while a query is under way; all four queries "
                          "naming every index) and TLC-simulated longer histories (7 offers x 4 node outcomes per "
                          "refresh, all four queries with 4 index sets, held refreshes, held queries).  non-trivial: "
                          "(a) something offered is refused and something taken, (b) an account validates at some "
                          "epoch and not at another, histories: a refresh fetches nothing while something is known, "
                          "or the validators manager's table holds a validator that is not (no longer) the "
                          "manager's, or calls overlap; distinct by scenario")
    held = over = 0
    per = {}
    for m in DRIVERS:
        tf = os.path.join(d, "trace-batch-%s.ndjson" % m)
        for r in (vf.read_ndjson(tf) if os.path.exists(tf) else []):
            per.setdefault(r.get("sc"), []).append(r)
    for rows in per.values():
        h, o = overlapped(rows)
        held += h
        over += o
    fam = {}
    for x in sc:
        fam[x["family"]] = fam.get(x["family"], 0) + 1
    return v.finish(extra={"distinct_lifecycles": lifecycle_coverage(sc), "under_admissions": ua,
                           "under_admission_examples": ex, "scenarios_by_family": fam,
                           "refreshes_with_queries_between_their_parts": held,
                           "refresh_parts_run_while_a_query_was_under_way": over})


def replay(path):
    v = vf.Verdict(PID, "quick")
    with open(os.path.join(path, "scenario.json")) as fh:
        s = json.load(fh)
    vf.conformance(v, [s], driver, "Trace_Accounts", "Trace_Accounts.cfg", sig_of, nontrivial)
    return 1 if v.violations else 0
