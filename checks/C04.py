"""C04 — each attestation carries exactly its validator's assignment and the agreed data (spec/Attester.tla)."""
import json
import os
import random
import vf

PID = "C04"
PKG = "./services/attester/standard"
TEST = "TestVerifC04"
TRACE = ("Trace_Attester", "Trace_Attester_C04.cfg")


def driver(scenarios, tag):
    return vf.run_driver(PID, PKG, TEST, scenarios, tag)


def _shape(steps):
    """(validators of the duty under test, already attested, without account, unsigned) of the last run."""
    runs = [st["run"] for st in steps if st["ev"] == "Deliver"]
    if not runs:
        return [], set(), set(), set()
    test = runs[-1]
    duty = [st for st in steps if st["ev"] == "Deliver" and st["run"] == test][0]["duty"]
    epoch = duty["slot"] // 32
    pre = set()
    for st in steps:
        if st["ev"] == "Deliver" and st["run"] != test and st["duty"]["slot"] // 32 == epoch:
            pre |= set(st["duty"]["vals"])
    vals = duty["vals"]
    pre &= set(vals)
    acc = [st for st in steps if st["ev"] == "Accounts" and st["run"] == test and not st.get("err")]
    noacct = (set(vals) - pre - set(acc[0]["accts"])) if acc else set()
    sg = [st for st in steps if st["ev"] == "Sign" and st["run"] == test]
    zero = set(sg[0]["zero"]) if sg else set()
    return vals, pre, noacct, zero


def sig_of(s):
    vals, pre, noacct, zero = _shape(s["steps"])
    first_skipped = bool(vals) and vals[0] in pre
    return {"merge": s.get("merge", False), "skips_already_attested": bool(pre),
            "skips_without_account": bool(noacct), "has_unsigned": bool(zero),
            "validators": len(vals), "first_skipped": first_skipped}


def nontrivial(s, rows):
    # the duty under test skips somebody (already attested, no account or unsigned) and still submits
    vals, pre, noacct, zero = _shape(s["steps"])
    sub = [r for r in rows if r["ev"] == "Submit" and r["atts"]]
    return bool(sub) and bool(pre or noacct or zero)


def scenarios(tier):
    rnd = random.Random(vf.seed())
    hs = vf.tlc_scenarios(PID, "Scen_Attester", "Scen_Attester_c04.cfg", exhaustive=True, workers=min(vf.NCPU, 8),
                          timeout=600, name="scen-c04")
    hs.sort(key=lambda h: json.dumps(h, sort_keys=True))
    n = 900 if tier == "quick" else 9000
    if len(hs) > n:
        hs = rnd.sample(hs, n)
    out = [{"sc": i + 1, "mode": "gated", "strategy": "", "merge": i % 3 == 2, "steps": h} for i, h in enumerate(hs)]
    # larger duties (5 validators in 3 committees), TLC simulation of the same generator
    m = 150 if tier == "quick" else 6000
    big = vf.tlc_scenarios(PID, "Scen_Attester", "Scen_Attester_c04big.cfg", num=m, depth=60, name="scen-c04big",
                           timeout=300 if tier == "quick" else 900)
    for h in big[:(120 if tier == "quick" else 4000)]:
        out.append({"sc": len(out) + 1, "mode": "gated", "strategy": "", "merge": len(out) % 3 == 2, "steps": h})
    return out


def run(tier):
    v = vf.Verdict(PID, tier)
    v.assumptions = [
        "Env_DutyWellFormed: validators of a duty are distinct, arrays parallel, every committee has a size, position < size",
        "Env_AccountsSubset: the account manager returns accounts of requested validators only; the signer returns one "
        "signature per account",
        "the fake signer's signature encodes (validator of the account, committee index, slot, source, target, roots)",
    ]
    v.add_mc(vf.tlc_exhaustive(PID, "MC_Attester", "MC_Attester_C04.cfg"))
    if tier == "thorough":
        v.add_mc(vf.tlc_exhaustive(PID, "MC_Attester", "MC_Attester_C04big.cfg", timeout=1200))
    sc = scenarios(tier)
    vf.conformance(v, sc, driver, TRACE[0], TRACE[1], sig_of, nontrivial, dfs=True, chunk=1500)
    v.coverage["rule"] = ("scenarios enumerated by TLC from Attester.tla: (optional preparatory run making a subset already "
                          "attested) x duty under test (every order and committee assignment of <= 3 validators; seeded "
                          "simulation for 5 validators in 3 committees) x subset without account x subset unsigned x submit "
                          "ok/error; a third built through attester.MergeDuties; non-trivial = the duty skips a validator and "
                          "still submits; distinct by step list")
    return v.finish()


def replay(path):
    v = vf.Verdict(PID, "quick")
    with open(os.path.join(path, "scenario.json")) as fh:
        s = json.load(fh)
    vf.conformance(v, [s], driver, TRACE[0], TRACE[1], sig_of, nontrivial, dfs=True)
    return 1 if v.violations else 0
