"""C04 — each attestation carries exactly its validator's assignment and the agreed data (spec/Attester.tla)."""
import json
import os
import random
import threading
import vf

PID = "C04"
PKG = "./services/attester/standard"
TEST = "TestVerifC04"
TRACE = ("Trace_Attester", "Trace_Attester_C04.cfg")


def driver(scenarios, tag):
    return vf.run_driver(PID, PKG, TEST, scenarios, tag)


# ---- the WIRED family (spec/AttesterChain.tla): real validators manager, real wallet / dirk account manager, real
# attester, signer and submitter on one instance per history; the fakes are the beacon node and the wallet store
W_PKG = "./services/accountmanager/dirk"      # (the dirk manager can only be given wallets from inside its package)
W_TEST = "TestVerifC04Wired"
W_TRACE = ("Trace_AttesterChain", "Trace_AttesterChain.cfg")


def wired_driver(scenarios, tag):
    return vf.run_driver(PID, W_PKG, W_TEST, scenarios, "wired-" + tag)


def wired_sig(s):
    st = s["steps"]
    return {"kind": "wired", "mgr": st[0].get("mgr", ""), "history": True,
            "refreshes": sum(1 for x in st if x["ev"] == "Refresh")}


def wired_nontrivial(s, rows):
    """In the RECORDED trace: attestations reached the node after a refresh (not the start-up one) whose answer was not
    complete - partial, empty or an error - for the accounts then held, i.e. the validator records behind the
    attestation have a history."""
    seen_refresh, incomplete = 0, False
    for r in rows:
        if r["ev"] == "Refresh":
            seen_refresh += 1
            if seen_refresh > 1 and (r["err"] or not set(r["held"]) <= set(r["knows"])):
                incomplete = True
        elif r["ev"] == "Attest" and r["atts"] and incomplete:
            return True
    return False


def wired_scenarios(tier):
    num = 320 if tier == "quick" else 4000
    hs = vf.tlc_scenarios(PID, "Scen_AttesterChain", "Scen_AttesterChain.cfg", num=num, depth=40, name="scen-wired",
                          timeout=300 if tier == "quick" else 900)
    return [{"sc": 300001 + i, "kind": "wired", "steps": h} for i, h in enumerate(hs[:num])]


def wired_conformance(v, sc):
    # (its replay directories are numbered from 101: the other families number theirs from 1)
    orig = vf.save_replay
    vf.save_replay = lambda pid, n, *a: orig(pid, n + 100, *a)
    try:
        vf.conformance(v, sc, wired_driver, W_TRACE[0], W_TRACE[1], wired_sig, wired_nontrivial, chunk=2000)
    finally:
        vf.save_replay = orig


def _shape(steps):
    """(validators of the duty under test, already attested, without account, unsigned) of the last run."""
    runs = [st["run"] for st in steps if st["ev"] == "Deliver"]
    if not runs:
        return [], set(), set(), set()
    test = runs[-1]
    duty = [st for st in steps if st["ev"] == "Deliver" and st["run"] == test][0]["duty"]
    epoch = duty["slot"] // 32
    pre = set()
    for st in steps:
        if st["ev"] == "Deliver" and st["run"] != test and st["duty"]["slot"] // 32 == epoch:
            pre |= set(st["duty"]["vals"])
    vals = duty["vals"]
    pre &= set(vals)
    acc = [st for st in steps if st["ev"] == "Accounts" and st["run"] == test and not st.get("err")]
    noacct = (set(vals) - pre - set(acc[0]["accts"])) if acc else set()
    sg = [st for st in steps if st["ev"] == "SignRet" and st["run"] == test]
    zero = set(sg[0]["zero"]) if sg else set()
    return vals, pre, noacct, zero


def sig_of(s):
    vals, pre, noacct, zero = _shape(s["steps"])
    first_skipped = bool(vals) and vals[0] in pre
    return {"merge": s.get("merge", False), "skips_already_attested": bool(pre),
            "skips_without_account": bool(noacct), "has_unsigned": bool(zero),
            "validators": len(vals), "first_skipped": first_skipped,
            "history": s.get("kind") == "ovl", "hold": s["steps"][0].get("hold", "")}


def _overlaps(rows):
    """Pairs (A, B) of runs on the one instance such that B was given >= 1 account (and so worked out its per-validator
    values) after A had been given >= 2 and before A's submitter returned, A submitting some:
    A's request / attestations were exposed to B's work.  Taken from the recorded trace, not from the scenario."""
    acc, sub, duty = {}, {}, {}
    for i, r in enumerate(rows):
        if r["ev"] == "Deliver":
            duty[r["run"]] = r["duty"]
        elif r["ev"] == "Accounts" and not r["err"] and r["accts"]:
            acc[r["run"]] = (i, len(r["accts"]))
        elif r["ev"] == "SubmitRet" and r["atts"]:
            sub[r["run"]] = i
    n = 0
    for a, (ia, na) in acc.items():
        for b, (ib, nb) in acc.items():
            if a != b and na >= 2 and a in sub and ia < ib < sub[a] and duty[a] != duty[b]:
                n += 1
    return n


def _carried(rows):
    """Runs that submit after an earlier run on the instance has ended (state carried from call to call), the two
    duties sharing a validator or a committee index with different values."""
    ended, n = [], 0
    duty = {}
    for r in rows:
        if r["ev"] == "Deliver":
            duty[r["run"]] = r["duty"]
        elif r["ev"] == "Return":
            ended.append(r["run"])
        elif r["ev"] == "Submit" and r["atts"]:
            d = duty[r["run"]]
            for e in ended:
                o = duty[e]
                if o != d and (set(o["vals"]) & set(d["vals"]) or o["sizes"] != d["sizes"]):
                    n += 1
                    break
    return n


def nontrivial(s, rows):
    if s.get("kind") == "ovl":
        # a history on one instance in which a run's values were exposed to another run (overlap) or to an earlier one
        return _overlaps(rows) > 0 or _carried(rows) > 0
    # the duty under test skips somebody (already attested, no account or unsigned) and still submits
    vals, pre, noacct, zero = _shape(s["steps"])
    sub = [r for r in rows if r["ev"] == "Submit" and r["atts"]]
    return bool(sub) and bool(pre or noacct or zero)


def _interest(h):
    """(scenario side) how much of a run's work between its accounts and its submission is overlapped by other runs'
    accounts steps"""
    acc, end = {}, {}
    for i, st in enumerate(h):
        if st["ev"] == "Accounts" and not st.get("err") and len(st["accts"]) >= 1:
            acc[st["run"]] = (i, len(st["accts"]))
        elif st["ev"] == "SubmitRet":
            end[st["run"]] = i
    score = 0
    for a, (ia, na) in acc.items():
        for b, (ib, nb) in acc.items():
            if a != b and na >= 2 and a in end and ia < ib < end[a]:
                score += 2 if nb <= na else 1
    return score


def history_scenarios(tier, first_id):
    """Histories of several heterogeneous runs on ONE instance, overlapping (Scen_Attester mode c04ovl)."""
    rnd = random.Random(vf.seed() * 7919 + 1)
    num = 1800 if tier == "quick" else 12000
    want = 600 if tier == "quick" else 6000
    hs = vf.tlc_scenarios(PID, "Scen_Attester", "Scen_Attester_c04ovl.cfg", num=num, depth=100, name="scen-c04ovl",
                          timeout=300 if tier == "quick" else 1200)
    # the histories whose overlap exposes the most first, then a seeded sample of the rest; every hold point present
    ranked = sorted(hs, key=_interest, reverse=True)
    top = ranked[:want // 2]
    rest = ranked[want // 2:]
    rnd.shuffle(rest)
    pick = top + rest[:want - len(top)]
    out = []
    for i, h in enumerate(pick):
        out.append({"sc": first_id + i, "kind": "ovl", "mode": "gated", "strategy": "", "merge": i % 3 == 2, "steps": h})
    return out


def scenarios(tier, meanwhile=None):
    rnd = random.Random(vf.seed())
    # the three generators side by side (each a TLC process of its own)
    got = {}

    def gen(key, fn):
        try:
            got[key] = fn()
        except BaseException as e:
            got[key] = e

    jobs = [
        ("small", lambda: vf.tlc_scenarios(PID, "Scen_Attester", "Scen_Attester_c04.cfg", exhaustive=True, workers=4,
                                           timeout=600, name="scen-c04")),
        # larger duties (5 validators in 3 committees), TLC simulation of the same generator
        ("big", lambda: vf.tlc_scenarios(PID, "Scen_Attester", "Scen_Attester_c04big.cfg", num=150 if tier == "quick" else 6000,
                                         depth=60, name="scen-c04big", timeout=300 if tier == "quick" else 900)),
        ("hist", lambda: history_scenarios(tier, 100001)),
    ]
    ths = [threading.Thread(target=gen, args=j) for j in jobs]
    for t in ths:
        t.start()
    try:
        if meanwhile is not None:
            meanwhile()      # the wired family runs on the real code while the generators of the other families work
    finally:
        for t in ths:
            t.join()
    for k in got:
        if isinstance(got[k], BaseException):
            raise got[k]
    hs = got["small"]
    hs.sort(key=lambda h: json.dumps(h, sort_keys=True))
    n = 900 if tier == "quick" else 9000
    if len(hs) > n:
        hs = rnd.sample(hs, n)
    out = [{"sc": i + 1, "mode": "gated", "strategy": "", "merge": i % 3 == 2, "steps": h} for i, h in enumerate(hs)]
    for h in got["big"][:(120 if tier == "quick" else 4000)]:
        out.append({"sc": len(out) + 1, "mode": "gated", "strategy": "", "merge": len(out) % 3 == 2, "steps": h})
    return out + got["hist"]


def _killed(r):
    """TLC ended without a conclusion of its own (no error report, not finished, not timed out): the process was
    killed from outside - on a shared machine that runs out of memory the kernel does that."""
    return (not r["ok"]) and (not r["timed_out"]) and r["kind"] in (None, "error") and "Error:" not in r["out"]


def _tlc_retry(name, module, cfg, tries=3, **kw):
    import time
    for k in range(tries):
        r = vf.tlc(PID, name, module, cfg, **kw)
        if not _killed(r) or k == tries - 1:
            return r
        vf.log("TLC %s/%s was killed from outside (rc=%s); trying again" % (module, cfg, r["rc"]))
        time.sleep(10 + 20 * k)


def _exhaustive(module, cfg, workers, heap, timeout=900):
    """vf.tlc_exhaustive with another attempt when the JVM was killed from outside."""
    r = _tlc_retry("mc-" + cfg.replace(".cfg", ""), module, cfg, workers=workers, timeout=timeout, heap=heap)
    if r["timed_out"]:
        raise vf.Broken("TLC exhaustive run timed out (%s)" % cfg)
    if not r["ok"]:
        raise vf.Broken("TLC exhaustive run of %s/%s did not pass (%s %s); see %s/tlc.out\n%s" % (
            module, cfg, r["kind"], r["violated"], r["dir"], r["out"][-3000:]))
    vf.log("TLC %s/%s: %d states generated, %d distinct, %.1fs" % (module, cfg, r["generated"], r["distinct"], r["wall_s"]))
    return r


def _expect_violation(cfg, inv, timeout=600, module="AttesterScratch"):
    """A control design (spec/AttesterScratch.tla) that the invariants must reject: otherwise the model cannot see
    the class (broken run, never a verdict)."""
    r = _tlc_retry("mc-" + cfg.replace(".cfg", ""), module, cfg, workers=4, timeout=timeout, heap="2g")
    if r["timed_out"] or r["kind"] != "invariant" or r["violated"] != inv:
        raise vf.Broken("%s should violate %s (vacuous model?): %s %s\n%s" % (cfg, inv, r["kind"], r["violated"], r["out"][-1500:]))
    vf.log("TLC %s/%s: %s violated as it must be (%d distinct states, %.1fs)" % (module, cfg, inv, r["distinct"], r["wall_s"]))
    return r


def model(tier, out):
    """Exhaustive runs (in threads beside the driver); results / exception into out."""
    # (heaps no larger than the models need: the machine is shared)
    ex = lambda mod, cfg, **kw: (lambda: _exhaustive(mod, cfg, workers=6 if "timeout" in kw else 4,
                                                     heap="5g" if "timeout" in kw else "2g", **kw))
    bad = lambda cfg, inv, module="AttesterScratch": (lambda: _expect_violation(cfg, inv, module=module) and None)
    lanes = [
        [ex("MC_Attester", "MC_Attester_C04.cfg"),
         # two runs OVERLAPPING on one instance, duties whose positions and sizes differ from slot to slot
         ex("MC_Attester", "MC_Attester_C04ovl.cfg"),
         # ... a memo of committee sizes is rejected already by a sequential history ...
         bad("MC_AttesterScratch_memo.cfg", "AssignmentExact")],
        # control designs with state kept on the instance: retained arrays handed out by reference are rejected as soon
        # as two runs overlap (held at the signer: request; held in the signer: attestations) ...
        [bad("MC_AttesterScratch_shared_req.cfg", "SignAssignmentExact"),
         bad("MC_AttesterScratch_shared_att.cfg", "AssignmentExact"),
         # ... while they pass every sequential history (why call-after-call checks cannot see them) ...
         ex("AttesterScratch", "MC_AttesterScratch_seq.cfg")],
        # ... and copied out under the lock they are a legal implementation
        [ex("AttesterScratch", "MC_AttesterScratch_copy.cfg"),
         # the chain behind the attester (AttesterChain.tla): validator records with refresh histories (complete,
         # partial, empty answers, errors), wallet and dirk account managers, the controller's indices, the slot's job;
         # the attestation judged at the node (signature under the key of the validator it is attributed to) ...
         ex("AttesterChain", "MC_AttesterChain.cfg"),
         # ... and the deviations of that class must be rejected AT THE NODE: an omitted validator carried into two of
         # the validators manager's three maps; the index map filled with the place in the answer
         bad("MC_AttesterChain_carry2of3.cfg", "SignedByAssignee", "AttesterChain"),
         bad("MC_AttesterChain_rank.cfg", "SignedByAssignee", "AttesterChain")],
    ]
    if tier == "thorough":
        lanes[0] += [ex("MC_Attester", "MC_Attester_C04big.cfg", timeout=1200), ex("MC_Attester", "MC_Attester_C04ovlhuge.cfg", timeout=1500)]
        lanes[1] += [ex("MC_Attester", "MC_Attester_C04ovlbig.cfg", timeout=1200)]
        lanes[2] += [ex("AttesterScratch", "MC_AttesterScratch_copy_big.cfg", timeout=1200),
                     ex("AttesterChain", "MC_AttesterChain_big.cfg", timeout=1500)]
    res, errs = [], []

    def lane(jobs):
        try:
            for j in jobs:
                r = j()
                if r is not None:
                    res.append(r)
        except BaseException as e:      # re-raised by the caller
            errs.append(e)

    ths = [threading.Thread(target=lane, args=(l,)) for l in lanes]
    for t in ths:
        t.start()
    for t in ths:
        t.join()
    if errs:
        out["err"] = errs[0]
    out["mc"] = res


def run(tier):
    v = vf.Verdict(PID, tier)
    v.assumptions = [
        "Env_DutyWellFormed: validators of a duty are distinct, arrays parallel, every committee has a size, position < size",
        "Env_AccountsSubset: the account manager returns accounts of requested validators only; the signer returns one "
        "signature per account",
        "the fake signer's signature encodes (validator of the account, committee index, slot, source, target, roots)",
        "Env_Window (C01's assumption) for the histories: runs of one instance are for the current and the next epoch",
        "wired family: the beacon node's duty oracle gives every validator of the chain one slot per epoch with a "
        "(committee, position) that names it; a slot's job runs once; Vouch starts only when the start-up refresh succeeds; "
        "every validator the node reports is active",
    ]
    out = {}
    # VERIF_C04_NOMC=1 (developer option, e.g. for lib/mutants.py on an overloaded machine): the exhaustive runs and the
    # control models, which do not depend on the source tree, are left out; the evidence then says states = 0
    nomc = os.environ.get("VERIF_C04_NOMC") == "1"
    th = threading.Thread(target=(lambda: out.update(mc=[])) if nomc else (lambda: model(tier, out)))
    th.start()
    try:
        sc = scenarios(tier, meanwhile=lambda: wired_conformance(v, wired_scenarios(tier)))
        vf.conformance(v, sc, driver, TRACE[0], TRACE[1], sig_of, nontrivial, dfs=True, chunk=700)
    finally:
        th.join()
    if "err" in out:
        raise out["err"]
    for r in out["mc"]:
        v.add_mc(r)
    v.coverage["rule"] = ("scenarios enumerated by TLC from Attester.tla: (optional preparatory run making a subset already "
                          "attested) x duty under test (every order and committee assignment of <= 3 validators; seeded "
                          "simulation for 5 validators in 3 committees) x subset without account x subset unsigned x submit "
                          "ok/error; a third built through attester.MergeDuties; non-trivial = the duty skips a validator and "
                          "still submits; distinct by step list.  Histories: TLC-simulated behaviours of Attester.tla with up to 4 runs "
                          "on ONE service instance, every run another duty (slot, validators, committee assignment, positions, "
                          "committee sizes; validators / committee indices / slots met again with other values), every failure "
                          "branch, run 1 held before / inside the signer, before / inside the submitter, inside the data fetch or "
                          "the accounts lookup while run 2 goes from start to end, later runs one after the other, or all runs "
                          "interleaved freely; non-trivial = in the recorded trace a run's per-validator values were exposed to "
                          "another run's work (between its accounts and its submission) or to an earlier run's (shared validator "
                          "or committee index with other values).  Wired family: TLC-simulated histories of AttesterChain.tla on "
                          "ONE wired instance (real validators manager, real wallet or dirk account manager, real attester, "
                          "signer, immediate submitter; fake beacon node and wallet store): start-up refresh, refreshes whose "
                          "answer is complete / partial / empty / an error while the store offers all or all but one of the "
                          "accounts, the controller's validating indices per epoch, the slots' jobs; every attestation the node "
                          "received is judged by BLS verification under the key of the validator the duty oracle puts at "
                          "(slot, committee index, set bit); non-trivial = attestations reached the node after a refresh that "
                          "was not complete for the accounts held")
    return v.finish()


def replay(path):
    v = vf.Verdict(PID, "quick")
    with open(os.path.join(path, "scenario.json")) as fh:
        s = json.load(fh)
    if s.get("kind") == "wired":
        vf.conformance(v, [s], wired_driver, W_TRACE[0], W_TRACE[1], wired_sig, wired_nontrivial)
        return 1 if v.violations else 0
    vf.conformance(v, [s], driver, TRACE[0], TRACE[1], sig_of, nontrivial, dfs=True)
    return 1 if v.violations else 0
