"""C10 — proposer settings follow the documented precedence of the execution config (spec/ExecConfig.tla),
also on the long-lived block relay service across configuration changes (spec/ExecConfigSvc.tla)."""
import json
import os
import random
from concurrent.futures import ThreadPoolExecutor
import vf

PID = "C10"
PKG = "./services/blockrelay"
TEST = "TestVerifC10"
FIELDS = ("fr", "gl", "gr", "mv", "pk")


SVC_PKG = "./services/blockrelay/standard"
SVC_TEST = "TestVerifC10Service"
SVC_TRACE = ("Trace_ExecConfigSvc", "Trace_ExecConfigSvc.cfg")


def driver(scenarios, tag):
    return vf.run_driver(PID, PKG, TEST, scenarios, tag)


def svc_driver(scenarios, tag):
    # a call or fetch job that does not return is recorded by the driver's watchdog as Hung (longer on the
    # confirming re-runs: a wedge is a deadlock, it reproduces whatever the period)
    wd = 5000
    if tag.startswith("confirm"):
        wd = 15000
    return vf.run_driver(PID, SVC_PKG, SVC_TEST, scenarios, "svc-" + tag, env={"VERIF_WATCHDOG_MS": wd}, timeout=900)


WIRED_TEST = "TestVerifC10Wired"
WIRED_TRACE = ("Trace_ExecConfigSvc", "Trace_ExecConfigSvc_callers.cfg")


def wired_driver(scenarios, tag):
    # family "callers": every entry point that resolves settings, on ONE wired instance per history (real block relay
    # service, real wallet account manager + validators manager, real signer, real preparer; recorders one layer out)
    wd = 5000
    if tag.startswith("confirm"):
        wd = 15000
    return vf.run_driver(PID, SVC_PKG, WIRED_TEST, scenarios, "wired-" + tag, env={"VERIF_WATCHDOG_MS": wd}, timeout=900)


def is_svc(s):
    return s.get("family", "").startswith("service")


def is_wired(s):
    return s.get("family", "") == "service-callers"


def _cfg(s):
    st = s["steps"][0]
    return st.get("cfg") if st.get("ev") == "Reset" else None


def sig_of(s):
    """Describes the failing input: enumerated lattice point (shape of the document) or random index; for the
    service-level histories the family, the documents served and the validator that was held."""
    if is_wired(s):
        st = s["steps"]
        refr = [x.get("known", []) for x in st if x["ev"] == "Refresh"]
        return {"origin": s["family"], "init": st[0].get("init", 0), "store": st[0].get("known", []),
                "source": [[x.get("out"), x.get("doc", 0)] for x in st if x["ev"] == "Fetch"],
                "left_after_refresh": refr[0] if refr else []}
    if is_svc(s):
        st = s["steps"]
        return {"origin": s["family"], "init": st[0].get("init", 0),
                "source": [[x.get("out"), x.get("doc", 0)] for x in st if x["ev"] == "Fetch"],
                "held": next((x.get("v") for x in st if x["ev"] == "Hold"), "none")}
    c = _cfg(s)
    if c is None:
        return {"origin": "random", "idx": s["steps"][0].get("idx")}
    if c.get("version") == 1:
        return {"origin": "lattice", "version": 1}
    ps = c.get("proposers", [])
    base = {r["addr"] for r in c.get("relays", [])}
    e1 = ps[0] if ps else {}
    return {"origin": "lattice", "version": 2,
            "fields": sorted({f for lvl in [c] + c.get("relays", []) + ps + [r for p in ps for r in p.get("relays", [])]
                              for f in FIELDS if f in lvl}),
            "reset": bool(e1.get("reset")),
            "disabled_not_inherited": any(r.get("disabled") and (e1.get("reset") or r["addr"] not in base)
                                          for r in e1.get("relays", []))}


def svc_nontrivial(s, rows):
    # the antecedent at the service level: the configuration in force was replaced by a different document and a
    # validator was looked up afterwards; for the overlap family moreover the source answered the fetch while the
    # held call was still in flight
    force, changed, after = s["steps"][0].get("init", 0), False, False
    for r in rows:
        if r.get("ev") == "Source" and r.get("out") == "good" and r.get("doc") != force:
            force, changed = r["doc"], True
        if changed and r.get("ev") == "CallStart":
            after = True
    if s["family"] == "service-heldfetch":
        # a call was answered while the fetch job was waiting for the source
        src = next((i for i, r in enumerate(rows) if r.get("ev") == "Source"), None)
        ret1 = next((i for i, r in enumerate(rows) if r.get("ev") == "CallReturn"), None)
        return src is not None and ret1 is not None and ret1 < src
    if s["family"] == "service-held":
        ret1 = next((i for i, r in enumerate(rows) if r.get("ev") == "CallReturn" and r.get("i") == 1), None)
        src = next((i for i, r in enumerate(rows) if r.get("ev") == "Source"), None)
        return after and ret1 is not None and src is not None and src < ret1
    return after


BY_OTHERS = ("auction", "bid", "check", "reg", "prep")


def wired_nontrivial(s, rows):
    # the antecedent across the entry points: the account manager did not answer some entry point with the account
    # of one of Vouch's validators, and entry points other than ProposerConfig itself used settings in that history
    kind = {r["i"]: r.get("kind") for r in rows if r.get("ev") == "CallStart"}
    missed = any(r.get("ev") == "CallLookup" and r.get("out") != "found" and kind.get(r.get("i")) != "bid" for r in rows)
    used = any(r.get("ev") == "CallReturn" and r.get("ok") and kind.get(r.get("i")) in BY_OTHERS for r in rows)
    return missed and used


def nontrivial(s, rows):
    # the antecedent of the precedence rules: some proposer entry applies to a looked-up validator
    # (version 2: it matches; legacy: the validator has an entry of its own) and there is a relay to configure
    reset = next((r for r in rows if r.get("ev") == "Reset"), None)
    if not reset or not reset.get("ok"):
        return False
    c = reset["cfg"]
    looked = [r for r in rows if r.get("ev") == "Lookup" and r.get("ok")]
    for r in looked:
        v = r["v"]
        for p in c.get("proposers", []):
            hit = p.get("key") == v["pubkey"] if p.get("kind") == "pubkey" else v["id"] in p.get("m", [])
            if hit and (r["res"]["relays"] or p.get("relays") or p.get("reset")):
                return True
    return False


def lattice(cfg, name):
    """Documents of the lattice, enumerated (or stride-sampled by VERIF_SEED) by TLC from the specification."""
    r = vf.tlc(PID, name, "Scen_ExecConfig", cfg, workers=1, timeout=900, env={"VERIF_SEED": vf.seed()})
    if r["timed_out"] or not r["ok"]:
        raise vf.Broken("scenario generation failed (%s):\n%s" % (cfg, r["out"][-3000:]))
    hs = vf.tlc_emitted(r["out"])
    vf.log("TLC enumerated %d documents from Scen_ExecConfig/%s" % (len(hs), cfg))
    return hs


def scenarios(tier):
    big = tier == "thorough"
    # the whole single-field lattice (8160 version-2 documents, 480 legacy documents)
    hs = lattice("Scen_ExecConfig.cfg", "scen")
    if big:
        # two fields varied at once, match sets over two validators: every 25th document of that lattice
        hs = hs + lattice("Scen_ExecConfig_big.cfg", "scen-big")
    out = [{"sc": i + 1, "steps": h} for i, h in enumerate(hs)]
    n = len(out)
    nrand = 12000 if big else 1500
    out += [{"sc": n + i + 1, "steps": [{"ev": "Random", "idx": i + 1}]} for i in range(nrand)]
    return out


def svc_scenarios(tier, first_id):
    """Histories of one service instance, enumerated by TLC from Scen_ExecConfigSvc (quick: a seeded sample)."""
    quick = tier == "quick"
    rnd = random.Random(vf.seed())
    out = []
    fams = (("hist", 40), ("held", 90), ("heldfetch", 40))
    with ThreadPoolExecutor(max_workers=len(fams)) as ex:
        gen = {fam: ex.submit(vf.tlc_scenarios, PID, "Scen_ExecConfigSvc", "Scen_ExecConfigSvc_%s.cfg" % fam,
                              exhaustive=True, name="scen-svc-" + fam, timeout=900) for fam, _ in fams}
        gen = {fam: f.result() for fam, f in gen.items()}
    for fam, n in fams:
        hs = gen[fam]
        if quick:
            if fam == "held":
                # every pair of different good documents around the held call is kept, the rest is sampled
                def key(h):
                    f = [x for x in h if x["ev"] == "Fetch"]
                    return h[0]["init"] != 0 and f[0]["out"] == "good" and f[0]["doc"] != h[0]["init"]
                must = [h for h in hs if key(h)]
                rnd.shuffle(must)
                rest = [h for h in hs if not key(h)]
                rnd.shuffle(rest)
                hs = must[: n - 20] + rest[:20]
            else:
                rnd.shuffle(hs)
                hs = hs[:n]
        out += [{"sc": first_id + len(out) + i, "family": "service-" + fam, "steps": h} for i, h in enumerate(hs)]
    for i, s in enumerate(out):
        s["sc"] = first_id + i
    return out


def wired_scenarios(tier, first_id):
    """Family "callers" (224 histories): quick takes a seeded, stratified sample of 30."""
    hs = vf.tlc_scenarios(PID, "Scen_ExecConfigSvc", "Scen_ExecConfigSvc_callers.cfg", exhaustive=True,
                          name="scen-svc-callers", timeout=900)
    if tier == "quick":
        # stratified: every document is in force at the start of three histories in which both validators are Vouch's
        # own (different sets of lost accounts where possible) and of one in which V2 is foreign; the rest is sampled
        rnd = random.Random(vf.seed() * 31 + 7)
        rnd.shuffle(hs)
        pick, rest = [], []
        cnt = {}
        for h in hs:
            both = len(h[0]["known"]) == 2
            k = (h[0]["init"], both)
            left = tuple([x for x in h if x["ev"] == "Refresh"][0]["known"])
            seen = cnt.setdefault(k, set())
            if h[0]["init"] != 0 and left not in seen and len(seen) < (3 if both else 1):
                seen.add(left)
                pick.append(h)
            else:
                rest.append(h)
        hs = pick + rest[:max(0, 30 - len(pick))]
    return [{"sc": first_id + i, "family": "service-callers", "steps": h} for i, h in enumerate(hs)]


SVC_CONTROL = [("_memo", "invariant", "UsesInForce"), ("_memo_seq", None, None), ("_memochecked", None, None),
               # fifth round: the callers.  An auction / config check that carries on without the account when the
               # account manager does not answer with it is rejected as soon as the manager can lose an account
               # (refresh) or fail (error), and passes while it always answers (the old alphabet); an immediate bid
               # that never asks for the account is rejected for one of Vouch's own validators
               ("_auctionnil", "invariant", "CallersAgree"), ("_auctionnil_err", "invariant", "CallersAgree"),
               ("_auctionnil_old", None, None), ("_bidnever", "invariant", "CallersAgree")]


def svc_design_checks(v, tier):
    mc_pool = ThreadPoolExecutor(max_workers=2)
    mc_fut = mc_pool.submit(vf.tlc_exhaustive, PID, "ExecConfigSvc", "MC_ExecConfigSvc_big.cfg" if tier == "thorough"
                            else "MC_ExecConfigSvc.cfg", workers=4, timeout=2400, heap="3g" if tier == "thorough" else "2g")
    # the entry points with the account manager as a component of its own (known, AcctRefresh, CallLookup)
    mc_callers = mc_pool.submit(vf.tlc_exhaustive, PID, "ExecConfigSvc", "MC_ExecConfigSvc_callers_big.cfg"
                                if tier == "thorough" else "MC_ExecConfigSvc_callers.cfg", workers=6, timeout=2400,
                                heap="3g" if tier == "thorough" else "2g", name="mc-svc-callers")
    # control model: settings remembered per validator, memo emptied by every fetch - right in every history without
    # overlap (must pass), wrong when a call overlaps a fetch (must violate UsesInForce); remembering only while
    # the document read is still in force is fine (must pass)
    with ThreadPoolExecutor(max_workers=3) as ex:
        rs = list(ex.map(lambda c: vf.tlc(PID, "mc-svc" + c[0], "ExecConfigSvc", "MC_ExecConfigSvc%s.cfg" % c[0],
                                          workers=2, timeout=1800, heap="1g"), SVC_CONTROL))
    for (name, kind, inv), r in zip(SVC_CONTROL, rs):
        if kind is None:
            if not r["ok"]:
                raise vf.Broken("control model ExecConfigSvc%s does not pass (%s %s)\n%s"
                                % (name, r["kind"], r["violated"], r["out"][-2000:]))
        elif not (r["kind"] == kind and r["violated"] == inv):
            raise vf.Broken("the memoising control model no longer violates %s (%s %s)" % (inv, r["kind"], r["violated"]))
    v.add_mc(mc_fut.result())
    v.add_mc(mc_callers.result())
    mc_pool.shutdown()
    vf.log("model self-check: a per-validator memo emptied by every fetch violates UsesInForce under overlap and passes "
           "sequentially; the checked memo passes; an auction that carries on without the account after a failed lookup and "
           "an immediate bid that never asks for it violate CallersAgree, the former passes while the account manager "
           "always answers (as they must)")


def run(tier):
    v = vf.Verdict(PID, tier)
    v.assumptions = [
        "which validators an account entry matches is decided by the driver's own matcher over a structured pattern "
        "(literals, .*, classes, optional characters; implicit anchors), never by the code under test",
        "documents are well formed (the real parser must accept them); fee recipients are non-zero; account patterns "
        "have no top-level alternation and no escaped anchor character at either end",
        "legacy format: where prose (per-value inheritance) and examples/tests (entry stands for the validator) "
        "disagree the specification allows both readings",
    ]
    # thorough: the small lattice is also run with -coverage 1 (vacuity control); the big one without (time)
    # (the service-level model checking and scenario generation run beside the document-level part)
    side = ThreadPoolExecutor(max_workers=3)
    f_svc_design = side.submit(svc_design_checks, v, tier)
    f_svc_gen = side.submit(svc_scenarios, tier, 1000001)
    f_wired_gen = side.submit(wired_scenarios, tier, 2000001)
    v.add_mc(vf.tlc_exhaustive(PID, "ExecConfig", "MC_ExecConfig.cfg", coverage=(tier == "thorough"), timeout=2400))
    if tier == "thorough":
        v.add_mc(vf.tlc_exhaustive(PID, "ExecConfig", "MC_ExecConfig_big.cfg", timeout=3000))
    sc = scenarios(tier)
    vf.conformance(v, sc, driver, "Trace_ExecConfig", "Trace_ExecConfig.cfg", sig_of, nontrivial,
                   chunk=8000, tlc_timeout=900, max_failures=3)
    # service level: the same precedence, asked through ONE long-lived blockrelay/standard Service across
    # configuration changes, with calls held mid-resolution across a fetch
    f_svc_design.result()
    svc = f_svc_gen.result()
    wired = f_wired_gen.result()
    side.shutdown()
    # replay directories of this block are numbered from 101 (vf.conformance numbers from 1 per call)
    orig = vf.save_replay
    vf.save_replay = lambda pid, n, *a: orig(pid, n + 100, *a)
    try:
        vf.conformance(v, svc, svc_driver, SVC_TRACE[0], SVC_TRACE[1], sig_of, svc_nontrivial, tlc_timeout=900,
                       max_failures=3)
        # the entry points on the wired instance (replay directories from 201)
        vf.save_replay = lambda pid, n, *a: orig(pid, n + 200, *a)
        vf.conformance(v, wired, wired_driver, WIRED_TRACE[0], WIRED_TRACE[1], sig_of, wired_nontrivial,
                       tlc_timeout=900, max_failures=3, chunk=60)
    finally:
        vf.save_replay = orig
    v.coverage["rule"] = ("configuration documents of the ExecConfig.tla lattice enumerated by TLC (presence of the varied "
                          "field(s) at every level x relay inherited/new/overridden/disabled x reset_relays x matching "
                          "entries x entry kinds; legacy shapes) plus seeded random documents generated by the driver "
                          "(all fields at once, wide values); each rendered to JSON, parsed, looked up for every "
                          "validator before and after a marshal/unmarshal round trip by the real code; non-trivial = a "
                          "proposer entry applies to a looked-up validator and relays are configured; distinct by document. "
                          "Service level: histories of one real blockrelay/standard Service enumerated by TLC from "
                          "Scen_ExecConfigSvc (three documents / failures in a row with lookups of both validators after each; "
                          "a lookup held inside the configuration's resolution across a complete fetch, then further "
                          "lookups), every answer judged against ResolveSet of a document in force during the call; "
                          "non-trivial = the document in force changed and a validator was looked up afterwards. "
                          "Entry points (family callers, wired instance: real block relay service, wallet account manager, "
                          "validators manager, signer, preparer): registration round, preparer run, AuctionBlock, BuilderBid "
                          "without cached bid, config check and ProposerConfig for both validators in four phases (all accounts "
                          "held / accounts lost by a refresh / after a fetch / accounts back), six documents incl. a legacy one; "
                          "every use of settings judged by CallersAgree; non-trivial = the account manager did not answer "
                          "some entry point with the account and other entry points used settings")
    return v.finish()


def replay(path):
    v = vf.Verdict(PID, "quick")
    with open(os.path.join(path, "scenario.json")) as fh:
        s = json.load(fh)
    if is_wired(s):
        vf.conformance(v, [s], wired_driver, WIRED_TRACE[0], WIRED_TRACE[1], sig_of, wired_nontrivial)
        return 1 if v.violations else 0
    if is_svc(s):
        vf.conformance(v, [s], svc_driver, SVC_TRACE[0], SVC_TRACE[1], sig_of, svc_nontrivial)
        return 1 if v.violations else 0
    vf.conformance(v, [s], driver, "Trace_ExecConfig", "Trace_ExecConfig.cfg", sig_of, nontrivial)
    return 1 if v.violations else 0
