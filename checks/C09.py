"""C09 — the relay auction selects the best eligible bid and only eligible bids (spec/Auction.tla)."""
import json
import os
import vf

PID = "C09"
PKG = "./services/blockrelay/standard"
TEST = "TestVerifC09"

# builder catalogue of the specification (Auction.tla: BOff, BFac); only used to describe scenarios
# (signatures of known findings, the non-triviality count) - the verdict is TLC's
_OFF = {"plus": 1, "minus": -2, "boost": 1}
_FAC = {"excl": 0, "half": 50, "boost": 150}


def _score(a):
    s = a["val"] + _OFF.get(a["bld"], 0)
    if a["bld"] in _FAC:
        s = (s * _FAC[a["bld"]]) // 100
    return s


def _known_key(c):
    """The key known for a relay as configured for the auction: the public_key of the relay configuration, else the
    key spelled in the user-information part of the relay address (Auction.tla: KeyOf)."""
    return {"config": "K1", "config2": "K2"}.get(c["key"]) or c.get("sp", "none")


def _eligible(a, c):
    k = _known_key(c)
    return (a["kind"] == "bid" and a["val"] >= c["min"] and a["val"] != 0 and not a["feeZero"] and a["tsOk"]
            and (k == "none" or (a["sig"], k) in (("valid", "K1"), ("invalid", "K2"))))


NOISE = {"scenarios": 0, "repeated_for_noise": 0, "widened": 0}
REAL = {"auctions_run": 0, "auctions_started_while_another_was_in_progress": 0, "serves_while_an_auction_was_in_progress": 0}


def driver(scenarios, tag):
    rows = vf.run_driver(PID, PKG, TEST, scenarios, tag, timeout=1500)
    try:
        with open(os.path.join(vf.outdir(PID), "trace-%s.ndjson.stats.json" % tag)) as fh:
            st = json.load(fh)
        for k in NOISE:
            NOISE[k] += st.get(k, 0)
        if st.get("repeated_for_noise") or st.get("widened"):
            vf.log("scheduling noise: %d scenario runs repeated, %d scenarios widened (every instant ambiguous)" % (
                st.get("repeated_for_noise", 0), st.get("widened", 0)))
    except (OSError, ValueError):
        pass
    if tag == "batch":
        for r in rows:
            if r.get("ev") == "Auction":
                REAL["auctions_run"] += 1
                REAL["auctions_started_while_another_was_in_progress"] += 1 if r.get("overlapping") else 0
            elif r.get("ev") == "Serve" and r.get("others_open"):
                REAL["serves_while_an_auction_was_in_progress"] += 1
    return rows


def _auctions(steps):
    """[(auction step, [Deliver steps])] of a history."""
    res, by = [], {}
    for st in steps:
        if st["ev"] == "Auction":
            by[st["i"]] = (st, [])
            res.append(by[st["i"]])
        elif st["ev"] == "Deliver" and st["i"] in by:
            by[st["i"]][1].append(st)
    return res


def _shape(steps):
    """What a history exercises: overlap, a relay address whose minimum / key / the builder catalogue differ
    between two auctions of the instance."""
    aus = _auctions(steps)
    open_, overlap, serve_while_open = set(), False, False
    for st in steps:
        if st["ev"] == "Auction":
            overlap = overlap or bool(open_)
            open_.add(st["i"])
        elif st["ev"] == "Return":
            open_.discard(st["i"])
        elif st["ev"] == "Serve" and open_:
            serve_while_open = True
    cfgs = [a["cfg"] for a, _ in aus]
    nrel = len(cfgs[0]) if cfgs else 0
    return {
        "auctions": len(aus),
        "overlap": overlap,
        "serve_while_open": serve_while_open,
        "min_changes": any(len({c[r]["min"] for c in cfgs}) > 1 for r in range(nrel)),
        "key_changes": any(len({c[r]["key"] for c in cfgs}) > 1 for r in range(nrel)),
        "tab_changes": len({a["tab"] for a, _ in aus}) > 1,
        # a relay location written under two spellings of its address on the instance (by auctions or other users
        # of the client cache), and such a relay whose known key differs between two auctions
        "spelling_changes": any(len({c[r].get("sp", "none") for c in cfgs}
                                    | {st["sp"] for st in steps if st["ev"] == "Fetch" and st["r"] == r + 1}) > 1
                                for r in range(nrel)),
        "known_key_changes": any(len({_known_key(c[r]) for c in cfgs}) > 1 for r in range(nrel)),
        "fetch_by_another_user": any(st["ev"] == "Fetch" for st in steps),
        "wired": steps[0].get("family") == "wired",
    }


def sig_of(s):
    """Describes the input of a history: which strategy, its shape, and whether some relay of the deadline
    strategy follows an eligible bid with one of no higher value but a different score."""
    steps = s["steps"]
    variant = steps[0]["variant"]
    nonimproving = False
    for au, dels in _auctions(steps):
        best = {}
        for st in dels:
            c = au["cfg"][st["r"] - 1]
            if st["ph"] < 2 and _eligible(st["a"], c):
                r = st["r"]
                if r in best and st["a"]["val"] <= best[r]:
                    nonimproving = True
                best[r] = max(best.get(r, 0), st["a"]["val"])
    sig = {"variant": variant, "family": steps[0].get("family", "fake"), "relay_repeats_with_no_higher_value": nonimproving and variant == "deadline"}
    sig.update(_shape(steps))
    return sig


def nontrivial(s, rows):
    # at least two auctions returned on the instance, and in one of them a winner was chosen among at least
    # two bids delivered to that auction before its return (at least one had to be turned down)
    returned = [r for r in rows if r.get("ev") == "Return"]
    if len(returned) < 2:
        return False
    for ret in returned:
        if ret["win"]["r"] <= 0:
            continue
        bids = sum(1 for r in rows if r.get("ev") == "Deliver" and r.get("i") == ret.get("i") and r["a"]["kind"] == "bid")
        if bids >= 2:
            return True
    return False


MC_QUICK = [("MC_Auction.cfg", 4), ("MC_Auction_deadline.cfg", 4), ("MC_Auction_hist.cfg", 4), ("MC_Auction_overlap.cfg", 4),
            ("MC_Auction_clients.cfg", 4)]
MC_THOROUGH = [("MC_Auction_big.cfg", 8), ("MC_Auction_deadline_big.cfg", 8), ("MC_Auction_overlap_big.cfg", 8),
               ("MC_Auction_clients_big.cfg", 8)]

# Vacuity self-checks (spec/Auction.tla, Deviation): designs that keep state on the instance which the property
# does not make persistent.  Each is right on every fresh instance (one auction) resp. on sequential histories -
# those runs must pass - and TLC must reject it on the histories / overlaps the model now contains.
MUST_VIOLATE = [
    ("MC_Auction_dev_MinMemo.cfg", "the minimum value remembered per relay address (seeded/C09-min-value-cached-per-relay)"),
    ("MC_Auction_dev_KeyMemo.cfg", "the need for a signature check remembered per relay address"),
    ("MC_Auction_dev_TabMemo.cfg", "the builder catalogue remembered on the instance"),
    ("MC_Auction_dev_SharedBest.cfg", "the best score so far kept in the service, auctions overlapping"),
    ("MC_Auction_dev_ClientByLoc.cfg", "the relay client cache keyed by the relay's location: the client (and key) of the spelling "
                                       "used first serves every spelling (seeded/C09-builder-client-cache-drops-relay-pubkey)"),
    ("MC_Auction_reach_hist.cfg", "(reachability witness) three auctions completing on one instance"),
    ("MC_Auction_reach_overlap.cfg", "(reachability witness) an auction returning a winner while another has one"),
]
MUST_PASS = ["MC_Auction_fresh_MinMemo.cfg", "MC_Auction_fresh_KeyMemo.cfg", "MC_Auction_fresh_TabMemo.cfg",
             "MC_Auction_seq_SharedBest.cfg", "MC_Auction_fresh_ClientByLoc.cfg"]
PROPERTY_INVARIANTS = ("WinnerIsArgmax", "OnlyEligibleWin", "ProvidersOfferedWinner", "NoWinnerIffNone",
                       "ParticipationSound", "ArrivedConsidered", "CacheRight", "ServedRight",
                       "NeverThreeDone", "NeverBothWinOverlapped")


def _selfcheck(cfg, what):
    # (small heaps: many builders share the machine and the kernel kills the largest JVMs when memory runs out)
    r = vf.tlc(PID, "self-" + cfg.replace(".cfg", ""), "MC_Auction", cfg, workers=1, timeout=600, heap="1g")
    if what is None:
        if not r["ok"]:
            raise vf.Broken("model self-check failed: %s must pass (%s %s)\n%s" % (cfg, r["kind"], r["violated"], r["out"][-2000:]))
        return "model self-check: %s passes (the deviating design is right on a fresh instance / without overlap)" % cfg
    if r["kind"] != "invariant" or r["violated"] not in PROPERTY_INVARIANTS:
        raise vf.Broken("model self-check failed: %s is not rejected (%s %s)\n%s" % (what, r["kind"], r["violated"], r["out"][-2000:]))
    return "model self-check: %s violates %s (as it must)" % (what, r["violated"])


def _model_cache(tier):
    """Opt-in (VERIF_C09_MODEL_CACHE=<dir>, for loops over many source trees such as lib/mutants.py on a loaded
    machine): the model phase does not depend on the Go tree under test, so its results (state counts of the
    exhaustive runs, that the self-checks came out as they must, the generated histories) can be kept per
    (specification files, seed, tier).  Never used unless the variable is set; a normal run does all TLC work."""
    d = os.environ.get("VERIF_C09_MODEL_CACHE")
    if not d:
        return None
    import glob
    import hashlib
    h = hashlib.sha256()
    spec = os.path.join(os.path.dirname(os.path.dirname(os.path.abspath(__file__))), "spec")
    for f in sorted(glob.glob(os.path.join(spec, "*Auction*")) + [os.path.join(spec, "TraceLib.tla"), os.path.abspath(__file__)]):
        with open(f, "rb") as fh:
            h.update(f.encode() + b"\0" + fh.read())
    h.update(("%s/%s" % (vf.seed(), tier)).encode())
    os.makedirs(d, exist_ok=True)
    return os.path.join(d, h.hexdigest()[:24] + ".json")


def model(v, tier):
    """All TLC work that does not need the driver, side by side: exhaustive runs, self-checks, scenario
    generation.  Returns the histories."""
    cache = _model_cache(tier)
    if cache and os.path.exists(cache):
        with open(cache) as fh:
            c = json.load(fh)
        for r in c["mc"]:
            v.add_mc(r)
        vf.log("model phase taken from %s (VERIF_C09_MODEL_CACHE): %d exhaustive runs, %d self-checks, %d histories" % (
            cache, len(c["mc"]), c["selfchecks"], len(c["histories"])))
        return c["histories"]
    sc, mc, nself = _model(v, tier)
    if cache:
        with open(cache + ".tmp%d" % os.getpid(), "w") as fh:
            json.dump({"mc": mc, "selfchecks": nself, "histories": sc}, fh)
        os.replace(cache + ".tmp%d" % os.getpid(), cache)
    return sc


def _model(v, tier):
    from concurrent.futures import ThreadPoolExecutor
    nb, nd = (150, 90) if tier == "quick" else (1500, 800)
    wb, wd = (45, 30) if tier == "quick" else (500, 300)      # wired family
    mcs = list(MC_QUICK) + (MC_THOROUGH if tier == "thorough" else [])
    with ThreadPoolExecutor(max_workers=8) as ex:
        fb = ex.submit(vf.tlc_scenarios, PID, "Scen_Auction", "Scen_Auction.cfg", num=int(nb * 1.05), depth=80, name="scen-best", heap="2g")
        fd = ex.submit(vf.tlc_scenarios, PID, "Scen_Auction", "Scen_Auction_deadline.cfg", num=int(nd * 1.05), depth=120,
                       name="scen-deadline", heap="2g")
        fwb = ex.submit(vf.tlc_scenarios, PID, "Scen_Auction", "Scen_Auction_wired.cfg", num=int(wb * 1.05), depth=80, name="scen-wired-best", heap="2g")
        fwd = ex.submit(vf.tlc_scenarios, PID, "Scen_Auction", "Scen_Auction_wired_deadline.cfg", num=int(wd * 1.05), depth=120,
                        name="scen-wired-deadline", heap="2g")
        fm = [ex.submit(vf.tlc_exhaustive, PID, "MC_Auction", cfg, workers=w, timeout=1800,
                        coverage=(cfg == "MC_Auction_big.cfg"), heap="2g" if (cfg, w) in MC_QUICK else "6g") for cfg, w in mcs]
        fs = [ex.submit(_selfcheck, cfg, what) for cfg, what in MUST_VIOLATE] + [ex.submit(_selfcheck, cfg, None) for cfg in MUST_PASS]
        mc = []
        for f in fm:
            r = f.result()
            v.add_mc(r)
            mc.append({"distinct": r["distinct"], "generated": r["generated"]})
        for f in fs:
            vf.log(f.result())
        hs = fb.result()[:nb] + fd.result()[:nd] + fwb.result()[:wb] + fwd.result()[:wd]
    return [{"sc": i + 1, "steps": h} for i, h in enumerate(hs)], mc, len(fs)


# ---- family catalogue: configuration -> builder catalogue (spec/BuilderCatalogue.tla; main.go: obtainBuilderConfigs) ----
CAT_PKG = "."
CAT_TEST = "TestVerifC09Catalogue"
CAT_INVARIANTS = ("ExcludedNeverScores", "OwnEntryWins", "PrivilegedOutranksExcluded", "OnlyNamed", "RefusedIffUnreadable")


def cat_driver(scenarios, tag):
    return vf.run_driver(PID, CAT_PKG, CAT_TEST, scenarios, "cat-" + tag, timeout=900)


def cat_sig_of(s):
    steps = s["steps"]
    return {"family": "catalogue", "variant": "catalogue",
            "excluded": sorted(x["b"] for x in steps if x["ev"] == "Exclude"),
            "privileged": sorted(x["b"] for x in steps if x["ev"] == "Privilege"),
            "configured": sorted(set(x["b"] for x in steps if x["ev"] == "Configure"))}


def cat_nontrivial(s, rows):
    """A catalogue was returned for a configuration in which some builder is named by two sources (the
    precedence between the lists and the entries was exercised), or a configuration was refused."""
    ex, pr, cf = set(), set(), set()
    for x, r in zip(s["steps"], rows):
        if x["ev"] == "Exclude":
            ex.add(x["b"])
        elif x["ev"] == "Privilege":
            pr.add(x["b"])
        elif x["ev"] == "Configure":
            cf.add(x["b"])
        elif x["ev"] == "Build" and ((ex & pr) or (ex & cf) or (pr & cf) or r.get("reply") == "error"):
            return True
    return False


def catalogue(v, tier):
    n = 120 if tier == "quick" else 1500
    r = vf.tlc_exhaustive(PID, "BuilderCatalogue", "MC_BuilderCatalogue.cfg" if tier == "quick" else "MC_BuilderCatalogue_big.cfg",
                          workers=8, timeout=1200, heap="2g", name="mc-catalogue")
    v.add_mc(r)
    d = vf.tlc(PID, "self-catalogue-excluded-last", "BuilderCatalogue", "MC_BuilderCatalogue_dev_excluded_last.cfg", workers=1,
               timeout=600, heap="1g")
    if d["kind"] != "invariant" or d["violated"] not in CAT_INVARIANTS:
        raise vf.Broken("model self-check failed: the excluded-last design is not rejected (%s %s)" % (d["kind"], d["violated"]))
    vf.log("model self-check: a catalogue in which the excluded list outranks the privileged list violates %s (as it must)" % d["violated"])
    hs = vf.tlc_scenarios(PID, "Scen_BuilderCatalogue", "Scen_BuilderCatalogue.cfg", num=int(n * 1.05), depth=14, name="scen-catalogue",
                          heap="1g")[:n]
    sc = [{"sc": 100000 + i, "steps": h} for i, h in enumerate(hs)]
    builds = sum(1 for s in sc for x in s["steps"] if x["ev"] == "Build")
    vf.log("catalogue family: %d histories, %d Build steps" % (len(sc), builds))
    vf.conformance(v, sc, cat_driver, "Trace_BuilderCatalogue", "Trace_BuilderCatalogue.cfg", cat_sig_of, cat_nontrivial)
    REAL["catalogues_asked_of_obtainBuilderConfigs"] = builds


def run(tier):
    v = vf.Verdict(PID, tier)
    v.assumptions = [
        "fake family: relays, execution configuration, accounts, chain time and scheduler are scripted fakes at the service's "
        "interfaces (one in-process relay client per spelling of a relay address, registered in the client cache); "
        "bids are real signed VersionedSignedBuilderBid objects (bellatrix/capella/deneb), the strategies' own checks run",
        "wired family: real execution configuration V2 (parsed from a generated document), real block relay service with the "
        "real strategy handed to it as main.go does, real util.FetchBuilderClient and go-builder-client HTTP clients, relay "
        "servers (httptest) one per relay location that sign with the scenario's key; at most one spelling of a relay location "
        "per auction (a proposer's configuration lists a relay once); the builder catalogue is the service's (one per history)",
        "one scenario is one history on one instance: a real strategy service and a real block relay service created for the "
        "history and used for all its auctions; the builder catalogue of an auction is handed to the strategy by a wrapper "
        "between the block relay service and the strategy (the service itself passes the catalogue it was created with)",
        "timing: every delivery/return instant is classified before/ambiguous/after each time-out with a tolerance of 25% of "
        "the time-out (100 ms); TLC chooses for ambiguous instants; runs during which the process stalled are repeated or widened",
        "catalogue family: the builder catalogue itself is what the real obtainBuilderConfigs of package main returns for a "
        "configuration document generated from the history and read by viper (YAML; keys spelled with or without 0x, in either "
        "case; numbers bare or quoted); up to three builders, the categories / factors / offsets of BuilderCatalogue.tla",
        "BuilderBid is only asked for keys that have been auctioned (no immediate auction on a cache miss); the slots of a "
        "history lie within the 32 slots the bid cache keeps",
    ]
    sc = model(v, tier)
    shapes = {}
    for s in sc:
        sh = _shape(s["steps"])
        for k in ("overlap", "serve_while_open", "min_changes", "key_changes", "tab_changes", "spelling_changes",
                  "known_key_changes", "fetch_by_another_user", "wired"):
            shapes[k] = shapes.get(k, 0) + (1 if sh[k] else 0)
        shapes["auctions"] = shapes.get("auctions", 0) + sh["auctions"]
    vf.log("histories: %d (%s)" % (len(sc), ", ".join("%s %d" % kv for kv in sorted(shapes.items()))))
    vf.conformance(v, sc, driver, "Trace_Auction", "Trace_Auction.cfg", sig_of, nontrivial, dfs=True,
                   chunk=400 if tier == "thorough" else None)
    catalogue(v, tier)
    v.coverage["rule"] = ("histories of Auction.tla generated by TLC simulation (seeded) for both strategies - two or three auctions on "
                          "one instance with per-auction relay configurations, builder catalogues and bids, sequential or overlapping, "
                          "serves in between - each replayed on ONE real best/deadline strategy service under ONE real block relay "
                          "service with timed relay fakes; non-trivial = at least two auctions returned and in one a winner was "
                          "returned after at least two bids had been delivered; distinct by step list")
    vf.log("on the real instances: %s" % ", ".join("%s %d" % kv for kv in sorted(REAL.items())))
    return v.finish(extra={"timing_noise": dict(NOISE), "history_shapes": shapes, "observed": dict(REAL)})


def replay(path):
    v = vf.Verdict(PID, "quick")
    with open(os.path.join(path, "scenario.json")) as fh:
        s = json.load(fh)
    if any(x.get("ev") == "Build" for x in s["steps"]):
        vf.conformance(v, [s], cat_driver, "Trace_BuilderCatalogue", "Trace_BuilderCatalogue.cfg", cat_sig_of, cat_nontrivial)
        return 1 if v.violations else 0
    vf.conformance(v, [s], driver, "Trace_Auction", "Trace_Auction.cfg", sig_of, nontrivial, dfs=True)
    return 1 if v.violations else 0
