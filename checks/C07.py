"""C07 — multi-node strategies return the right valid answer, in bounded time (spec/Collector.tla).

Collector.tla (one call, and call after call on one long-lived instance: NextCall) and CollectorInst.tla
(two calls in flight on one instance) are model-checked exhaustively; CollectorSem.tla (designs that keep
state in the instance: a leaked processing slot, a tally shared between calls - right on every fresh
instance) must be rejected by TLC.  Scenarios: (a) the initial states of Collector.tla (what every node
answers and in which phase, one representative per multiset of nodes), enumerated by TLC - single calls on
a fresh instance; (b) HISTORIES of >= process concurrency + 2 calls on ONE instance drawn by TLC from
Scen_CollectorInst.tla (families: a recurring fault then healthy calls, healthy / dead alternating, the same
call repeated, overlapped pairs, free).  Both are replayed in real time on each of the 14 real strategies
(strategies/*/{best,majority,first,latest}); the recorded observations (what each fake returned and when,
what the strategy returned and when, for which call the returned object was made) are validated by TLC
against Trace_Collector.tla, which classifies every instant as before / ambiguous / after the soft and hard
deadline and accepts a call iff some resolution of the ambiguous instants and of `select` explains the
result - every call of a history by the same rules, whatever the instance has been through.
"""
import json
import os
import random
from concurrent.futures import ThreadPoolExecutor
import vf

PID = "C07"
PKG = "./strategies"
TEST = "TestVerifC07"
T_MS = 400
JIT_MS = 50            # a scenario during which the driver process was stalled longer is re-run, never judged

# strategy -> (variant of Collector.tla, channel capacity rule, validity rules that can be scripted)
STRATS = {
    "attestationdata/best": ("Best", "n", ["nil", "niltarget", "badtarget"]),
    "aggregateattestation/best": ("Best", "n", ["nil"]),
    "beaconblockproposal/best": ("Best", "n", ["zerofee", "nil"]),
    "synccommitteecontribution/best": ("Best", "n", ["nil"]),
    "beaconblockroot/latest": ("Best", "n", []),
    "attestationdata/majority": ("Majority", "n", ["nil", "niltarget", "badtarget"]),
    "beaconblockroot/majority": ("RootMajority", "n", []),
    "attestationdata/first": ("First", "1", ["nil"]),
    "aggregateattestation/first": ("First", "1", ["nil"]),
    "beaconblockproposal/first": ("First", "1", ["nil"]),
    "synccommitteecontribution/first": ("First", "1", ["nil"]),
    "beaconblockroot/first": ("First", "1", ["nil"]),
    "beaconblockheader/first": ("First", "1", ["nil"]),
    "signedbeaconblock/first": ("First", "1", ["nil"]),
}

# the strategies that consult the block-root cache (spec/CollectorLookup.tla): in the provider goroutine before the
# response is handed over ("prov") or in the collector after the loops ("coll"); the wired family drives them over
# the REAL cache service + the REAL beaconblockheader 'first' strategy (overlay/strategies/zz_verif_c07_wired_test.go)
WIRED = {
    "attestationdata/best": ("Best", ["nil", "niltarget", "badtarget"]),
    "beaconblockroot/latest": ("Best", []),
    "attestationdata/majority": ("Majority", ["nil", "niltarget", "badtarget"]),
    "beaconblockroot/majority": ("RootMajority", []),
}
# quota of wired histories per strategy (quick tier): family of Scen_CollectorLookup.tla -> count
WQ = {"slow": 14, "free": 10}

_state = {"proposal_nil_ok": None, "reruns": 0, "blocked": {}}


def go_driver(scenarios, tag, par=None):
    env = {}
    if par:
        env["VERIF_C07_PAR"] = par
    return vf.run_driver(PID, PKG, TEST, scenarios, tag, env=env, timeout=1500)


def probe_proposal_nil():
    """beaconblockproposal/best dereferences a nil Data in its provider goroutine (a crash, property
    C16's subject, suspected defect D8a).  A crash kills the whole driver, so that one input is tried
    alone first and left out of C07's batch while the tree still crashes on it."""
    if _state["proposal_nil_ok"] is None:
        s = {"sc": 1, "strat": "beaconblockproposal/best", "variant": "Best", "n": 1, "thr": 0, "cap": 1, "T": T_MS,
             "seed": 1, "provs": [{"k": "invalid", "v": 0, "s": 0, "ph": "early", "inv": "nil"}]}
        try:
            go_driver([s], "probe")
            _state["proposal_nil_ok"] = True
        except vf.Broken as e:
            if "panic" in str(e) and "beaconblockproposal/best.(*Service).beaconBlockProposal" in str(e):
                _state["proposal_nil_ok"] = False
                vf.log("beaconblockproposal/best panics on a nil Data (C16/D8a): that input is left to C16")
            else:
                raise
    return _state["proposal_nil_ok"]


def driver(scenarios, tag):
    """Run the scenarios; scenarios during which the driver process was stalled (scheduling delay above
    JIT_MS, measured by the driver) are run again, with less parallelism, until they are clean.  A scenario with
    a call that never returned is not run again here: it is judged as recorded (and confirmed alone by
    vf.conformance); a call that never returns may spin and be the very cause of the stalls of the others."""
    rows = go_driver(scenarios, tag)
    by = {}
    for r in rows:
        by.setdefault(r["sc"], []).append(r)
    hung = {sc for sc, rs in by.items() if _noreturn(rs)}
    todo = [s for s in scenarios if s["sc"] not in hung and _disturbed(by.get(s["sc"]))]
    attempt = 0
    while todo:
        attempt += 1
        if attempt > 4:
            if hung:
                vf.log("%d scenarios still disturbed by scheduling stalls; %d scenario(s) with a call that never returned "
                       "are judged first" % (len(todo), len(hung)))
                break
            raise vf.Broken("%d scenarios could not be measured without scheduling stalls > %d ms (machine too loaded)"
                            % (len(todo), JIT_MS))
        _state["reruns"] += len(todo)
        vf.log("re-running %d scenario(s) disturbed by scheduling stalls (attempt %d)" % (len(todo), attempt))
        rr = go_driver(todo, tag + "-rerun", par=max(4, 64 >> attempt))
        nb = {}
        for r in rr:
            nb.setdefault(r["sc"], []).append(r)
        for s in todo:
            if s["sc"] in nb:
                by[s["sc"]] = nb[s["sc"]]
                if _noreturn(nb[s["sc"]]):
                    hung.add(s["sc"])
        todo = [s for s in todo if s["sc"] not in hung and _disturbed(by.get(s["sc"]))]
    out = []
    for s in scenarios:
        rs = by.get(s["sc"], [])
        for r in rs:
            # (a node that was never asked - observation "none" - is no behaviour of the specification: the
            # trace specification rejects the call; the instance may have answered from something it kept)
            if r["ev"] == "Return" and r.get("noctx"):
                raise vf.Broken("scenario %s: a request reached a node without the caller's context values" % s["sc"])
            if r["ev"] == "Return" and r.get("blocked"):
                _state["blocked"][s["strat"]] = _state["blocked"].get(s["strat"], 0) + 1
        out += rs
    return out


def _noreturn(rs):
    return any(r["ev"] == "Return" and r.get("noreturn") for r in rs or [])


def _disturbed(rs):
    if not rs:
        return True
    return any(r["ev"] == "Return" and r.get("jit", 0) > JIT_MS for r in rs)


# --------------------------------------------------------------------------------------------------
def in_time_valid(s):
    return [p for p in s["provs"] if p["k"] == "valid" and p["ph"] != "late"]


def calls_of(s):
    """The calls of a scenario as single-call scenarios (a single call is the history of length one)."""
    if s.get("calls"):
        return [dict(s, provs=c["provs"], calls=None) for c in s["calls"]]
    return [s]


def features(s):
    """What a scenario exercises (used to stratify the sample and to count non-trivial scenarios)."""
    if s.get("calls"):
        f = set()
        cs = calls_of(s)
        if s.get("wired"):
            for c in s["calls"]:
                ok = [p for p in c["provs"] if p["k"] == "valid" and p["ph"] != "late"]
                miss = [p for p in ok if not c["pre"][p["r"] - 1]]
                if miss:
                    f.add("wired:miss")
                slow = [p for p in miss if c["hdr"][p["r"] - 1] in ("ok1", "never")]
                if slow:
                    f.add("wired:slow-header")
                if slow and any(p["r"] != q["r"] and (c["pre"][q["r"] - 1] or c["hdr"][q["r"] - 1] == "ok0")
                                for p in slow for q in ok):
                    f.add("wired:slow-beside-prompt")
                if any(c["hdr"][p["r"] - 1] == "fail" for p in miss):
                    f.add("wired:failed-lookup")
        per = [features(c) for c in cs]
        for x in per:
            f |= x
        ok = [bool(in_time_valid(c)) for c in cs]
        faulty = [any(p["k"] != "valid" or p["ph"] == "late" for p in c["provs"]) for c in cs]
        if any(faulty[i] and any(ok[i + 1:]) for i in range(len(cs))):
            f.add("hist:fault-then-answer")
        if any(ok[i] and any(not o for o in ok[i + 1:]) for i in range(len(cs))):
            f.add("hist:answer-then-nothing")
        if any(c["at"] != "seq" for c in s["calls"]):
            f.add("hist:overlap")
        if len(cs) >= s.get("pc", 0) + 2:
            f.add("hist:longer-than-pc")
        return f
    f = set()
    iv = in_time_valid(s)
    var = s["variant"]
    others = [p for p in s["provs"] if p not in iv]
    if var == "Best":
        if len({p["s"] for p in iv}) >= 2:
            f.add("choice")                      # two in-time responses with different scores
        if len({p["s"] for p in iv if p["ph"] == "early"}) >= 2:
            f.add("early-choice")
    elif var in ("Majority", "RootMajority"):
        cnt = {}
        for p in iv:
            cnt[p["v"]] = cnt.get(p["v"], 0) + 1
        m = max(cnt.values()) if cnt else 0
        if len(iv) >= 2:
            f.add("choice")
        if var == "Majority":
            if m >= 1 and m == s["thr"]:
                f.add("at-threshold")
            if m >= 1 and m == s["thr"] - 1:
                f.add("below-threshold")
            if s["thr"] > s["n"] // 2 + 1 and m >= s["thr"]:
                f.add("threshold-above-strict-majority")
    else:
        if len(iv) >= 1 and len(s["provs"]) >= 2:
            f.add("choice")
    if iv and any(p["k"] == "invalid" and p["ph"] != "late" for p in s["provs"]):
        f.add("invalid-and-valid")
    if any(p["k"] == "invalid" and p["ph"] != "late" for p in s["provs"]) and not iv:
        f.add("only-invalid")
    if not any(p["ph"] == "early" for p in iv) and any(p["ph"] == "mid" for p in iv):
        f.add("only-mid")
    if not iv and others:
        f.add("nothing-in-time")
    if any(p["k"] == "silent" or p["ph"] == "late" for p in s["provs"]) and iv:
        f.add("slow-and-valid")
    return f


RARE = ["threshold-above-strict-majority", "at-threshold", "below-threshold", "early-choice", "only-mid",
        "invalid-and-valid", "only-invalid", "slow-and-valid"]


def sig_of(s):
    var = s["variant"]
    return {"strat": s["strat"], "family": var, "history": bool(s.get("calls")), "wired": s.get("wired", ""),
            "nil_in_time": any(p["k"] == "invalid" and p.get("inv") == "nil" and p["ph"] != "late"
                               for c in calls_of(s) for p in c["provs"]),
            "thr_above_strict_majority": var == "Majority" and s["thr"] > s["n"] // 2 + 1}


def nontrivial(s, rows):
    return bool(features(s) - {"nothing-in-time"})


def scenarios(tier):
    base = vf.tlc_scenarios(PID, "Scen_Collector", "Scen_Collector.cfg", exhaustive=True, workers=4, timeout=600)
    if len(base) < 18000:
        raise vf.Broken("scenario enumeration incomplete: %d" % len(base))
    byvar = {}
    for b in base:
        byvar.setdefault(b["variant"], []).append(b)
    nil_ok = probe_proposal_nil()
    rnd = random.Random(vf.seed() * 7919 + 17)
    out = []
    for strat in sorted(STRATS):
        var, capr, invs = STRATS[strat]
        if strat == "beaconblockproposal/best" and not nil_ok:
            invs = [i for i in invs if i != "nil"]
        pool = [b for b in byvar[var] if invs or not any(p["k"] == "invalid" for p in b["provs"])]
        chosen = []
        for n in (1, 2, 3, 4):
            pn = [b for b in pool if b["n"] == n]
            if tier == "thorough":
                k = len(pn) if n <= 3 else 150
            else:
                k = {1: len(pn), 2: 40, 3: 70, 4: 40}[n]
            if k >= len(pn):
                chosen += pn
                continue
            # stratified: a few scenarios for every rarer feature first, the rest uniform
            pick = []
            for f in RARE:
                have = [b for b in pn if f in features(b) and b not in pick]
                pick += rnd.sample(have, min(len(have), max(2, k // 12)))
            pick = pick[:k]
            rest = [b for b in pn if b not in pick]
            pick += rnd.sample(rest, k - len(pick))
            chosen += pick
        for b in chosen:
            provs = []
            for p in b["provs"]:
                q = dict(p)
                q["inv"] = rnd.choice(invs) if p["k"] == "invalid" else ""
                provs.append(q)
            rnd.shuffle(provs)
            # the process concurrency the instance is constructed with (main.go: GOMAXPROCS unless configured;
            # no strategy's answer may depend on it)
            out.append({"strat": strat, "variant": var, "n": b["n"], "thr": b["thr"],
                        "cap": b["n"] if capr == "n" else 1, "T": T_MS, "seed": rnd.randrange(1 << 30), "provs": provs,
                        "pc": rnd.choice([1, 2, 3, 4, 16])})
    rnd.shuffle(out)
    hs = histories(tier, nil_ok, rnd)
    # histories first: they take longest, the single calls fill the driver's workers beside them
    out = wired_histories(tier, random.Random(vf.seed() * 104729 + 7)) + hs + out
    for i, s in enumerate(out):
        s["sc"] = i + 1
    return out


# quota of histories per strategy (quick tier), per family of Scen_CollectorInst.tla; for "leak" per recurring
# fault (strict: the faulty answer is certainly consumed / not), for the fault "invalid" per validity rule
HQ = {"stale": 4, "repeat": 2, "pairs": 5, "free": 4,
      "leak": {"error": (1, 1), "silent": (1, 1), "late": (1, 1), "invalid": (2, 1)}}


def histories(tier, nil_ok, rnd):
    """Histories of calls on one instance, drawn by TLC (simulation, seeded) from Scen_CollectorInst.tla."""
    mult = 4 if tier == "thorough" else 1
    num = 2500 * mult
    with ThreadPoolExecutor(max_workers=2) as ex:
        f1 = ex.submit(vf.tlc_scenarios, PID, "Scen_CollectorInst", "Scen_CollectorInst_leak.cfg", num=num, depth=40,
                       name="scen-hist-leak")
        f2 = ex.submit(vf.tlc_scenarios, PID, "Scen_CollectorInst", "Scen_CollectorInst.cfg", num=num, depth=40,
                       name="scen-hist")
        raw = f1.result()[:num] + f2.result()[:num]
    pool = {}
    for h in raw:
        if len(h["calls"]) < h["pc"] + 2:
            raise vf.Broken("history shorter than process concurrency + 2: %s" % h)
        pool.setdefault((h["variant"], h["fam"], h["flt"], h["strict"]), []).append(h)
    out = []
    short = []
    for strat in sorted(STRATS):
        var, capr, invs = STRATS[strat]
        if strat == "beaconblockproposal/best" and not nil_ok:
            invs = [i for i in invs if i != "nil"]

        taken = [0]

        def take(fam, flt, strict, k, inv=None):
            cell = pool.get((var, fam, flt, strict), [])
            have = [h for h in cell if invs or not any(p["k"] == "invalid" for c in h["calls"] for p in c["provs"])]
            if len(have) < k and not invs:
                # a strategy without validity rules: too few histories drawn without an invalid answer - take others
                # with the node failing instead (also a member of the set the specification chooses from)
                for h in cell:
                    if h not in have and len(have) < k:
                        have.append(dict(h, calls=[{"at": c["at"], "provs": [
                            dict(p, k="error", v=0, s=0) if p["k"] == "invalid" else p for p in c["provs"]]} for c in h["calls"]]))
            if len(have) < k:
                short.append((strat, fam, flt, strict, len(have), k))
            for h in rnd.sample(have, min(k, len(have))):
                taken[0] += 1
                calls = []
                for c in h["calls"]:
                    provs = []
                    for p in c["provs"]:
                        q = dict(p)
                        q["inv"] = (inv or rnd.choice(invs)) if p["k"] == "invalid" else ""
                        provs.append(q)
                    calls.append({"at": c["at"], "provs": provs})
                # the nodes of an instance keep their place from call to call: one permutation per history
                perm = list(range(h["n"]))
                rnd.shuffle(perm)
                for c in calls:
                    c["provs"] = [c["provs"][i] for i in perm]
                out.append({"strat": strat, "variant": var, "n": h["n"], "thr": h["thr"], "pc": h["pc"],
                            "cap": h["n"] if capr == "n" else 1, "T": T_MS, "seed": rnd.randrange(1 << 30),
                            "fam": fam, "flt": flt, "strict": strict,
                            # every call asks for the same slot / block, or each for another: alternately
                            "slots": "same" if taken[0] % 2 else "distinct", "calls": calls})

        for fam in ("stale", "repeat", "pairs", "free"):
            take(fam, "none", False, HQ[fam] * mult)
        for flt, (ks, kn) in HQ["leak"].items():
            if flt == "invalid":
                for inv in invs:
                    take("leak", flt, True, ks * mult, inv)
                    take("leak", flt, False, kn * mult, inv)
            else:
                take("leak", flt, True, ks * mult)
                take("leak", flt, False, kn * mult)
    if short:
        vf.log("fewer histories than planned for: %s" % short[:6])
    if len(short) > 4:
        raise vf.Broken("too few histories drawn for %d (strategy, family) pairs, e.g. %s" % (len(short), short[:4]))
    out.sort(key=lambda h: -len(h["calls"]))
    return out


def wired_histories(tier, rnd):
    """Histories of calls on one WIRED instance (real cache + real header strategy behind the real strategy), drawn
    by TLC (simulation, seeded) from Scen_CollectorLookup.tla."""
    mult = 4 if tier == "thorough" else 1
    num = 1500 * mult
    raw = vf.tlc_scenarios(PID, "Scen_CollectorLookup", "Scen_CollectorLookup.cfg", num=num, depth=30, name="scen-wired")[:num]
    pool = {}
    for h in raw:
        pool.setdefault((h["variant"], h["fam"]), []).append(h)
    out = []
    for strat in sorted(WIRED):
        var, invs = WIRED[strat]
        for fam, k in WQ.items():
            cell = pool.get((var, fam), [])
            have = []
            for h in cell:
                if not invs and any(p["k"] == "invalid" for c in h["calls"] for p in c["provs"]):
                    # a strategy without validity rules: the node fails instead (also a member of the set LInit chooses from)
                    h = dict(h, calls=[dict(c, provs=[dict(p, k="error", v=0, s=0, r=1) if p["k"] == "invalid" else p
                                                      for p in c["provs"]]) for c in h["calls"]])
                have.append(h)
            if len(have) < k * mult:
                raise vf.Broken("too few wired histories drawn for %s/%s: %d" % (strat, fam, len(have)))
            for h in rnd.sample(have, k * mult):
                calls = []
                for c in h["calls"]:
                    provs = [dict(p, inv=(rnd.choice(invs) if p["k"] == "invalid" else "")) for p in c["provs"]]
                    calls.append({"at": c["at"], "provs": provs, "hdr": c["hdr"], "pre": c["pre"]})
                perm = list(range(h["n"]))
                if fam != "slow":
                    rnd.shuffle(perm)
                for c in calls:
                    c["provs"] = [c["provs"][i] for i in perm]
                # the header provider: the 'first' strategy over two header nodes (main.go's default) - a node that
                # fails is silence to it, so a history with a failing header is wired to the node client directly
                # (main.go's other branch)
                direct = any(k == "fail" for c in calls for k in c["hdr"])
                out.append({"strat": strat, "variant": var, "n": h["n"], "thr": h["thr"], "pc": rnd.choice([1, 2, 4]),
                            "cap": h["n"], "T": T_MS, "seed": rnd.randrange(1 << 30), "fam": "wired-" + fam,
                            "flt": "none", "strict": False, "slots": "distinct",
                            "wired": "direct" if direct else "first", "calls": calls})
    out.sort(key=lambda h: -len(h["calls"]))
    return out


def hint(replay_dir):
    """Which part of C07 a rejected call most plainly contradicts (explanation only, not the verdict)."""
    try:
        rows = vf.read_ndjson(os.path.join(replay_dir, "trace.ndjson"))
        call = 0
        with open(os.path.join(replay_dir, "note.txt")) as fh:
            for line in fh:
                if line.startswith("next/offending trace line:"):
                    call = json.loads(line.split(":", 1)[1]).get("call", 0)
        resets = [r for r in rows if r["ev"] == "Reset"]
        if not call:
            call = resets[-1]["call"]
        a = [r for r in resets if r["call"] == call][0]
        b = [r for r in rows if r["ev"] == "Return" and r["call"] == call][0]
    except Exception:
        return ""
    where = ""
    if a.get("calls", 1) > 1:
        where = " [call %d of %d on one instance (process concurrency %d, started '%s')]" % (
            call, a["calls"], a.get("pcy", 0), a.get("at", "seq"))
    return _hint(a, b) + where


def _hint(a, b):
    T = a["T"]
    eps = max(T // 4, 40)
    obs = a["obs"]
    valid_in_time = [o for o in obs if o["k"] == "valid" and o.get("avail", o["t"]) < T - eps]
    if any(o["k"] == "none" for o in obs):
        return "a node was never asked (or its request never ended): the fan-out to every node is missing in this call"
    if b["noreturn"] or b["t"] > T + eps:
        return "ReturnsByHard: no return by T + Eps"
    if b["ok"] and b["nildata"]:
        return "InvalidNeverReturned: success reported with missing data"
    if b["ok"] and b.get("of", a["call"]) != a["call"]:
        return ("FirstIsSome/InvalidNeverReturned: the returned object was made for call %d of the instance - "
                "no node gave it in this call" % b["of"])
    if b["ok"] and a["variant"] in ("Best", "First"):
        if not 1 <= b["who"] <= a["n"]:
            return "FirstIsSome/InvalidNeverReturned: the returned object is no node's response"
        w = obs[b["who"] - 1]
        if w["k"] != "valid":
            return "InvalidNeverReturned: node %d's response fails the validity rules (%s)" % (b["who"], w.get("inv") or w["k"])
        if w["t"] > b["t"]:
            return "FirstIsSome: node %d answered after the strategy returned" % b["who"]
        if a["variant"] == "Best" and any(o["k"] == "valid" and o["s"] > w["s"] and o["t"] < min(b["t"], T // 2) - eps for o in obs):
            return "BestIsMax: a higher-scoring valid response had been received"
    if not b["ok"] and valid_in_time and a["variant"] != "Majority":
        return "ErrorIffNothing: error although an acceptable response arrived in time"
    if a["variant"] in ("Majority", "RootMajority"):
        return "MajorityRule: result is not what the tally of in-time reports and the threshold demand at this decision point"
    return "the decision is not admitted at this instant (returned before the variant may decide, or not the variant's choice)"


# designs that keep state in the instance (spec/CollectorSem.tla): right on a fresh instance, and TLC must reject
# them over histories / overlap - else the history part of the model says nothing
CONTROLS = [("MC_CollectorSem_leak.cfg", "MajorityRule"), ("MC_CollectorSem_leak_best.cfg", "ErrorIffNothing"),
            ("MC_CollectorSem_tally.cfg", "MajorityRule")]
CONTROLS_FRESH = ["MC_CollectorSem_fresh.cfg", "MC_CollectorSem_tally_fresh.cfg"]
# the cache on the path (spec/CollectorLookup.tla): a cache that fetches under one service-wide lock, a collector
# whose tie-break lookups are not bounded by the hard time-out - TLC must reject them, else the lookup part says nothing
LOOKUP_CONTROLS = [("MC_CollectorLookup_lock.cfg", "ErrorIffNothing"), ("MC_CollectorLookup_lock_best.cfg", "BestIsMax"),
                   ("MC_CollectorLookup_tb.cfg", "NotOverdue")]


def model_check(v, tier):
    with ThreadPoolExecutor(max_workers=4) as ex:
        main = ex.submit(vf.tlc_exhaustive, PID, "Collector", "MC_Collector.cfg", 4)
        look = ex.submit(vf.tlc_exhaustive, PID, "CollectorLookup",
                         "MC_CollectorLookup_big.cfg" if tier == "thorough" else "MC_CollectorLookup.cfg", 4, 2400)
        lctl = [(c, inv, ex.submit(vf.tlc, PID, "ctl-" + c.replace(".cfg", ""), "CollectorLookup", c, 2, 600))
                for c, inv in LOOKUP_CONTROLS]
        # two calls in flight on one instance
        pair = ex.submit(vf.tlc_exhaustive, PID, "CollectorInst",
                         "MC_CollectorInst_big.cfg" if tier == "thorough" else "MC_CollectorInst.cfg", 4, 2400)
        fresh = [ex.submit(vf.tlc_exhaustive, PID, "CollectorSem", c, 2) for c in CONTROLS_FRESH]
        ctl = [(c, inv, ex.submit(vf.tlc, PID, "ctl-" + c.replace(".cfg", ""), "CollectorSem", c, 2, 600)) for c, inv in CONTROLS]
        v.add_mc(main.result())
        v.add_mc(pair.result())
        for f in fresh:
            v.add_mc(f.result())
        v.add_mc(look.result())
        for c, inv, f in ctl + lctl:
            r = f.result()
            if r["kind"] != "invariant" or r["violated"] != inv:
                raise vf.Broken("%s no longer violates %s: the model of the long-lived instance / of the cache on the path is vacuous (%s %s)"
                                % (c, inv, r["kind"], r["violated"]))
            vf.log("control %s: rejected by TLC as it must be (%s)" % (c, inv))
    if tier == "thorough":
        v.add_mc(vf.tlc_exhaustive(PID, "Collector", "MC_Collector_big.cfg", timeout=1500))
        # NoBlockedSender is recorded for C20 and is not part of C07's verdict: it holds when every channel has
        # room for all n providers and is expected to fail for the `first` family (capacity 1).
        v.add_mc(vf.tlc_exhaustive(PID, "Collector", "MC_Collector_c20.cfg"))
        r = vf.tlc(PID, "mc-c20-cap1", "Collector", "MC_Collector_c20_cap1.cfg", workers=4, timeout=300)
        vf.log("C20 note: NoBlockedSender with `first` channel capacity 1: %s"
               % ("violated in the design (as suspected)" if r["violated"] == "NoBlockedSender" else "holds"))


def run(tier):
    v = vf.Verdict(PID, tier)
    v.assumptions = [
        "Env_Prompt: the collector goroutine reacts to a ready select case within Eps = max(T/4, 40 ms); instants "
        "closer than Eps to a deadline are ambiguous and TLC chooses their side; runs stalled by the machine are re-run",
        "Env_NoNilRoot: beaconblockroot/latest and /majority have no validity rule; a nil root (a crash) is C16's subject",
        "beacon nodes are scripted fakes that answer at their scripted instant whatever the request context does "
        "(silent nodes wait for the context); T = %d ms" % T_MS,
        "scores are computed by the real score functions (seam VerifC07Score) from real response objects",
        "a history runs on one real instance constructed once as main.go does (process concurrency 1..3 in histories, "
        "1..16 for single calls; time-out; threshold); calls that overlapped in real time are judged one by one "
        "(CollectorInst.tla: no step of a call reads or writes the other)",
    ]
    model_check(v, tier)
    sc = scenarios(tier)
    hs = [s for s in sc if s.get("calls")]
    vf.log("%d scenarios on %d strategies: %d single calls on a fresh instance, %d histories on one instance (%d calls, "
           "%d of them started while another was in flight)" % (
               len(sc), len(STRATS), len(sc) - len(hs), len(hs), sum(len(h["calls"]) for h in hs),
               sum(1 for h in hs for c in h["calls"] if c["at"] != "seq")))
    orig_report = v.report
    v.report = lambda sig, what, d: orig_report(sig, what + " -- " + hint(d) + " -- " + json.dumps(sig), d)
    ws = [s for s in sc if s.get("wired")]
    vf.log("%d of the histories run on a WIRED instance (real cache + real header strategy): %d calls" % (
        len(ws), sum(len(h["calls"]) for h in ws)))
    # one driver batch for everything; the wired family is validated against the specification with the cache on the path
    cache = {"rows": driver(sc, "batch")}

    def batch_of(part):
        ids = {s["sc"] for s in part}

        def drv(scs, tag):
            if tag == "batch" and cache["rows"] is not None:
                return [r for r in cache["rows"] if r["sc"] in ids]
            return driver(scs, tag)
        return drv

    rest = [s for s in sc if not s.get("wired")]
    save = vf.save_replay
    try:
        # (replay directories of the two parts must not collide)
        vf.save_replay = lambda pid, k, *a: save(pid, k + 100, *a)
        vf.conformance(v, ws, batch_of(ws), "Trace_CollectorLookup", "Trace_CollectorLookup.cfg", sig_of, nontrivial,
                       tlc_timeout=1200)
    finally:
        vf.save_replay = save
    vf.conformance(v, rest, batch_of(rest), "Trace_Collector", "Trace_Collector.cfg", sig_of, nontrivial, chunk=1500,
                   tlc_timeout=1200)
    v.coverage["rule"] = ("(a) initial states of Collector.tla enumerated by TLC (all multisets of node behaviours x phases, "
                          "n <= 4; quick: seeded stratified sample, thorough: all with n <= 3 plus a sample of n = 4), each a "
                          "single call on a fresh instance; (b) histories of >= process concurrency + 2 calls on ONE instance "
                          "drawn by TLC (simulation) from Scen_CollectorInst.tla, n <= 3, families leak / stale / repeat / pairs / "
                          "free, sequential and overlapped calls; both replayed in real time on every real strategy; a scenario "
                          "(= the unit of evaluation, confirmation and replay) is a single call or a whole history; "
                          "non-trivial = the strategy had a choice to make or a fault to tolerate in some call "
                          "(see features() in checks/C07.py); distinct by scenario content")
    extra = {"strategies": len(STRATS), "proposal_best_nil_data_included": bool(_state["proposal_nil_ok"]),
             "histories": len(hs), "calls_in_histories": sum(len(h["calls"]) for h in hs),
             "overlapped_calls": sum(1 for h in hs for c in h["calls"] if c["at"] != "seq"),
             "histories_by_family": {f: sum(1 for h in hs if h["fam"] == f) for f in sorted({h["fam"] for h in hs})},
             "scenarios_rerun_after_stall": _state["reruns"],
             "c20_scenarios_with_blocked_sender_by_strategy": dict(sorted(_state["blocked"].items()))}
    return v.finish(extra=extra)


def selftest(tier):
    """Binding demonstration on recorded traces: every accepted call of a fresh run, with one recorded field
    corrupted (worse response, error instead of result, late return, minority value, an object of an earlier call,
    a node never asked, ...), must be rejected."""
    rnd = random.Random(vf.seed())
    allsc = scenarios("quick")
    sc = [s for s in allsc if not s.get("calls") and s["n"] >= 2]
    rnd.shuffle(sc)
    allearly = [s for s in sc if len(in_time_valid(s)) >= 2 and all(p["ph"] == "early" for p in in_time_valid(s))]
    hs = [s for s in allsc if s.get("calls") and not s.get("wired")]
    rnd.shuffle(hs)
    sc = allearly[:200] + [s for s in sc if s not in allearly][:200] + hs[:60]
    for i, s in enumerate(sc):
        s["sc"] = i + 1
    rows = driver(sc, "selftest")
    single = {s["sc"] for s in sc if not s.get("calls")}
    pairs = [(rows[i], rows[i + 1]) for i in range(0, len(rows), 2) if rows[i]["sc"] in single]
    T = T_MS
    eps = max(T // 4, 40)
    cases = []

    def add(name, a, b, **chg):
        if sum(1 for c in cases if c[0] == name) < 3:
            b2 = dict(b)
            b2.update(chg)
            cases.append((name, [a, b2]))

    for a, b in pairs:
        obs = a["obs"]
        if a["variant"] == "Best" and b["ok"]:
            w = obs[b["who"] - 1]
            lower = [i + 1 for i, o in enumerate(obs) if o["k"] == "valid" and o["s"] < w["s"] and o["t"] < T // 2 - eps]
            if lower and w["t"] < T // 2 - eps:
                add("best: lower-scoring response returned", a, b, who=lower[0])
        if b["ok"] and a["variant"] != "Majority":
            add("result replaced by an error", a, b, ok=False)
        if b["t"] > T - eps // 2:
            add("return later than T + Eps", a, b, t=T + eps + 20)
        if not b["ok"] and a["variant"] in ("Best", "First") and obs[0]["k"] != "valid":
            add("error replaced by a non-acceptable node's response", a, b, ok=True, who=1, of=1)
        if a["variant"] in ("Majority", "RootMajority") and b["ok"]:
            c = {}
            for o in obs:
                if o["k"] == "valid" and o["t"] < T // 2 - eps:
                    c[o["v"]] = c.get(o["v"], 0) + 1
            if c.get(b["val"], 0) > c.get(3 - b["val"], 0) >= 1 and all(o["t"] < T // 2 - eps for o in obs if o["k"] == "valid"):
                add("majority: minority value returned", a, b, val=3 - b["val"])
        if a["variant"] == "Majority" and not b["ok"]:
            vs = [o["v"] for o in obs if o["k"] == "valid" and o["t"] < T - eps]
            if vs:
                add("majority: value used below the threshold", a, b, ok=True, val=vs[0], of=1)
        if a["variant"] == "First" and b["ok"]:
            later = [i + 1 for i, o in enumerate(obs) if o["k"] == "valid" and o["t"] > b["t"]]
            if later:
                add("first: response of a node that had not answered yet", a, b, who=later[0])
    # histories: one field of one LATER call corrupted, the whole history validated
    by = {}
    for r in rows:
        if r["sc"] not in single:
            by.setdefault(r["sc"], []).append(r)

    def addh(name, hist, idx, **chg):
        if sum(1 for c in cases if c[0] == name) < 3:
            h2 = [dict(r) for r in hist]
            h2[idx].update(chg)
            cases.append((name, h2))

    for hist in by.values():
        for i in range(2, len(hist), 2):
            a, b = hist[i], hist[i + 1]
            if b["ok"]:
                addh("history: the object returned was made for an earlier call", hist, i + 1, of=a["call"] - 1)
                addh("history: a later call answered without asking a node", hist, i,
                     obs=[dict(a["obs"][0], k="none", calls=0, t=0)] + a["obs"][1:])
            if b["ok"] and a["variant"] != "Majority":
                addh("history: a later call fails although the nodes answered", hist, i + 1, ok=False)
            addh("history: a later call runs with other construction parameters", hist, i, cap=a["cap"] + 1)
    bad = 0
    for i, (name, rws) in enumerate(cases):
        tp = os.path.join(vf.outdir(PID), "selftest.ndjson")
        vf.write_ndjson(tp, rws)
        res = vf.validate_trace(PID, "Trace_Collector", "Trace_Collector.cfg", tp, name="trace-selftest")
        vf.log("selftest %-70s %s" % (name, "accepted (BAD)" if res["accepted"] else "rejected"))
        bad += 1 if res["accepted"] else 0
    if len({c[0] for c in cases}) < 9:
        raise vf.Broken("selftest found too few corruptible traces")
    return 1 if bad else 0


def replay(path):
    v = vf.Verdict(PID, "quick")
    with open(os.path.join(path, "scenario.json")) as fh:
        s = json.load(fh)
    if s.get("wired"):
        vf.conformance(v, [s], driver, "Trace_CollectorLookup", "Trace_CollectorLookup.cfg", sig_of, nontrivial)
    else:
        vf.conformance(v, [s], driver, "Trace_Collector", "Trace_Collector.cfg", sig_of, nontrivial)
    return 1 if v.violations else 0
