"""C07 — multi-node strategies return the right valid answer, in bounded time (spec/Collector.tla).

Collector.tla is model-checked exhaustively; its initial states (what every node answers and in which
phase, one representative per multiset of nodes) are enumerated by TLC and replayed in real time on
each of the 14 real strategies (strategies/*/{best,majority,first,latest}); the recorded observations
(what each fake returned and when, what the strategy returned and when) are validated by TLC against
Trace_Collector.tla, which classifies every instant as before / ambiguous / after the soft and hard
deadline and accepts iff some resolution of the ambiguous instants and of `select` explains the result.
"""
import json
import os
import random
import vf

PID = "C07"
PKG = "./strategies"
TEST = "TestVerifC07"
T_MS = 400
JIT_MS = 50            # a scenario during which the driver process was stalled longer is re-run, never judged

# strategy -> (variant of Collector.tla, channel capacity rule, validity rules that can be scripted)
STRATS = {
    "attestationdata/best": ("Best", "n", ["nil", "niltarget", "badtarget"]),
    "aggregateattestation/best": ("Best", "n", ["nil"]),
    "beaconblockproposal/best": ("Best", "n", ["zerofee", "nil"]),
    "synccommitteecontribution/best": ("Best", "n", ["nil"]),
    "beaconblockroot/latest": ("Best", "n", []),
    "attestationdata/majority": ("Majority", "n", ["nil", "niltarget", "badtarget"]),
    "beaconblockroot/majority": ("RootMajority", "n", []),
    "attestationdata/first": ("First", "1", ["nil"]),
    "aggregateattestation/first": ("First", "1", ["nil"]),
    "beaconblockproposal/first": ("First", "1", ["nil"]),
    "synccommitteecontribution/first": ("First", "1", ["nil"]),
    "beaconblockroot/first": ("First", "1", ["nil"]),
    "beaconblockheader/first": ("First", "1", ["nil"]),
    "signedbeaconblock/first": ("First", "1", ["nil"]),
}

_state = {"proposal_nil_ok": None, "reruns": 0, "blocked": {}}


def go_driver(scenarios, tag, par=None):
    env = {}
    if par:
        env["VERIF_C07_PAR"] = par
    return vf.run_driver(PID, PKG, TEST, scenarios, tag, env=env, timeout=1500)


def probe_proposal_nil():
    """beaconblockproposal/best dereferences a nil Data in its provider goroutine (a crash, property
    C16's subject, suspected defect D8a).  A crash kills the whole driver, so that one input is tried
    alone first and left out of C07's batch while the tree still crashes on it."""
    if _state["proposal_nil_ok"] is None:
        s = {"sc": 1, "strat": "beaconblockproposal/best", "variant": "Best", "n": 1, "thr": 0, "cap": 1, "T": T_MS,
             "seed": 1, "provs": [{"k": "invalid", "v": 0, "s": 0, "ph": "early", "inv": "nil"}]}
        try:
            go_driver([s], "probe")
            _state["proposal_nil_ok"] = True
        except vf.Broken as e:
            if "panic" in str(e) and "beaconblockproposal/best.(*Service).beaconBlockProposal" in str(e):
                _state["proposal_nil_ok"] = False
                vf.log("beaconblockproposal/best panics on a nil Data (C16/D8a): that input is left to C16")
            else:
                raise
    return _state["proposal_nil_ok"]


def driver(scenarios, tag):
    """Run the scenarios; scenarios during which the driver process was stalled (scheduling delay above
    JIT_MS, measured by the driver) are run again, with less parallelism, until they are clean."""
    rows = go_driver(scenarios, tag)
    by = {}
    for r in rows:
        by.setdefault(r["sc"], []).append(r)
    todo = [s for s in scenarios if _disturbed(by.get(s["sc"]))]
    attempt = 0
    while todo:
        attempt += 1
        if attempt > 4:
            raise vf.Broken("%d scenarios could not be measured without scheduling stalls > %d ms (machine too loaded)"
                            % (len(todo), JIT_MS))
        _state["reruns"] += len(todo)
        vf.log("re-running %d scenario(s) disturbed by scheduling stalls (attempt %d)" % (len(todo), attempt))
        rr = go_driver(todo, tag + "-rerun", par=max(4, 64 >> attempt))
        nb = {}
        for r in rr:
            nb.setdefault(r["sc"], []).append(r)
        for s in todo:
            if s["sc"] in nb:
                by[s["sc"]] = nb[s["sc"]]
        todo = [s for s in todo if _disturbed(by.get(s["sc"]))]
    out = []
    for s in scenarios:
        rs = by.get(s["sc"], [])
        for r in rs:
            if r["ev"] == "Reset" and any(o["k"] == "none" for o in r["obs"]):
                raise vf.Broken("scenario %s: a provider fake was never called or never returned: %s" % (s["sc"], r))
            if r["ev"] == "Return" and r.get("blocked"):
                _state["blocked"][s["strat"]] = _state["blocked"].get(s["strat"], 0) + 1
        out += rs
    return out


def _disturbed(rs):
    if not rs:
        return True
    return any(r["ev"] == "Return" and r.get("jit", 0) > JIT_MS for r in rs)


# --------------------------------------------------------------------------------------------------
def in_time_valid(s):
    return [p for p in s["provs"] if p["k"] == "valid" and p["ph"] != "late"]


def features(s):
    """What a scenario exercises (used to stratify the sample and to count non-trivial scenarios)."""
    f = set()
    iv = in_time_valid(s)
    var = s["variant"]
    others = [p for p in s["provs"] if p not in iv]
    if var == "Best":
        if len({p["s"] for p in iv}) >= 2:
            f.add("choice")                      # two in-time responses with different scores
        if len({p["s"] for p in iv if p["ph"] == "early"}) >= 2:
            f.add("early-choice")
    elif var in ("Majority", "RootMajority"):
        cnt = {}
        for p in iv:
            cnt[p["v"]] = cnt.get(p["v"], 0) + 1
        m = max(cnt.values()) if cnt else 0
        if len(iv) >= 2:
            f.add("choice")
        if var == "Majority":
            if m >= 1 and m == s["thr"]:
                f.add("at-threshold")
            if m >= 1 and m == s["thr"] - 1:
                f.add("below-threshold")
            if s["thr"] > s["n"] // 2 + 1 and m >= s["thr"]:
                f.add("threshold-above-strict-majority")
    else:
        if len(iv) >= 1 and len(s["provs"]) >= 2:
            f.add("choice")
    if iv and any(p["k"] == "invalid" and p["ph"] != "late" for p in s["provs"]):
        f.add("invalid-and-valid")
    if any(p["k"] == "invalid" and p["ph"] != "late" for p in s["provs"]) and not iv:
        f.add("only-invalid")
    if not any(p["ph"] == "early" for p in iv) and any(p["ph"] == "mid" for p in iv):
        f.add("only-mid")
    if not iv and others:
        f.add("nothing-in-time")
    if any(p["k"] == "silent" or p["ph"] == "late" for p in s["provs"]) and iv:
        f.add("slow-and-valid")
    return f


RARE = ["threshold-above-strict-majority", "at-threshold", "below-threshold", "early-choice", "only-mid",
        "invalid-and-valid", "only-invalid", "slow-and-valid"]


def sig_of(s):
    var = s["variant"]
    return {"strat": s["strat"], "family": var,
            "nil_in_time": any(p["k"] == "invalid" and p.get("inv") == "nil" and p["ph"] != "late" for p in s["provs"]),
            "thr_above_strict_majority": var == "Majority" and s["thr"] > s["n"] // 2 + 1}


def nontrivial(s, rows):
    return bool(features(s) - {"nothing-in-time"})


def scenarios(tier):
    base = vf.tlc_scenarios(PID, "Scen_Collector", "Scen_Collector.cfg", exhaustive=True, workers=4, timeout=600)
    if len(base) < 18000:
        raise vf.Broken("scenario enumeration incomplete: %d" % len(base))
    byvar = {}
    for b in base:
        byvar.setdefault(b["variant"], []).append(b)
    nil_ok = probe_proposal_nil()
    rnd = random.Random(vf.seed() * 7919 + 17)
    out = []
    for strat in sorted(STRATS):
        var, capr, invs = STRATS[strat]
        if strat == "beaconblockproposal/best" and not nil_ok:
            invs = [i for i in invs if i != "nil"]
        pool = [b for b in byvar[var] if invs or not any(p["k"] == "invalid" for p in b["provs"])]
        chosen = []
        for n in (1, 2, 3, 4):
            pn = [b for b in pool if b["n"] == n]
            if tier == "thorough":
                k = len(pn) if n <= 3 else 150
            else:
                k = {1: len(pn), 2: 40, 3: 70, 4: 40}[n]
            if k >= len(pn):
                chosen += pn
                continue
            # stratified: a few scenarios for every rarer feature first, the rest uniform
            pick = []
            for f in RARE:
                have = [b for b in pn if f in features(b) and b not in pick]
                pick += rnd.sample(have, min(len(have), max(2, k // 12)))
            pick = pick[:k]
            rest = [b for b in pn if b not in pick]
            pick += rnd.sample(rest, k - len(pick))
            chosen += pick
        for b in chosen:
            provs = []
            for p in b["provs"]:
                q = dict(p)
                q["inv"] = rnd.choice(invs) if p["k"] == "invalid" else ""
                provs.append(q)
            rnd.shuffle(provs)
            out.append({"strat": strat, "variant": var, "n": b["n"], "thr": b["thr"],
                        "cap": b["n"] if capr == "n" else 1, "T": T_MS, "seed": rnd.randrange(1 << 30), "provs": provs})
    rnd.shuffle(out)
    for i, s in enumerate(out):
        s["sc"] = i + 1
    return out


def hint(replay_dir):
    """Which part of C07 a rejected call most plainly contradicts (explanation only, not the verdict)."""
    try:
        rows = vf.read_ndjson(os.path.join(replay_dir, "trace.ndjson"))
        a = [r for r in rows if r["ev"] == "Reset"][0]
        b = [r for r in rows if r["ev"] == "Return"][0]
    except Exception:
        return ""
    T = a["T"]
    eps = max(T // 4, 40)
    obs = a["obs"]
    valid_in_time = [o for o in obs if o["k"] == "valid" and o["t"] < T - eps]
    if b["noreturn"] or b["t"] > T + eps:
        return "ReturnsByHard: no return by T + Eps"
    if b["ok"] and b["nildata"]:
        return "InvalidNeverReturned: success reported with missing data"
    if b["ok"] and a["variant"] in ("Best", "First"):
        if not 1 <= b["who"] <= a["n"]:
            return "FirstIsSome/InvalidNeverReturned: the returned object is no node's response"
        w = obs[b["who"] - 1]
        if w["k"] != "valid":
            return "InvalidNeverReturned: node %d's response fails the validity rules (%s)" % (b["who"], w.get("inv") or w["k"])
        if w["t"] > b["t"]:
            return "FirstIsSome: node %d answered after the strategy returned" % b["who"]
        if a["variant"] == "Best" and any(o["k"] == "valid" and o["s"] > w["s"] and o["t"] < min(b["t"], T // 2) - eps for o in obs):
            return "BestIsMax: a higher-scoring valid response had been received"
    if not b["ok"] and valid_in_time and a["variant"] != "Majority":
        return "ErrorIffNothing: error although an acceptable response arrived in time"
    if a["variant"] in ("Majority", "RootMajority"):
        return "MajorityRule: result is not what the tally of in-time reports and the threshold demand at this decision point"
    return "the decision is not admitted at this instant (returned before the variant may decide, or not the variant's choice)"


def model_check(v, tier):
    v.add_mc(vf.tlc_exhaustive(PID, "Collector", "MC_Collector.cfg"))
    if tier == "thorough":
        v.add_mc(vf.tlc_exhaustive(PID, "Collector", "MC_Collector_big.cfg", timeout=1500))
        # NoBlockedSender is recorded for C20 and is not part of C07's verdict: it holds when every channel has
        # room for all n providers and is expected to fail for the `first` family (capacity 1).
        v.add_mc(vf.tlc_exhaustive(PID, "Collector", "MC_Collector_c20.cfg"))
        r = vf.tlc(PID, "mc-c20-cap1", "Collector", "MC_Collector_c20_cap1.cfg", workers=4, timeout=300)
        vf.log("C20 note: NoBlockedSender with `first` channel capacity 1: %s"
               % ("violated in the design (as suspected)" if r["violated"] == "NoBlockedSender" else "holds"))


def run(tier):
    v = vf.Verdict(PID, tier)
    v.assumptions = [
        "Env_Prompt: the collector goroutine reacts to a ready select case within Eps = max(T/4, 40 ms); instants "
        "closer than Eps to a deadline are ambiguous and TLC chooses their side; runs stalled by the machine are re-run",
        "Env_NoNilRoot: beaconblockroot/latest and /majority have no validity rule; a nil root (a crash) is C16's subject",
        "beacon nodes are scripted fakes that answer at their scripted instant whatever the request context does "
        "(silent nodes wait for the context); T = %d ms" % T_MS,
        "scores are computed by the real score functions (seam VerifC07Score) from real response objects",
    ]
    model_check(v, tier)
    sc = scenarios(tier)
    vf.log("%d scenarios on %d strategies" % (len(sc), len(STRATS)))
    orig_report = v.report
    v.report = lambda sig, what, d: orig_report(sig, what + " -- " + hint(d) + " -- " + json.dumps(sig), d)
    vf.conformance(v, sc, driver, "Trace_Collector", "Trace_Collector.cfg", sig_of, nontrivial, chunk=1500,
                   tlc_timeout=1200)
    v.coverage["rule"] = ("initial states of Collector.tla enumerated by TLC (all multisets of node behaviours x phases, "
                          "n <= 4; quick: seeded stratified sample, thorough: all with n <= 3 plus a sample of n = 4) "
                          "replayed in real time on every real strategy; non-trivial = the strategy had a choice to "
                          "make or a fault to tolerate (see features() in checks/C07.py); distinct by scenario content")
    extra = {"strategies": len(STRATS), "proposal_best_nil_data_included": bool(_state["proposal_nil_ok"]),
             "scenarios_rerun_after_stall": _state["reruns"],
             "c20_scenarios_with_blocked_sender_by_strategy": dict(sorted(_state["blocked"].items()))}
    return v.finish(extra=extra)


def selftest(tier):
    """Binding demonstration on recorded traces: every accepted call of a fresh run, with one recorded field
    corrupted (worse response, error instead of result, late return, minority value, ...), must be rejected."""
    import copy
    rnd = random.Random(vf.seed())
    sc = [s for s in scenarios("quick") if s["n"] >= 2]
    rnd.shuffle(sc)
    allearly = [s for s in sc if len(in_time_valid(s)) >= 2 and all(p["ph"] == "early" for p in in_time_valid(s))]
    sc = allearly[:200] + [s for s in sc if s not in allearly][:200]
    rows = driver(sc, "selftest")
    pairs = [(rows[i], rows[i + 1]) for i in range(0, len(rows), 2)]
    T = T_MS
    eps = max(T // 4, 40)
    cases = []

    def add(name, a, b, **chg):
        if sum(1 for c in cases if c[0] == name) < 3:
            b2 = dict(b)
            b2.update(chg)
            cases.append((name, a, b2))

    for a, b in pairs:
        obs = a["obs"]
        if a["variant"] == "Best" and b["ok"]:
            w = obs[b["who"] - 1]
            lower = [i + 1 for i, o in enumerate(obs) if o["k"] == "valid" and o["s"] < w["s"] and o["t"] < T // 2 - eps]
            if lower and w["t"] < T // 2 - eps:
                add("best: lower-scoring response returned", a, b, who=lower[0])
        if b["ok"] and a["variant"] != "Majority":
            add("result replaced by an error", a, b, ok=False)
        if b["t"] > T - eps // 2:
            add("return later than T + Eps", a, b, t=T + eps + 20)
        if not b["ok"] and a["variant"] in ("Best", "First") and obs[0]["k"] != "valid":
            add("error replaced by a non-acceptable node's response", a, b, ok=True, who=1)
        if a["variant"] in ("Majority", "RootMajority") and b["ok"]:
            c = {}
            for o in obs:
                if o["k"] == "valid" and o["t"] < T // 2 - eps:
                    c[o["v"]] = c.get(o["v"], 0) + 1
            if c.get(b["val"], 0) > c.get(3 - b["val"], 0) >= 1 and all(o["t"] < T // 2 - eps for o in obs if o["k"] == "valid"):
                add("majority: minority value returned", a, b, val=3 - b["val"])
        if a["variant"] == "Majority" and not b["ok"]:
            vs = [o["v"] for o in obs if o["k"] == "valid" and o["t"] < T - eps]
            if vs:
                add("majority: value used below the threshold", a, b, ok=True, val=vs[0])
        if a["variant"] == "First" and b["ok"]:
            later = [i + 1 for i, o in enumerate(obs) if o["k"] == "valid" and o["t"] > b["t"]]
            if later:
                add("first: response of a node that had not answered yet", a, b, who=later[0])
    bad = 0
    for i, (name, a, b) in enumerate(cases):
        tp = os.path.join(vf.outdir(PID), "selftest.ndjson")
        vf.write_ndjson(tp, [a, b])
        res = vf.validate_trace(PID, "Trace_Collector", "Trace_Collector.cfg", tp, name="trace-selftest")
        vf.log("selftest %-55s %s" % (name, "accepted (BAD)" if res["accepted"] else "rejected"))
        bad += 1 if res["accepted"] else 0
    if len({c[0] for c in cases}) < 6:
        raise vf.Broken("selftest found too few corruptible traces")
    return 1 if bad else 0


def replay(path):
    v = vf.Verdict(PID, "quick")
    with open(os.path.join(path, "scenario.json")) as fh:
        s = json.load(fh)
    vf.conformance(v, [s], driver, "Trace_Collector", "Trace_Collector.cfg", sig_of, nontrivial)
    return 1 if v.violations else 0
