"""C07 — multi-node strategies return the right valid answer, in bounded time (spec/Collector.tla).

Collector.tla is model-checked exhaustively; its initial states (what every node answers and in which
phase, one representative per multiset of nodes) are enumerated by TLC and replayed in real time on
each of the 14 real strategies (strategies/*/{best,majority,first,latest}); the recorded observations
(what each fake returned and when, what the strategy returned and when) are validated by TLC against
Trace_Collector.tla, which classifies every instant as before / ambiguous / after the soft and hard
deadline and accepts iff some resolution of the ambiguous instants and of `select` explains the result.
"""
import json
import os
import random
import vf

PID = "C07"
PKG = "./strategies"
TEST = "TestVerifC07"
T_MS = 400
JIT_MS = 50            # a scenario during which the driver process was stalled longer is re-run, never judged

# strategy -> (variant of Collector.tla, channel capacity rule, validity rules that can be scripted)
STRATS = {
    "attestationdata/best": ("Best", "n", ["nil", "niltarget", "badtarget"]),
    "aggregateattestation/best": ("Best", "n", ["nil"]),
    "beaconblockproposal/best": ("Best", "n", ["zerofee", "nil"]),
    "synccommitteecontribution/best": ("Best", "n", ["nil"]),
    "beaconblockroot/latest": ("Best", "n", []),
    "attestationdata/majority": ("Majority", "n", ["nil", "niltarget", "badtarget"]),
    "beaconblockroot/majority": ("RootMajority", "n", []),
    "attestationdata/first": ("First", "1", ["nil"]),
    "aggregateattestation/first": ("First", "1", ["nil"]),
    "beaconblockproposal/first": ("First", "1", ["nil"]),
    "synccommitteecontribution/first": ("First", "1", ["nil"]),
    "beaconblockroot/first": ("First", "1", ["nil"]),
    "beaconblockheader/first": ("First", "1", ["nil"]),
    "signedbeaconblock/first": ("First", "1", ["nil"]),
}

_state = {"proposal_nil_ok": None, "reruns": 0, "blocked": {}}


def go_driver(scenarios, tag, par=None):
    env = {}
    if par:
        env["VERIF_C07_PAR"] = par
    return vf.run_driver(PID, PKG, TEST, scenarios, tag, env=env, timeout=1500)


def probe_proposal_nil():
    """beaconblockproposal/best dereferences a nil Data in its provider goroutine (a crash, property
    C16's subject, suspected defect D8a).  A crash kills the whole driver, so that one input is tried
    alone first and left out of C07's batch while the tree still crashes on it."""
    if _state["proposal_nil_ok"] is None:
        s = {"sc": 1, "strat": "beaconblockproposal/best", "variant": "Best", "n": 1, "thr": 0, "cap": 1, "T": T_MS,
             "seed": 1, "provs": [{"k": "invalid", "v": 0, "s": 0, "ph": "early", "inv": "nil"}]}
        try:
            go_driver([s], "probe")
            _state["proposal_nil_ok"] = True
        except vf.Broken as e:
            if "panic" in str(e) and "beaconblockproposal/best.(*Service).beaconBlockProposal" in str(e):
                _state["proposal_nil_ok"] = False
                vf.log("beaconblockproposal/best panics on a nil Data (C16/D8a): that input is left to C16")
            else:
                raise
    return _state["proposal_nil_ok"]


def driver(scenarios, tag):
    """Run the scenarios; scenarios during which the driver process was stalled (scheduling delay above
    JIT_MS, measured by the driver) are run again, with less parallelism, until they are clean."""
    rows = go_driver(scenarios, tag)
    by = {}
    for r in rows:
        by.setdefault(r["sc"], []).append(r)
    todo = [s for s in scenarios if _disturbed(by.get(s["sc"]))]
    attempt = 0
    while todo:
        attempt += 1
        if attempt > 4:
            raise vf.Broken("%d scenarios could not be measured without scheduling stalls > %d ms (machine too loaded)"
                            % (len(todo), JIT_MS))
        _state["reruns"] += len(todo)
        vf.log("re-running %d scenario(s) disturbed by scheduling stalls (attempt %d)" % (len(todo), attempt))
        rr = go_driver(todo, tag + "-rerun", par=max(4, 64 >> attempt))
        nb = {}
        for r in rr:
            nb.setdefault(r["sc"], []).append(r)
        for s in todo:
            if s["sc"] in nb:
                by[s["sc"]] = nb[s["sc"]]
        todo = [s for s in todo if _disturbed(by.get(s["sc"]))]
    out = []
    for s in scenarios:
        rs = by.get(s["sc"], [])
        for r in rs:
            if r["ev"] == "Reset" and any(o["k"] == "none" for o in r["obs"]):
                raise vf.Broken("scenario %s: a provider fake was never called or never returned: %s" % (s["sc"], r))
            if r["ev"] == "Return" and r.get("blocked"):
                _state["blocked"][s["strat"]] = _state["blocked"].get(s["strat"], 0) + 1
        out += rs
    return out


def _disturbed(rs):
    if not rs:
        return True
    return any(r["ev"] == "Return" and r.get("jit", 0) > JIT_MS for r in rs)


# --------------------------------------------------------------------------------------------------
def in_time_valid(s):
    return [p for p in s["provs"] if p["k"] == "valid" and p["ph"] != "late"]


def features(s):
    """What a scenario exercises (used to stratify the sample and to count non-trivial scenarios)."""
    f = set()
    iv = in_time_valid(s)
    var = s["variant"]
    others = [p for p in s["provs"] if p not in iv]
    if var == "Best":
        if len({p["s"] for p in iv}) >= 2:
            f.add("choice")                      # two in-time responses with different scores
        if len({p["s"] for p in iv if p["ph"] == "early"}) >= 2:
            f.add("early-choice")
    elif var in ("Majority", "RootMajority"):
        cnt = {}
        for p in iv:
            cnt[p["v"]] = cnt.get(p["v"], 0) + 1
        m = max(cnt.values()) if cnt else 0
        if len(iv) >= 2:
            f.add("choice")
        if var == "Majority":
            if m >= 1 and m == s["thr"]:
                f.add("at-threshold")
            if m >= 1 and m == s["thr"] - 1:
                f.add("below-threshold")
            if s["thr"] > s["n"] // 2 + 1 and m >= s["thr"]:
                f.add("threshold-above-strict-majority")
    else:
        if len(iv) >= 1 and len(s["provs"]) >= 2:
            f.add("choice")
    if iv and any(p["k"] == "invalid" and p["ph"] != "late" for p in s["provs"]):
        f.add("invalid-and-valid")
    if any(p["k"] == "invalid" and p["ph"] != "late" for p in s["provs"]) and not iv:
        f.add("only-invalid")
    if not any(p["ph"] == "early" for p in iv) and any(p["ph"] == "mid" for p in iv):
        f.add("only-mid")
    if not iv and others:
        f.add("nothing-in-time")
    if any(p["k"] == "silent" or p["ph"] == "late" for p in s["provs"]) and iv:
        f.add("slow-and-valid")
    return f


def sig_of(s):
    var = s["variant"]
    return {"strat": s["strat"], "family": var,
            "nil_in_time": any(p["k"] == "invalid" and p.get("inv") == "nil" and p["ph"] != "late" for p in s["provs"]),
            "thr_above_strict_majority": var == "Majority" and s["thr"] > s["n"] // 2 + 1}


def nontrivial(s, rows):
    return bool(features(s) - {"nothing-in-time"})


def scenarios(tier):
    base = vf.tlc_scenarios(PID, "Scen_Collector", "Scen_Collector.cfg", exhaustive=True, workers=4, timeout=600)
    if len(base) < 18000:
        raise vf.Broken("scenario enumeration incomplete: %d" % len(base))
    byvar = {}
    for b in base:
        byvar.setdefault(b["variant"], []).append(b)
    nil_ok = probe_proposal_nil()
    rnd = random.Random(vf.seed() * 7919 + 17)
    out = []
    for strat in sorted(STRATS):
        var, capr, invs = STRATS[strat]
        if strat == "beaconblockproposal/best" and not nil_ok:
            invs = [i for i in invs if i != "nil"]
        pool = [b for b in byvar[var] if invs or not any(p["k"] == "invalid" for p in b["provs"])]
        chosen = []
        for n in (1, 2, 3, 4):
            pn = [b for b in pool if b["n"] == n]
            if tier == "thorough":
                k = len(pn) if n <= 3 else 150
            else:
                k = {1: len(pn), 2: 22, 3: 38, 4: 22}[n]
            if k >= len(pn):
                chosen += pn
                continue
            # stratified: half of the sample from scenarios with a rare feature, the rest uniform
            rare = [b for b in pn if features(b) & {"at-threshold", "below-threshold", "early-choice", "only-mid",
                                                   "invalid-and-valid", "threshold-above-strict-majority"}]
            pick = rnd.sample(rare, min(len(rare), k // 2))
            rest = [b for b in pn if b not in pick]
            pick += rnd.sample(rest, k - len(pick))
            chosen += pick
        for b in chosen:
            provs = []
            for p in b["provs"]:
                q = dict(p)
                q["inv"] = rnd.choice(invs) if p["k"] == "invalid" else ""
                provs.append(q)
            rnd.shuffle(provs)
            out.append({"strat": strat, "variant": var, "n": b["n"], "thr": b["thr"],
                        "cap": b["n"] if capr == "n" else 1, "T": T_MS, "seed": rnd.randrange(1 << 30), "provs": provs})
    rnd.shuffle(out)
    for i, s in enumerate(out):
        s["sc"] = i + 1
    return out


def model_check(v, tier):
    v.add_mc(vf.tlc_exhaustive(PID, "Collector", "MC_Collector.cfg"))
    if tier == "thorough":
        v.add_mc(vf.tlc_exhaustive(PID, "Collector", "MC_Collector_big.cfg", timeout=1500))
        # NoBlockedSender is recorded for C20 and is not part of C07's verdict: it holds when every channel has
        # room for all n providers and is expected to fail for the `first` family (capacity 1).
        v.add_mc(vf.tlc_exhaustive(PID, "Collector", "MC_Collector_c20.cfg"))
        r = vf.tlc(PID, "mc-c20-cap1", "Collector", "MC_Collector_c20_cap1.cfg", workers=4, timeout=300)
        vf.log("C20 note: NoBlockedSender with `first` channel capacity 1: %s"
               % ("violated in the design (as suspected)" if r["violated"] == "NoBlockedSender" else "holds"))


def run(tier):
    v = vf.Verdict(PID, tier)
    v.assumptions = [
        "Env_Prompt: the collector goroutine reacts to a ready select case within Eps = max(T/4, 40 ms); instants "
        "closer than Eps to a deadline are ambiguous and TLC chooses their side; runs stalled by the machine are re-run",
        "Env_NoNilRoot: beaconblockroot/latest and /majority have no validity rule; a nil root (a crash) is C16's subject",
        "beacon nodes are scripted fakes that answer at their scripted instant whatever the request context does "
        "(silent nodes wait for the context); T = %d ms" % T_MS,
        "scores are computed by the real score functions (seam VerifC07Score) from real response objects",
    ]
    model_check(v, tier)
    sc = scenarios(tier)
    vf.log("%d scenarios on %d strategies" % (len(sc), len(STRATS)))
    vf.conformance(v, sc, driver, "Trace_Collector", "Trace_Collector.cfg", sig_of, nontrivial, chunk=1500,
                   tlc_timeout=1200)
    v.coverage["rule"] = ("initial states of Collector.tla enumerated by TLC (all multisets of node behaviours x phases, "
                          "n <= 4; quick: seeded stratified sample, thorough: all with n <= 3 plus a sample of n = 4) "
                          "replayed in real time on every real strategy; non-trivial = the strategy had a choice to "
                          "make or a fault to tolerate (see features() in checks/C07.py); distinct by scenario content")
    extra = {"strategies": len(STRATS), "proposal_best_nil_data_included": bool(_state["proposal_nil_ok"]),
             "scenarios_rerun_after_stall": _state["reruns"],
             "c20_scenarios_with_blocked_sender_by_strategy": dict(sorted(_state["blocked"].items()))}
    return v.finish(extra=extra)


def replay(path):
    v = vf.Verdict(PID, "quick")
    with open(os.path.join(path, "scenario.json")) as fh:
        s = json.load(fh)
    vf.conformance(v, [s], driver, "Trace_Collector", "Trace_Collector.cfg", sig_of, nontrivial)
    return 1 if v.violations else 0
