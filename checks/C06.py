"""C06 — every signature is over the consensus-spec signing root for that duty and key (spec/Signer.tla)."""
import concurrent.futures
import json
import os
import random
import vf

PID = "C06"
PKG = "./services/signer/standard"
TEST = "TestVerifC06"


def driver(scenarios, tag):
    return vf.run_driver(PID, PKG, TEST, scenarios, tag, timeout=1500)


# the WIRED family (spec/SignerCaller.tla): real attester in front of the real signer, real wallet account manager,
# validators manager and submitter behind / beside them, fakes at the beacon node
PKG_CALLER = "./services/attester/standard"
TEST_CALLER = "TestVerifC06Caller"
N_CALLER_QUICK = (300, 150)       # (histories with a filtered validator ahead of a served one, others)
N_CALLER_THOROUGH = (None, 3000)  # (all of them, others)
# sibling caller: the sync committee messenger (duty op "sync_root")
PKG_SYNC = "./services/synccommitteemessenger/standard"
TEST_SYNC = "TestVerifC06CallerSync"
N_SYNC_QUICK = (120, 40)          # (histories with a validator without account beside a served one, others)


def caller_driver(scenarios, tag):
    return vf.run_driver(PID, PKG_CALLER, TEST_CALLER, scenarios, "caller-" + tag, timeout=1500)


def sync_driver(scenarios, tag):
    return vf.run_driver(PID, PKG_SYNC, TEST_SYNC, scenarios, "sync-" + tag, timeout=1500)


def deliveries_of(s):
    return [st for st in s["steps"] if st["ev"] == "Deliver"]


def filtered_ahead(st):
    """the antecedent of the caller's side of the batch contract: the duty lists a validator that is filtered out
    (it attested this epoch already) AHEAD of one that is served - the filtered list and the duty's arrays differ
    from that position on"""
    elig, served = set(st["elig"]), set(st["served"])
    seen = False
    for e in st["entries"]:
        if e["v"] not in elig:
            seen = True
        elif seen and e["v"] in served:
            return True
    return False


def caller_sig_of(s):
    return {"family": "caller", "ops": sorted({st.get("op", "attestations") for st in deliveries_of(s)}),
            "acct": s["steps"][0]["acct"], "fork": fork_of(s),
            "deliveries": [[st["slot"], [[e["v"], e["c"]] for e in st["entries"]]] for st in deliveries_of(s)]}


def caller_nontrivial(s, rows):
    # attestations left Vouch from a delivery in which the batch is not simply the duty (somebody filtered out or
    # without account, the rest served) or spans committees: pairing by position has something to get wrong
    by_rid = {st["rid"]: st for st in deliveries_of(s)}
    for r in rows:
        if r.get("ev") != "Submit" or not r.get("atts"):
            continue
        st = by_rid.get(r.get("rid"))
        if st is None or not st["served"]:
            continue
        if len(st["served"]) < len(st["entries"]):
            return True
        if len({e["c"] for e in st["entries"]}) >= 2:
            return True
        if st.get("op") == "sync_root" and len(st["served"]) >= 2:
            return True
    return False


def caller_histories(tier, rnd):
    """histories of duty deliveries on one wired instance: every pair of duties of Scen_SignerCaller.cfg (every
    sorted list of <= 3 of our 3 validators x committee assignment x {two slots of the epoch before the fork, the
    first slot of the fork epoch}) x account populations of a wallet (at most one validator without a validating
    account), enumerated by TLC; run: the histories in which a validator that attested already is listed ahead
    of one that is served (quick: seeded sample) plus a seeded sample of the others; thorough adds simulated
    histories of three deliveries over four validators"""
    hs = vf.tlc_scenarios(PID, "Scen_SignerCaller", "Scen_SignerCaller.cfg", exhaustive=True, timeout=900,
                          name="scen-caller")
    strong = [h for h in hs if any(filtered_ahead(st) for st in h[1:])]
    rest = [h for h in hs if not any(filtered_ahead(st) for st in h[1:])]
    rnd.shuffle(strong)
    rnd.shuffle(rest)
    n_strong, n_rest = N_CALLER_QUICK if tier == "quick" else N_CALLER_THOROUGH
    sel = strong[:n_strong] + rest[:n_rest]
    if tier != "quick":
        sim = vf.tlc_scenarios(PID, "Scen_SignerCaller", "Scen_SignerCaller_big.cfg", num=3000, depth=20,
                               name="scen-caller-big", timeout=900)
        sel += sim[:3000]
    return sel, len(strong), len(hs)


def sync_histories(tier, rnd):
    """the sibling caller: histories of sync committee message duties (op "sync_root") on one wired instance - every
    pair of duties of Scen_SignerCaller_sync.cfg x account populations of a wallet; the real Duty lists its
    validators in map order, so a validator without account comes ahead of a served one in about half of the runs
    of a history that has both"""
    hs = vf.tlc_scenarios(PID, "Scen_SignerCaller", "Scen_SignerCaller_sync.cfg", exhaustive=True, timeout=900,
                          name="scen-caller-sync")
    def partial(h):
        return any(0 < len(st["served"]) < len(st["entries"]) for st in h[1:])
    strong = [h for h in hs if partial(h)]
    rest = [h for h in hs if not partial(h)]
    rnd.shuffle(strong)
    rnd.shuffle(rest)
    if tier == "quick":
        return strong[:N_SYNC_QUICK[0]] + rest[:N_SYNC_QUICK[1]], len(strong), len(hs)
    return strong + rest, len(strong), len(hs)


def calls_of(s):
    return [st for st in s["steps"] if st["ev"] == "Call"]


def call_of(s):
    return calls_of(s)[0]


def fork_of(s):
    return s["steps"][0]["fork"]


def shape_of(kinds):
    """How the batch relates to the split: single, one group only, groups already contiguous in request
    order (ordinary first), or interleaved (the index maps really reorder)."""
    dist = [k.endswith("_dist") for k in kinds]
    if len(kinds) == 1:
        return "single"
    if all(dist) or not any(dist):
        return "one-group"
    if dist == sorted(dist):
        return "ordinary-first"
    return "interleaved"


STEP_LETTER = {"Call": "C", "DomainResp": "R", "SignResp": "S"}


def schedule_of(s):
    return "".join("%s%d" % (STEP_LETTER[st["ev"]], st["rid"]) for st in s["steps"][1:])


def boot_of(s):
    return s["steps"][0]["boot"]


def unusable(boot):
    """the keys of the start-up input the service cannot use, as "KEY:mode" ("*:specerr" = the lookup failed)"""
    if boot["specerr"]:
        return ["*:specerr"]
    return sorted("%s:%s" % (k, m) for k, m in boot["keys"].items() if m != "ok")


def complete(boot):
    return not unusable(boot)


def sig_of(s):
    cs = calls_of(s)
    b = boot_of(s)
    if len(cs) == 1:
        c = cs[0]
        return {"requests": 1, "op": c["op"], "fail": c["fail"],
                "family": "dirk" if c["kinds"][0].startswith("prot") else "wallet", "shape": shape_of(c["kinds"]),
                "unusable": unusable(b), "spe": b["spe"]}
    return {"requests": len(cs), "ops": [c["op"] for c in cs], "epochs": [c["want"]["epoch"] for c in cs],
            "kinds": [c["kinds"] for c in cs], "fails": [c["fail"] for c in cs], "fork": fork_of(s),
            "schedule": schedule_of(s), "unusable": unusable(b), "spe": b["spe"]}


def spans_fork(s):
    f = fork_of(s)
    es = [c["want"]["epoch"] for c in calls_of(s) if not c["want"]["genesis"]]
    return any(e < f for e in es) and any(e >= f for e in es)


def overlapped(rows):
    """two requests were really in flight at the same time on the real service"""
    open_ = set()
    for r in rows:
        if r.get("ev") == "Call":
            if open_:
                return True
            open_.add(r["rid"])
        elif r.get("ev") == "Return":
            open_.discard(r["rid"])
    return False


def signing_overlapped(rows):
    """a request was started, or made a signer call, while another request was between its first signer call and
    its return - on the real service, as recorded"""
    signing = set()
    for r in rows:
        ev, rid = r.get("ev"), r.get("rid")
        if ev in ("Call", "Sign") and any(q != rid for q in signing):
            return True
        if ev == "Sign":
            signing.add(rid)
        elif ev == "Return":
            signing.discard(rid)
    return False


def nontrivial(s, rows):
    # the antecedent of the property: signatures were returned (and checked with BLS)
    rets = [r for r in rows if r.get("ev") == "Return" and r.get("ok") and any(r.get("verifies", []))]
    if not rets:
        return False
    cs = calls_of(s)
    if len(cs) > 1:
        # the history claim has content when domains differ between the requests (both sides of the fork) or
        # when requests really overlapped in the signing phase
        return len(rets) >= 2 and (spans_fork(s) or signing_overlapped(rows))
    c = cs[0]
    if len(c["kinds"]) == 1:
        return True
    # for batches the order claim has content only when both groups of the split are populated
    return shape_of(c["kinds"]) in ("ordinary-first", "interleaved")


def single_histories(tier, rnd):
    """histories of length one: every request of the constants on a fresh service; the chain forks at the
    duty's epoch or right after it (seeded), so that the duty sits directly at the fork on either side"""
    cfg = "Scen_Signer.cfg" if tier == "quick" else "Scen_Signer_big.cfg"
    hs = vf.tlc_scenarios(PID, "Scen_Signer", cfg, exhaustive=True, timeout=1500, heap="6g")
    good = [h for h in hs if h[1]["fail"] == "none"]
    bad = [h for h in hs if h[1]["fail"] != "none"]
    rnd.shuffle(bad)
    if tier == "quick":
        # every request of the quick constants without failure; a seeded sample of the failure modes
        sel = good + bad[:300]
    else:
        rnd.shuffle(good)
        sel = good[:9000] + bad[:3000]
    out = []
    for h in sel:
        e = h[1]["want"]["epoch"]
        fork = rnd.choice([e, e + 1]) if e >= 0 else rnd.choice([0, 4])
        out.append([dict(h[0], fork=fork)] + h[1:])
    return out


def phase0_broken(boot):
    """New() of the pinned code refuses such an input: a phase0 key or SLOTS_PER_EPOCH is not usable"""
    later = ("DOMAIN_SYNC_COMMITTEE", "DOMAIN_SYNC_COMMITTEE_SELECTION_PROOF", "DOMAIN_CONTRIBUTION_AND_PROOF",
             "DOMAIN_APPLICATION_BUILDER", "DOMAIN_BLOB_SIDECAR")
    return boot["specerr"] or any(m != "ok" for k, m in boot["keys"].items() if k not in later)


N_BOOT_THOROUGH = 6000


def boot_histories(tier, rnd):
    """START-UP family, histories of length one: every start-up input of the configuration (quick: the complete
    map on a 32- and an 8-slot chain, every single key absent / of another Go type - also the phase0 ones and
    SLOTS_PER_EPOCH -, the maps of nodes of earlier forks, the failed lookup; thorough: every assignment of
    listed / absent / other Go type to the five later keys as well, on both chains) x every operation the signer
    offers on one account of each kind (and the registration that carries nothing to sign).  Quick: all four
    kinds on the complete maps, one account of each family (wallet, dirk) on the incomplete ones, the wallet
    account only on start-up inputs the pinned New() refuses; thorough: a seeded sample of the whole."""
    cfg = "Scen_Signer_boot.cfg" if tier == "quick" else "Scen_Signer_boot_big.cfg"
    hs = vf.tlc_scenarios(PID, "Scen_Signer", cfg, exhaustive=True, timeout=1500, heap="6g", name="scen-boot")
    if tier == "quick":
        def keep(h):
            b, kinds = h[0]["boot"], h[1]["kinds"]
            if complete(b):
                return True                          # all four account kinds
            if phase0_broken(b):
                return kinds == ["plain"]            # the pinned New() refuses: one request to see that it does
            return kinds in (["plain"], ["prot"])    # one account of each family
        sel = [h for h in hs if keep(h)]
    else:
        rnd.shuffle(hs)
        sel = hs[:N_BOOT_THOROUGH]
    out = []
    for h in sel:
        e = h[1]["want"]["epoch"]
        fork = rnd.choice([e, e + 1]) if e >= 0 else rnd.choice([0, 4])
        out.append([dict(h[0], fork=fork)] + h[1:])
    return out


N_SIGN_QUICK = 700


def overlap_histories(tier, rnd):
    """histories of three overlapping requests: every schedule x every assignment of two single-account
    operations of different domain types to the last epoch of the old fork / the first of the new one (held at
    the domain provider); every schedule of two batch requests held at the SIGNER (every batch of length <= 2 of
    each account family x {slot_selection, sync_root}, one on each side of the fork (thorough: and attestations,
    which has its own split code, each operation on both sides of the fork); quick: a seeded sample of them);
    plus TLC-simulated histories over all operations, account kinds, batches, failure modes and gate modes"""
    n_rich, n_fail = (160, 60) if tier == "quick" else (2000, 700)
    n_boot = 80 if tier == "quick" else 1000
    with concurrent.futures.ThreadPoolExecutor(max_workers=4) as pool:
        core = pool.submit(vf.tlc_scenarios, PID, "Scen_SignerHist", "Scen_SignerHist.cfg", exhaustive=True,
                           name="scen-hist")
        sign = pool.submit(vf.tlc_scenarios, PID, "Scen_SignerHist",
                           "Scen_SignerHist_sign.cfg" if tier == "quick" else "Scen_SignerHist_sign_big.cfg",
                           exhaustive=True, name="scen-hist-sign", timeout=900)
        rich = pool.submit(vf.tlc_scenarios, PID, "Scen_SignerHist", "Scen_SignerHist_rich.cfg", num=n_rich,
                           depth=100, name="scen-hist-rich", timeout=900)
        fail = pool.submit(vf.tlc_scenarios, PID, "Scen_SignerHist", "Scen_SignerHist_fail.cfg", num=n_fail,
                           depth=100, name="scen-hist-fail", timeout=900)
        # three requests on ONE instance started with an incomplete / differently typed spec map (both chains)
        boot = pool.submit(vf.tlc_scenarios, PID, "Scen_SignerHist", "Scen_SignerHist_boot.cfg", num=n_boot,
                           depth=100, name="scen-hist-boot", timeout=900)
        signs = sign.result()
        if tier == "quick":
            rnd.shuffle(signs)
            signs = signs[:N_SIGN_QUICK]
        return core.result(), signs, rich.result()[:n_rich] + fail.result()[:n_fail] + boot.result()[:n_boot]


def model_checks(tier):
    """(exhaustive runs that must pass, self-check that must fail)"""
    runs = [("MC_Signer", "MC_Signer.cfg", 900), ("MC_Signer", "MC_Signer_hist.cfg", 900),
            ("MC_Signer", "MC_Signer_sign.cfg", 900), ("MC_Signer", "MC_Signer_boot.cfg", 900),
            ("SignerCache", "MC_SignerCache_checked.cfg", 900), ("SignerPool", "MC_SignerPool_late.cfg", 900),
            ("SignerBoot", "MC_SignerBoot_pinned.cfg", 900), ("SignerBoot", "MC_SignerBoot_right.cfg", 900),
            # the caller's side (SignerCaller.tla): the pinned pairing and its legal sibling, two deliveries on one
            # instance; overlapping deliveries on a smaller alphabet
            ("SignerCaller", "MC_SignerCaller.cfg", 900), ("SignerCaller", "MC_SignerCaller_dutypos.cfg", 900),
            ("SignerCaller", "MC_SignerCaller_overlap.cfg", 900),
            # the sibling caller (sync committee messenger -> SignSyncCommitteeRoots)
            ("SignerCaller", "MC_SignerCaller_sync.cfg", 900),
            # the deviations are right on a fresh instance / when every validator has an account
            ("SignerCaller", "MC_SignerCaller_filtered_fresh.cfg", 900),
            ("SignerCaller", "MC_SignerCaller_acctpos_fresh.cfg", 900)]
    if tier == "thorough":
        # the long one first: it is the critical path of the thorough tier
        runs = [("MC_Signer", "MC_Signer_big.cfg", 1800), ("MC_Signer", "MC_Signer_hist_big.cfg", 1800),
                ("MC_Signer", "MC_Signer_sign_big.cfg", 1800), ("MC_Signer", "MC_Signer_boot_big.cfg", 1800),
                ("SignerCaller", "MC_SignerCaller_big.cfg", 1800), ("SignerCaller", "MC_SignerCaller_mid.cfg", 1800),
                ("SignerCaller", "MC_SignerCaller_both.cfg", 1800)] + runs
    return runs


def run_mc(module, cfg, timeout):
    big = cfg == "MC_Signer_big.cfg"
    small = module == "SignerBoot" or cfg.endswith("_fresh.cfg")
    return vf.tlc_exhaustive(PID, module, cfg, timeout=timeout, workers=8 if big else 1 if small else 4, coverage=big)


def must_violate(module, cfg, allowed, what):
    r = vf.tlc(PID, "self-" + cfg.replace(".cfg", ""), module, cfg, workers=1, timeout=600)
    if r["kind"] != "invariant" or r["violated"] not in allowed:
        raise vf.Broken("model self-check failed: %s does not violate %s (%s %s)\n%s" % (
            what, " / ".join(allowed), r["kind"], r["violated"], r["out"][-2000:]))
    vf.log("model self-check: %s violates %s (as it must)" % (what, r["violated"]))


def run_selfcheck_hist():
    # the model must be able to SEE the classes:
    # the per-epoch cache whose store does not re-check the epoch (seeded/C06-domain-cache-straddles-fork)
    must_violate("SignerCache", "MC_SignerCache_unchecked.cfg", ("Memoryless", "SigCorrect"),
                 "a domain cache whose store does not re-check the epoch")
    # pooled working storage of the split, put back before the request is done with it
    # (seeded/C06-pooled-account-groups): another request's accounts are handed to the signer ...
    must_violate("SignerPool", "MC_SignerPool_early.cfg", ("HandedOwn",),
                 "pooled account groups put back while the request still signs")
    # ... and their signatures reach the reply
    must_violate("SignerPool", "MC_SignerPool_early_sig.cfg", ("SigCorrect",),
                 "pooled account groups put back while the request still signs")
    # and the passing control model (MC_SignerPool_late.cfg) is not empty: two requests do complete there
    must_violate("SignerPool", "MC_SignerPool_late_reach.cfg", ("NeverTwoDone",),
                 "(reachability witness) the pool with the right lifetime completing two requests")


def run_selfcheck_caller():
    # THE CALLER'S SIDE of the batch contract: committee data taken at the position in the FILTERED validator list
    # from the unfiltered duty arrays (seeded/C06-attest-committee-data-by-filtered-position) - right on every fresh
    # instance (MC_SignerCaller_filtered_fresh.cfg passes) ...
    must_violate("SignerCaller", "MC_SignerCaller_filtered.cfg", ("PairedOwn",),
                 "committee data paired by position in the filtered validator list")
    # ... and the attestation that leaves is attributed to another validator than the one whose key signed it
    must_violate("SignerCaller", "MC_SignerCaller_filtered_sub.cfg", ("SubmittedRight",),
                 "committee data paired by position in the filtered validator list")
    # committee data taken at the position in the accounts array (right while every listed validator has an account)
    must_violate("SignerCaller", "MC_SignerCaller_acctpos.cfg", ("PairedOwn", "SubmittedRight"),
                 "committee data paired by position in the accounts array")
    # the sibling caller: signatures of the compacted batch paired with the duty's validators by position - the
    # signer call shows nothing (one root for all positions), what leaves does
    must_violate("SignerCaller", "MC_SignerCaller_sync_acctpos.cfg", ("SubmittedRight",),
                 "sync committee messages: signatures of the compacted batch paired by position with the duty's validators")
    # and the passing model is not empty: a duty whose first validator is filtered out does attest for a later one
    must_violate("SignerCaller", "MC_SignerCaller_reach.cfg", ("NeverFilteredAhead",),
                 "(reachability witness) a re-delivered duty whose first validator already attested, a later one attesting")


def run_selfcheck_boot():
    # START-UP: a built-in default for a key the node's spec map does not list, right for every complete map
    # (seeded/C06-builder-domain-default-wrong-bytes: the builder type "like every consensus domain type")
    must_violate("SignerBoot", "MC_SignerBoot_pattern.cfg", ("DomainRight", "Memoryless"),
                 "a default of 0x01000000 for DOMAIN_APPLICATION_BUILDER when the node does not list it")
    must_violate("SignerBoot", "MC_SignerBoot_pattern_sig.cfg", ("SigCorrect",),
                 "a default of 0x01000000 for DOMAIN_APPLICATION_BUILDER when the node does not list it")
    # ... Go's zero value left on the service for a phase0 key that is not usable, New() starting all the same
    must_violate("SignerBoot", "MC_SignerBoot_zero.cfg", ("DomainRight", "Memoryless"),
                 "the zero domain type kept for a phase0 key the node's spec map does not give")
    # ... the sync committee selection proof falling back to the phase0 selection proof type
    must_violate("SignerBoot", "MC_SignerBoot_reuse.cfg", ("DomainRight", "Memoryless"),
                 "DOMAIN_SELECTION_PROOF used when DOMAIN_SYNC_COMMITTEE_SELECTION_PROOF is not listed")
    # and the passing control model with the RIGHT default is not empty: it does sign without the key
    must_violate("SignerBoot", "MC_SignerBoot_right_reach.cfg", ("NeverSignsWithoutKey",),
                 "(reachability witness) the right built-in default signing a registration the node gave no type for")


def run(tier):
    v = vf.Verdict(PID, tier)
    rnd = random.Random(vf.seed())
    v.assumptions = [
        "trusted base: SSZ hash-tree-root (go-eth2-client, go-builder-client) and BLS sign/verify (herumi via "
        "go-eth2-types) are computed in Go by the libraries Vouch itself uses; TLA+ decides domain type, epoch rule, "
        "genesis-vs-fork domain, message container, verification key per position and order",
        "Env_OneAccountManager: a batch holds accounts of one account manager (wallet: AccountSigner, with or without "
        "DistributedAccount; dirk: protecting multi-signers, ordinary or distributed); the split/merge law itself is "
        "model-checked for every mixture of the four kinds",
        "Env_DirkSigns: a protecting signer signs SigningData(root it derives from the fields it is handed, domain it "
        "is handed) - the wrappers do exactly that and log what they were handed; Dirk itself is not run",
        "all contributions of one SignContributionAndProofs batch are for the same slot (as Vouch produces them)",
        "the domain provider is a fake chain with one fork: the domain of (type, epoch) is a function of the type and "
        "of the fork version in force at the epoch, (type, genesis) is a third value; its replies are held back and "
        "released by the driver in the order of the TLC-generated schedule; accounts in a batch are distinct",
        "histories: up to 3 requests per service instance, one fork per history; overlap is controlled at the two "
        "places where the signer waits on the outside world: the domain provider and the signer calls (account "
        "wrappers); a signer may read what it was handed at any time during the call (the wrappers look at their "
        "arguments on arrival and again when the call is let return, and sign what they see then)",
        "the driver runs with GOMAXPROCS(1): a sync.Pool then hands an object put back by one request to the request "
        "that asks next (per-P caches), so state carried through a pool shows deterministically",
        "start-up: the spec map handed to New() is the environment's choice per instance - every key the signer can "
        "use (SLOTS_PER_EPOCH and the ten domain types) listed / absent / listed with another Go type, the lookup "
        "failing, the chain having 32 or 8 slots per epoch; Env_NodeValuesRight: a key a node lists with the right Go "
        "type carries the specifications' value (the values come from Signer.tla's table DomainTypeBytes, as do the "
        "domain types of the oracle; the driver has no table of its own); a nil response with a nil error from the "
        "spec provider is not in the alphabet (go-eth2-client never returns one)",
        "wired families (caller's side of the batch contract): the duties, validator records, attestation data / head "
        "block root, domains and the submission end point are the beacon node's and are fakes; everything between "
        "them is the real code wired as main.go wires it (attester or sync committee messenger, signer, wallet account "
        "manager over a filesystem store with an nd wallet, validators manager, immediate submitter, chaintime); a "
        "validator 'without account' is one whose record is not active at the epoch (the account manager's own state "
        "filter leaves it out); deliveries of a history run one after the other; accounts are ordinary wallet accounts "
        "(the split by account kind is covered by the signer's own families and, composed with the caller, by "
        "MC_SignerCaller*.cfg); the other batch callers (beaconcommitteesubscriber -> SignSlotSelections, messenger "
        "Prepare -> SignSyncCommitteeSelections, synccommitteeaggregator -> SignContributionAndProofs) are not bound",
    ]
    with concurrent.futures.ThreadPoolExecutor(max_workers=4) as pool, \
            concurrent.futures.ThreadPoolExecutor(max_workers=1) as pool2, \
            concurrent.futures.ThreadPoolExecutor(max_workers=1) as pool3:
        # the model-checking runs go on beside scenario generation and the driver
        fut_hist = pool2.submit(overlap_histories, tier, random.Random(vf.seed() + 1))
        futs = [pool.submit(run_mc, m, c, t) for m, c, t in model_checks(tier)]
        futs_self = [pool.submit(run_selfcheck_hist), pool.submit(run_selfcheck_boot), pool.submit(run_selfcheck_caller)]

        def wired():
            # the wired family is generated and executed beside the signer's own families; its traces are
            # validated after theirs
            hs, n_strong, n_all = caller_histories(tier, random.Random(vf.seed() + 2))
            scs = [{"sc": 100001 + i, "steps": h} for i, h in enumerate(hs)]
            rows = caller_driver(scs, "batch")
            shs, ns_strong, ns_all = sync_histories(tier, random.Random(vf.seed() + 3))
            sscs = [{"sc": 200001 + i, "steps": h} for i, h in enumerate(shs)]
            return scs, n_strong, n_all, rows, sscs, ns_strong, ns_all, sync_driver(sscs, "batch")
        fut_wired = pool3.submit(wired)
        try:
            singles = single_histories(tier, rnd)
            boots = boot_histories(tier, rnd)
            core, signs, rich = fut_hist.result()
            sc = [{"sc": i + 1, "steps": h} for i, h in enumerate(singles + boots + core + signs + rich)]
            vf.log("%d histories: %d of one request, %d of one request over the start-up inputs, %d exhaustive "
                   "three-request schedules around the domain lookup, "
                   "%d two-request schedules inside the signing phase, %d simulated" % (
                       len(sc), len(singles), len(boots), len(core), len(signs), len(rich)))
            vf.conformance(v, sc, driver, "Trace_Signer", "Trace_Signer.cfg", sig_of, nontrivial, chunk=1500,
                           tlc_timeout=1500)
            wsc, n_strong, n_all, wrows, ssc, ns_strong, ns_all, srows = fut_wired.result()
            vf.log("wired family: %d histories of duty deliveries on one wired instance (of %d enumerated, %d of them "
                   "with a filtered validator ahead of a served one)" % (len(wsc), n_all, n_strong))
            vf.conformance(v, wsc, lambda scs, tag: wrows if tag == "batch" else caller_driver(scs, tag),
                           "Trace_SignerCaller", "Trace_SignerCaller.cfg", caller_sig_of, caller_nontrivial,
                           tlc_timeout=1500)
            vf.log("wired family, sibling caller (sync committee messenger): %d histories (of %d enumerated, %d of them "
                   "with a validator without account beside a served one)" % (len(ssc), ns_all, ns_strong))
            vf.conformance(v, ssc, lambda scs, tag: srows if tag == "batch" else sync_driver(scs, tag),
                           "Trace_SignerCaller", "Trace_SignerCaller.cfg", caller_sig_of, caller_nontrivial,
                           tlc_timeout=1500)
        finally:
            done = [f.result() for f in futs]
            for f in futs_self:
                f.result()
    for r in done:
        v.add_mc(r)
    v.coverage["rule"] = ("histories executed on the real signer: (a) every request of Signer.tla's Calls (operation x "
                          "slot/epoch x batch of account kinds in every order, length <= MaxBatch) without failure plus "
                          "a seeded sample of the failure modes, one request per fresh service, chain forking at or "
                          "right after the duty's epoch; (b) every schedule (order of request starts and domain-provider "
                          "replies) of three single-account requests x every assignment of {attestation, randao} and "
                          "{last epoch before the fork, fork epoch}; (c) every schedule (order of request starts and "
                          "signer-call returns) of two batch requests {slot_selection in the fork epoch, sync_root before "
                          "it} (thorough: {attestations, slot_selection, sync_root} x both sides of the fork) x every "
                          "batch of length <= 2 of each account family, held inside the signer calls (quick: a seeded "
                          "sample of %d of the 3312; thorough: all 29808); (d) TLC-simulated three-request histories over "
                          "all operations, kinds, batches, failure modes, gate modes; (e) START-UP: every start-up input of "
                          "Scen_Signer_boot*.cfg (spec map handed to New(): complete on a 32- and an 8-slot chain, every "
                          "single key absent / of another Go type, the maps of nodes of earlier forks, the failed lookup; "
                          "thorough: every assignment of the three modes to the five later keys on both chains, seeded "
                          "sample of 6000) x every operation the signer offers (incl. validator registration and blob "
                          "sidecar) on one account of each kind, plus simulated three-request histories on instances "
                          "started with such inputs: per request either an error without signature (allowed only when the "
                          "input lacks what the operation needs) or signatures that verify under the domain type of "
                          "Signer.tla's table DomainTypeBytes.  Non-trivial = signatures were "
                          "returned and BLS-verified and: one request - for batches both groups of the split are "
                          "populated; several requests - the history has requests on both sides of the fork or two "
                          "requests overlapped in the signing phase; distinct by history.  (f) WIRED families "
                          "(SignerCaller.tla; one wired instance per history: real attester / sync committee messenger in "
                          "front of the real signer, real wallet account manager over an nd wallet, real validators manager, "
                          "real submitter, real MergeDuties; fakes at the beacon node): histories of two duty deliveries - "
                          "every pair of duties (sorted lists of <= 3 of 3 validators x committee assignment x three slots "
                          "around the fork) x account populations enumerated by TLC; executed: the histories in which a "
                          "validator that already attested is listed ahead of one that is served (quick: seeded %d of "
                          "2600; thorough: all) + a seeded sample of the others (quick %d; thorough 3000 + 3000 simulated "
                          "three-delivery histories over four validators); sync committee message duties: quick %d + %d of "
                          "1764, thorough all.  Non-trivial there = something left Vouch from a delivery whose batch is "
                          "not simply the duty (a validator filtered out or without account) or spans committees / "
                          "validators" % (N_SIGN_QUICK, N_CALLER_QUICK[0], N_CALLER_QUICK[1], N_SYNC_QUICK[0], N_SYNC_QUICK[1]))
    return v.finish()


def replay(path):
    v = vf.Verdict(PID, "quick")
    with open(os.path.join(path, "scenario.json")) as fh:
        s = json.load(fh)
    if any(st["ev"] == "Deliver" and st.get("op") == "sync_root" for st in s["steps"]):
        vf.conformance(v, [s], sync_driver, "Trace_SignerCaller", "Trace_SignerCaller.cfg", caller_sig_of,
                       caller_nontrivial)
    elif any(st["ev"] == "Deliver" for st in s["steps"]):
        vf.conformance(v, [s], caller_driver, "Trace_SignerCaller", "Trace_SignerCaller.cfg", caller_sig_of,
                       caller_nontrivial)
    else:
        vf.conformance(v, [s], driver, "Trace_Signer", "Trace_Signer.cfg", sig_of, nontrivial)
    return 1 if v.violations else 0
