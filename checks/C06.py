"""C06 — every signature is over the consensus-spec signing root for that duty and key (spec/Signer.tla)."""
import json
import os
import random
import vf

PID = "C06"
PKG = "./services/signer/standard"
TEST = "TestVerifC06"


def driver(scenarios, tag):
    return vf.run_driver(PID, PKG, TEST, scenarios, tag, timeout=1500)


def call_of(s):
    return next(st for st in s["steps"] if st["ev"] == "Call")


def shape_of(kinds):
    """How the batch relates to the split: single, one group only, groups already contiguous in request
    order (ordinary first), or interleaved (the index maps really reorder)."""
    dist = [k.endswith("_dist") for k in kinds]
    if len(kinds) == 1:
        return "single"
    if all(dist) or not any(dist):
        return "one-group"
    if dist == sorted(dist):
        return "ordinary-first"
    return "interleaved"


def sig_of(s):
    c = call_of(s)
    return {"op": c["op"], "fail": c["fail"], "family": "dirk" if c["kinds"][0].startswith("prot") else "wallet",
            "shape": shape_of(c["kinds"])}


def nontrivial(s, rows):
    # the antecedent of the property: signatures were returned (and checked with BLS); for batches the order
    # claim has content only when both groups of the split are populated
    ret = next((r for r in rows if r.get("ev") == "Return"), None)
    if not ret or not ret.get("ok"):
        return False
    c = call_of(s)
    if len(c["kinds"]) == 1:
        return any(ret.get("verifies", []))
    return shape_of(c["kinds"]) in ("ordinary-first", "interleaved") and any(ret.get("verifies", []))


def scenarios(tier):
    rnd = random.Random(vf.seed())
    cfg = "Scen_Signer.cfg" if tier == "quick" else "Scen_Signer_big.cfg"
    hs = vf.tlc_scenarios(PID, "Scen_Signer", cfg, exhaustive=True, timeout=1500, heap="6g")
    good = [h for h in hs if h[1]["fail"] == "none"]
    bad = [h for h in hs if h[1]["fail"] != "none"]
    rnd.shuffle(bad)
    if tier == "quick":
        # every request of the quick constants without failure; a seeded sample of the failure modes
        sel = good + bad[:300]
    else:
        rnd.shuffle(good)
        sel = good[:9000] + bad[:3000]
    return [{"sc": i + 1, "steps": h} for i, h in enumerate(sel)]


def run(tier):
    v = vf.Verdict(PID, tier)
    v.assumptions = [
        "trusted base: SSZ hash-tree-root (go-eth2-client, go-builder-client) and BLS sign/verify (herumi via "
        "go-eth2-types) are computed in Go by the libraries Vouch itself uses; TLA+ decides domain type, epoch rule, "
        "genesis-vs-fork domain, message container, verification key per position and order",
        "Env_OneAccountManager: a batch holds accounts of one account manager (wallet: AccountSigner, with or without "
        "DistributedAccount; dirk: protecting multi-signers, ordinary or distributed); the split/merge law itself is "
        "model-checked for every mixture of the four kinds",
        "Env_DirkSigns: a protecting signer signs SigningData(root it derives from the fields it is handed, domain it "
        "is handed) - the wrappers do exactly that and log what they were handed; Dirk itself is not run",
        "all contributions of one SignContributionAndProofs batch are for the same slot (as Vouch produces them)",
        "the domain provider is a fake with a distinct domain per (type, epoch) and per (type, genesis); accounts in "
        "a batch are distinct",
    ]
    v.add_mc(vf.tlc_exhaustive(PID, "MC_Signer", "MC_Signer.cfg"))
    if tier == "thorough":
        v.add_mc(vf.tlc_exhaustive(PID, "MC_Signer", "MC_Signer_big.cfg", coverage=True, timeout=1800))
    sc = scenarios(tier)
    vf.conformance(v, sc, driver, "Trace_Signer", "Trace_Signer.cfg", sig_of, nontrivial, chunk=1500,
                   tlc_timeout=1500)
    v.coverage["rule"] = ("every request of Signer.tla's Calls (operation x slot/epoch x batch of account kinds in every "
                          "order, length <= MaxBatch) without failure, plus a seeded sample of the failure modes, executed "
                          "on the real signer; non-trivial = signatures were returned and BLS-verified and, for batches, "
                          "both groups of the split are populated; distinct by request")
    return v.finish()


def replay(path):
    v = vf.Verdict(PID, "quick")
    with open(os.path.join(path, "scenario.json")) as fh:
        s = json.load(fh)
    vf.conformance(v, [s], driver, "Trace_Signer", "Trace_Signer.cfg", sig_of, nontrivial)
    return 1 if v.violations else 0
