"""C18 — a block root always maps to that block's slot (spec/Cache.tla)."""
import json
import os
import re
import vf

PID = "C18"
PKG = "./services/cache/standard"
TEST = "TestVerifC18"


def _own_overlay(pid):
    """Overlay of this check: the shared files plus this property's drivers.  Drivers of other properties in
    the controller's package are left out, so that work in progress on them cannot break this build."""
    repl = {}
    mine = re.compile(r"zz_verif_c18(_|\.)")
    other = re.compile(r"zz_verif_[a-z0-9]+")
    for root, _dirs, files in os.walk(vf.OVERLAY):
        for f in files:
            if f.endswith("~") or f.startswith("."):
                continue
            if f.endswith("_test.go") and other.match(f) and not mine.match(f):
                continue
            src = os.path.join(root, f)
            rel = os.path.relpath(src, vf.OVERLAY)
            dst = os.path.join(vf.REPO, rel)
            if os.path.exists(dst):
                raise vf.Broken("overlay file would replace an existing repository file: %s" % rel)
            repl[dst] = src
    p = os.path.join(vf.outdir(pid), "overlay.json")
    tmp = "%s.%d" % (p, os.getpid())
    with open(tmp, "w") as fh:
        json.dump({"Replace": repl}, fh, indent=1)
    os.replace(tmp, p)
    return p


vf.overlay_file = _own_overlay


def ctl_driver(scenarios, tag):
    # the same behaviours behind the controller's real event handlers (the cache's second writer)
    return vf.run_driver(PID, "./services/controller/standard", "TestVerifC18Ctl", scenarios, "ctl-" + tag)


def use_driver(scenarios, tag):
    # the same behaviours with the consumers (latest / majority block root, best attestation data) asking the real cache
    return vf.run_driver(PID, "./strategies/beaconblockroot/latest", "TestVerifC18Use", scenarios, "use-" + tag)


def use_nontrivial(s, rows):
    # a strategy chose between roots of which the cache knew some and had to fetch (or failed to fetch) others
    uses = [r for r in rows if r.get("ev") == "Use"]
    return any(len(set(u["roots"])) > 1 for u in uses)


def ctl_nontrivial(s, rows):
    evs = [r.get("ev") for r in rows]
    return "CtlBlockEvent" in evs or "CtlHeadEvent" in evs


def driver(scenarios, tag):
    return vf.run_driver(PID, PKG, TEST, scenarios, tag)


def sig_of(s):
    evs = [st["ev"] + (":" + st.get("fetch", "") if st["ev"] == "Lookup" else "") for st in s["steps"]]
    return {"has_miss_ok": "Lookup:ok" in evs, "has_head": "HeadEvent" in evs}


def nontrivial(s, rows):
    # exercises the antecedent of LookupRight on both paths: a miss answered by the node and a hit
    f = [r.get("fetch") for r in rows if r.get("ev") == "Lookup"]
    return "ok" in f and "none" in f


def scenarios(tier):
    n = 150 if tier == "quick" else 3000
    hs = vf.tlc_scenarios(PID, "Scen_Cache", "Scen_Cache.cfg", num=n, depth=14)
    # TLC's simulator evaluates Emit on every successor of the last state: a walk arrives as a family of
    # behaviours that differ in their last step only.  Keep a few of each family so that the batch is spread
    # over the walks rather than filled by the first ones.
    fam, out = {}, []
    for h in hs:
        k = json.dumps(h[:-1], sort_keys=True)
        fam[k] = fam.get(k, 0) + 1
        if fam[k] <= 3:
            out.append(h)
    cap = 500 if tier == "quick" else 9000
    return [{"sc": i + 1, "steps": h} for i, h in enumerate(out[:cap])]


def conc_driver(scenarios, tag):
    return vf.run_driver(PID, PKG, "TestVerifC18Conc", scenarios, "conc-" + tag)


def conc_scenarios(tier, base):
    """The cleaner overlapping block events and lookups (seeded; the overlap cannot be scripted from outside
    the cache, so the driver starts all operations behind one barrier and makes the clean run long with
    expired filler entries).  Slots are chosen around the retention boundary of the scenario's clock."""
    import random
    rnd = random.Random(vf.seed() * 7919 + 18)
    n = 14 if tier == "quick" else 150
    out = []
    for i in range(n):
        now = rnd.choice([2112, 2144, 4160, 6300])              # past epoch 64: cleaning is live
        first_kept = ((now // 32) - 64) * 32
        pool = [0, max(first_kept - 1, 0), first_kept, first_kept + 1, now - 40, now - 1, now]
        chain = [rnd.choice(pool) for _ in range(8)]
        roots = list(range(1, 9))
        rnd.shuffle(roots)
        k = rnd.randint(2, 5)
        sc = {"sc": base + i, "chain": chain, "now": now, "filler": rnd.choice([20000, 150000, 300000]),
              "pre": roots[k:k + rnd.randint(0, 2)], "events": roots[:k],
              "lookups": roots[6:8] if rnd.random() < 0.5 else [], "rounds": rnd.choice([1, 1, 2])}
        if i % 2 == 1:
            # the header provider wired as in main.go: the real "first" strategy over the scripted node(s);
            # misses of different roots (and requests for the head header) overlap at the node
            sc.update({"via": "first", "nodes": rnd.choice([1, 1, 2]), "headreqs": rnd.choice([0, 1, 2]),
                       "latency_us": rnd.choice([300, 1000, 3000]), "filler": rnd.choice([0, 2000]),
                       "lookups": roots[k:][:rnd.randint(2, 4)], "pre": [], "rounds": rnd.choice([0, 1])})
        out.append(sc)
    return out


def conc_sig(s):
    return {"overlap": "misses||head requests via the first header strategy" if s.get("via") == "first" else "clean||events||lookups"}


def conc_nontrivial(s, rows):
    if s.get("via") == "first":
        return len(s["lookups"]) >= 2
    return len(s["events"]) >= 2 and s["rounds"] >= 1


def run(tier):
    v = vf.Verdict(PID, tier)
    v.assumptions = ["Env_TruthfulNode: block events and headers carry the block's real slot",
                     "beacon node, clock and scheduler are scripted fakes at the service's interfaces"]
    v.add_mc(vf.tlc_exhaustive(PID, "Cache", "MC_Cache.cfg"))
    v.add_mc(vf.tlc_exhaustive(PID, "Cache", "MC_Cache_use.cfg"))     # the consumers (Use) over two roots, three nodes
    # vacuity self-check: the control design that files a head's parent under head slot - 1 (right whenever no
    # slot was skipped) must be rejected by TLC
    r = vf.tlc(PID, "mc-dev-ParentAtPrevSlot", "Cache", "MC_Cache_dev_ParentAtPrevSlot.cfg", workers=4, timeout=300)
    if r["ok"] or "MapSound" not in str(r["violated"]):
        raise vf.Broken("control design ParentAtPrevSlot was not rejected by TLC (MapSound): %s %s" % (r["kind"], r["violated"]))
    if tier == "thorough":
        v.add_mc(vf.tlc_exhaustive(PID, "Cache", "MC_Cache_big.cfg", coverage=True))
    sc = scenarios(tier)
    vf.conformance(v, sc, driver, "Trace_Cache", "Trace_Cache.cfg", sig_of, nontrivial)
    ctl = [x for x in sc if any(st["ev"] in ("CtlBlockEvent", "CtlHeadEvent") for st in x["steps"])]
    ctl = [dict(x, sc=200000 + i) for i, x in enumerate(ctl[:150 if tier == "quick" else 3000])]
    vf.conformance(v, ctl, ctl_driver, "Trace_Cache", "Trace_Cache.cfg", sig_of, ctl_nontrivial)
    use = [x for x in sc if any(st["ev"] == "Use" for st in x["steps"])]
    use = [dict(x, sc=300000 + i) for i, x in enumerate(use[:250 if tier == "quick" else 5000])]
    vf.conformance(v, use, use_driver, "Trace_Cache", "Trace_Cache.cfg", sig_of, use_nontrivial)
    vf.conformance(v, conc_scenarios(tier, 100000), conc_driver, "Trace_CacheConc", "Trace_CacheConc.cfg",
                   conc_sig, conc_nontrivial, dfs=True)
    v.coverage["rule"] = ("behaviours of Cache.tla generated by TLC simulation (seeded), replayed on the real "
                          "cache service; non-trivial = contains a fetched miss and a hit; distinct by step list. Plus seeded concurrent "
                          "histories (cleaner || block events || lookups behind one barrier, then sequential probes) "
                          "validated for linearizability against the same Cache.tla actions")
    return v.finish()


def replay(path):
    v = vf.Verdict(PID, "quick")
    with open(os.path.join(path, "scenario.json")) as fh:
        s = json.load(fh)
    if s.get("sc", 0) >= 300000:
        vf.conformance(v, [s], use_driver, "Trace_Cache", "Trace_Cache.cfg", sig_of, use_nontrivial)
    elif s.get("sc", 0) >= 200000:
        vf.conformance(v, [s], ctl_driver, "Trace_Cache", "Trace_Cache.cfg", sig_of, ctl_nontrivial)
    elif "events" in s:
        vf.conformance(v, [s], conc_driver, "Trace_CacheConc", "Trace_CacheConc.cfg", conc_sig, conc_nontrivial, dfs=True)
    else:
        vf.conformance(v, [s], driver, "Trace_Cache", "Trace_Cache.cfg", sig_of, nontrivial)
    return 1 if v.violations else 0
