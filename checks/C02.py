"""C02 — a scheduled job runs exactly once, whoever starts it (spec/Scheduler.tla)."""
import json
import os
import random
import vf

PID = "C02"
PKG = "./services/scheduler/advanced"
TEST = "TestVerifC02"


def driver(scenarios, tag):
    # confirm1: same timing as the batch, alone; confirm2/3: generous margins
    env = {"VERIF_C02_CONFIRM": {"confirm1": "1", "confirm2": "2", "confirm3": "2"}.get(tag, "0")}
    return vf.run_driver(PID, PKG, TEST, scenarios, tag, env=env, timeout=1200)


def sig_of(s):
    return {"mode": s["mode"], "periodic": s["periodic"],
            "reuse": any(t.get("op") == "resched" for t in s.get("plan", [])),
            # a periodic job with two run-now requests in flight whose parent context is cancelled (finding
            # C02-periodic-runnow-blocked-behind-pending-signal)
            "two_runners_ctx": bool(s.get("periodic")) and any(t.get("op") == "ctx" for t in s.get("plan", []))
            and len({t["who"] for t in s.get("plan", []) if t.get("op") == "call" and t["who"][0] in "ci"}) >= 2,
            "entry_points": ",".join(sorted(set(x[0] for x in s.get("apis", []) + s.get("caller_names", []) + s.get("cancel_names", [])
                                                if x[0] in "ijp"))) or "plain"}


def nontrivial(s, rows):
    evs = [r.get("ev") for r in rows]
    called = any(r.get("ev") == "Call" for r in rows)
    if s["mode"] == "free":
        # a request landed within 1 ms of the scheduled instant
        return any(abs(o) <= 1000 for o in s.get("callers_us", []) + s.get("cancels_us", []))
    # a request and the timer (or a cancel / the context) contend for the same job
    return called and ("GSelTimer" in evs or "GSelCancel" in evs or "GSelCtx" in evs)


def add_quiet(plan):
    """after a request's last step the goroutine must react if it sits in its select"""
    out = []
    last = {}
    for i, t in enumerate(plan):
        if t["op"] == "step" and t["who"] != "g":
            last[t["who"]] = i
    for i, t in enumerate(plan):
        out.append(t)
        if t["op"] == "step" and last.get(t["who"]) == i:
            out.append({"op": "quiet", "who": "env"})
        if t["op"] == "resched":
            out.append({"op": "probe", "who": "env"})
        if t["op"] == "call" and t["who"] not in last:
            pass
    return out


def perturb(plan, rnd):
    """The specification only generates schedules whose steps are enabled (e.g. the goroutine never
    finalises while a caller holds the state lock).  Offering steps to threads that should be blocked
    is how a missing lock or a missing wait shows: swap neighbours, repeat steps."""
    plan = list(plan)
    for _ in range(rnd.randint(1, 3)):
        if len(plan) > 2:
            i = rnd.randrange(len(plan) - 1)
            plan[i], plan[i + 1] = plan[i + 1], plan[i]
    for _ in range(rnd.randint(0, 2)):
        i = rnd.randrange(len(plan) + 1)
        plan.insert(i, {"op": "step", "who": rnd.choice(["g", "g", "c1", "k1"])})
    return plan


def gated_scenarios(cfg, periodic, n, base, rnd):
    hs = vf.tlc_scenarios(PID, "Scen_Scheduler", cfg, num=max(n * 2, 50), depth=24,
                          name="scen-" + ("p" if periodic else "o"))
    rnd.shuffle(hs)
    out = []
    for i, h in enumerate(hs[:n]):
        if i % 3 == 2:
            h = perturb(h, rnd)
        out.append({"sc": base + i, "mode": "gated", "periodic": periodic, "hold": rnd.random() < 0.5,
                    "plan": add_quiet(h), "instances": 3})
    return out


def directed_scenarios(base):
    """schedules TLC finds as counterexamples of the pinned timer branch (MC_Scheduler_pinned.cfg):
    a run-now request has claimed the job but not yet sent its signal when the timer fires"""
    plans = [
        [("call", "c1"), ("step", "c1"), ("timer", "env"), ("step", "g"), ("step", "g"), ("step", "c1")],
        [("call", "c1"), ("step", "c1"), ("step", "c1"), ("timer", "env"), ("step", "g"), ("step", "g")],
        [("call", "k1"), ("step", "k1"), ("timer", "env"), ("step", "g")],
        [("timer", "env"), ("step", "g"), ("call", "c1"), ("step", "c1"), ("step", "c1"), ("step", "g")],
        # steps offered to threads that the protocol keeps waiting (lock held by the claiming caller)
        [("call", "c1"), ("step", "c1"), ("ctx", "env"), ("step", "g"), ("step", "g"), ("step", "g"), ("step", "c1")],
        [("call", "c1"), ("step", "c1"), ("timer", "env"), ("step", "g"), ("step", "g"), ("step", "g"), ("step", "c1")],
        # the name is scheduled again while the earlier job's goroutine has not yet dealt with its cancel /
        # context / timer: the earlier goroutine must leave the successor's table entry alone
        # (counterexamples of MC_Scheduler_byname.cfg)
        [("call", "k1"), ("step", "k1"), ("resched", "env"), ("step", "g"), ("step", "g"), ("step", "g"), ("probe", "env")],
        [("call", "k1"), ("step", "k1"), ("resched", "env"), ("timer", "env"), ("step", "g"), ("step", "g"), ("step", "g"), ("step", "g"), ("probe", "env")],
        [("call", "k1"), ("step", "k1"), ("resched", "env"), ("ctx", "env"), ("step", "g"), ("step", "g"), ("step", "g"), ("probe", "env")],
        [("ctx", "env"), ("call", "c1"), ("resched", "env"), ("step", "g"), ("step", "g"), ("step", "g"), ("probe", "env"), ("step", "c1")],
        [("call", "c1"), ("step", "c1"), ("step", "c1"), ("resched", "env"), ("step", "g"), ("step", "g"), ("step", "g"), ("step", "g"), ("probe", "env")],
        # the timer has fired and its branch is under way when CancelJob succeeds (counterexample of
        # MC_Scheduler_cancelrace.cfg): the job must not run, the replacement scheduled under the name stays
        [("timer", "env"), ("step", "g"), ("call", "k1"), ("step", "k1"), ("resched", "env"), ("step", "g"), ("step", "g"), ("step", "g"), ("step", "g"), ("probe", "env")],
        [("timer", "env"), ("call", "k1"), ("step", "g"), ("step", "g"), ("step", "k1"), ("step", "g"), ("step", "g"), ("step", "g"), ("probe", "env")],
    ]
    out = []
    for i, p in enumerate(plans):
        for hold in (False, True):
            out.append({"sc": base + 2 * i + int(hold), "mode": "gated", "periodic": False, "hold": hold,
                        "plan": add_quiet([{"op": o, "who": w} for o, w in p]), "instances": 0})
    return out


def directed_periodic(base):
    g = lambda n: [("step", "g")] * n
    plans = [
        # early run, then the timer must still find the job inactive and tick
        [("call", "c1"), ("step", "c1"), ("step", "c1")] + g(5) + [("timer", "env")] + g(6) + [("timer", "env")] + g(6),
        # timer tick, early run, timer tick
        [("timer", "env")] + g(6) + [("call", "c1"), ("step", "c1"), ("step", "c1")] + g(5) + [("timer", "env")] + g(6),
        # run-now claims while the timer branch is between its check and its claim
        [("timer", "env"), ("step", "g"), ("step", "g"), ("call", "c1"), ("step", "c1"), ("step", "c1")] + g(8)
        + [("call", "c2"), ("step", "c2"), ("step", "c2")] + g(6),
        # cancel while running
        [("timer", "env")] + g(4) + [("call", "k1"), ("step", "k1")] + g(6),
        # ... whatever form the cancellation takes, the goroutine must have picked it up once the instance has
        # ended (Quiet: it does not sit in its select with the cancel signal pending) and no further instance runs
        [("timer", "env")] + g(4) + [("call", "k1"), ("step", "k1")] + g(6) + [("quiet", "env"), ("timer", "env")] + g(4)
        + [("quiet", "env")],
        # the same for a cancellation that arrives after an accepted early-run request that is not yet picked up
        [("call", "c1"), ("step", "c1"), ("step", "c1"), ("call", "k1"), ("step", "k1")] + g(8)
        + [("quiet", "env"), ("timer", "env")] + g(4) + [("quiet", "env")],
        # an early run that is still executing when the instance's scheduled time passes: the next instance
        # must wait for ITS time (a timer object re-used across ticks must not carry the old expiry over)
        [("call", "c1"), ("step", "c1"), ("step", "c1"), ("step", "g"), ("step", "g"), ("timer", "env")] + g(8),
        # ... and a cancel that arrives during that early run ends the job: no further run
        [("call", "c1"), ("step", "c1"), ("step", "c1"), ("step", "g"), ("step", "g"), ("timer", "env"),
         ("call", "k1"), ("step", "k1")] + g(8),
    ]
    out = []
    for i, p in enumerate(plans):
        for hold in (False, True):
            out.append({"sc": base + 2 * i + int(hold), "mode": "gated", "periodic": True, "hold": hold,
                        "plan": add_quiet([{"op": o, "who": w} for o, w in p]), "instances": 3})
    return out


def finding_scenarios(base):
    """the history of finding C02-periodic-runnow-blocked-behind-pending-signal (fixed in 8334cb4), kept as a
    regression schedule in every run:
    a run-now request claims a periodic job while its timer branch is under way (the instance runs by the timer and
    the request's signal stays pending), a second run-now request claims the job after the instance, the parent
    context is cancelled: before the fix the second request blocked for ever on the full run channel with the job's
    state lock held, and the goroutine blocked in finaliseJob on that lock"""
    plan = [{"op": "timer", "who": "env"}, {"op": "step", "who": "g"}, {"op": "call", "who": "c1"}, {"op": "step", "who": "i1"}, {"op": "call", "who": "i1"}, {"op": "step", "who": "i1"}, {"op": "quiet", "who": "env"}, {"op": "step", "who": "g"}, {"op": "call", "who": "j1"}, {"op": "step", "who": "g"}, {"op": "step", "who": "c1"}, {"op": "quiet", "who": "env"}, {"op": "timer", "who": "env"}, {"op": "ctx", "who": "env"}, {"op": "step", "who": "g"}, {"op": "step", "who": "g"}, {"op": "step", "who": "g"}, {"op": "step", "who": "g"}, {"op": "resched", "who": "env"}, {"op": "probe", "who": "env"}, {"op": "step", "who": "g"}, {"op": "step", "who": "g"}, {"op": "timer", "who": "env"}, {"op": "step", "who": "g"}, {"op": "step", "who": "g"}, {"op": "step", "who": "j1"}, {"op": "quiet", "who": "env"}]
    return [{"sc": base, "mode": "gated", "periodic": True, "hold": False, "plan": plan, "instances": 3, "apis": ["i1", "j1"]}]


def free_scenarios(n, base, rnd):
    out = []
    for i in range(n):
        k = rnd.random()
        callers = [rnd.choice([0, 0, rnd.randint(-300, 300), rnd.randint(-3000, 3000)])
                   for _ in range(rnd.choice([1, 1, 2, 3]))]
        cancels = []
        ctx = 0
        if k < 0.2:
            cancels = [rnd.randint(-3000, 3000)]
        elif k < 0.3:
            callers = []
            cancels = [rnd.randint(-20000, -8000)]
        elif k < 0.4:
            ctx = rnd.choice([-1, 1]) * rnd.randint(1, 3000)
        form = rnd.random()
        cnames = ["c%d" % (j + 1) for j in range(len(callers))]
        knames = ["k%d" % (j + 1) for j in range(len(cancels))]
        if form < 0.3:
            cnames = [["i1", "i2", "c3"][j] for j in range(len(callers))]
        elif form < 0.45 and callers:
            cnames[-1] = "i1"
        if form > 0.5 and cancels:
            knames = [rnd.choice(["j1", "p1"])]
        out.append({"sc": base + i, "mode": "free", "periodic": False, "hold": False, "plan": [],
                    "delay_ms": rnd.randint(25, 40), "callers_us": callers, "cancels_us": cancels, "ctx_us": ctx,
                    "caller_names": cnames, "cancel_names": knames})
    return out


# Entry points of the scheduler: the thread's name selects the call the driver makes (see c02Call in the driver).
# The protocol steps are the same (the prefix form lists first: KList), so a schedule is turned into a schedule
# for other entry points by renaming its threads.
API_MAPS = [{}, {"c1": "i1", "c2": "i2"}, {"k1": "j1"}, {"k1": "p1"}, {"c1": "i1", "k1": "p1"}, {"c2": "i1", "k1": "j1"}]


def with_apis(scs, shift=0):
    out = []
    for n, s in enumerate(scs):
        m = API_MAPS[(n + shift) % len(API_MAPS)]
        out.append(dict(s, plan=[dict(t, who=m.get(t["who"], t["who"])) for t in s["plan"]], apis=sorted(m.values())))
    return out


def run(tier):
    v = vf.Verdict(PID, tier)
    rnd = random.Random(vf.seed())
    v.assumptions = [
        "the timer cannot fire before the driver logged ClockNear (150 ms before the scheduled time) and has fired after ClockDue",
        "Go wakes a goroutine whose select has a ready case within the settle period (Quiet / Quiesce lines); rejections are re-run alone with tripled margins before they count",
        "gated mode: one thread moves at a time, so event order is real order; free mode: only calls, returns, job start/end, goroutine exit are used",
    ]
    v.add_mc(vf.tlc_exhaustive(PID, "Scheduler", "MC_Scheduler.cfg", workers=4))
    v.add_mc(vf.tlc_exhaustive(PID, "Scheduler", "MC_Scheduler_periodic.cfg", workers=4))
    v.add_mc(vf.tlc_exhaustive(PID, "Scheduler", "MC_Scheduler_prefix.cfg", workers=4))   # CancelJobs(prefix) next to CancelJob
    # sensitivity of the model: the pinned timer branch (named deviation GTDrop) must violate it
    for cfg, dev in (("MC_Scheduler_pinned.cfg", "GTDrop"), ("MC_Scheduler_byname.cfg", "DeleteByName"),
                     ("MC_Scheduler_cancelrace.cfg", "ClaimIgnoresCancel")):
        r = vf.tlc(PID, "mc-" + dev, "Scheduler", cfg, workers=2)
        if r["kind"] != "invariant":
            raise vf.Broken("the named deviation %s no longer violates the specification: vacuous model" % dev)
    # finding C02-periodic-runnow-blocked-behind-pending-signal (fixed in 8334cb4) at design level: the pinned code's
    # blocking send under the state lock (named deviation BlockingSend) lets TLC produce the counterexample to
    # NoStuckCaller (two run-now requests, context cancelled); the intended protocol (MC_Scheduler_periodic*.cfg, where
    # NoStuckCaller is now demanded) passes.  Vacuity self-check: the deviation must be rejected.
    r = vf.tlc(PID, "mc-periodic-stuck", "Scheduler", "MC_Scheduler_periodic_stuck.cfg", workers=2)
    if r["kind"] != "temporal":
        raise vf.Broken("the named deviation BlockingSend no longer violates NoStuckCaller: vacuous model (%s %s)" % (r["kind"], r["violated"]))
    if tier == "thorough":
        v.add_mc(vf.tlc_exhaustive(PID, "Scheduler", "MC_Scheduler_big.cfg", workers=8, timeout=1500))
        v.add_mc(vf.tlc_exhaustive(PID, "Scheduler", "MC_Scheduler_periodic_big.cfg", workers=8, timeout=1500))
    n_o, n_p, n_f = (80, 20, 400) if tier == "quick" else (700, 150, 8000)
    one_off = directed_scenarios(1) + gated_scenarios("Scen_Scheduler.cfg", False, n_o, 1000, rnd)
    # the name-reuse schedules need the "both ready" select (goroutine held before its select): repeat them
    one_off += [dict(s, sc=s["sc"] + 40 * k) for k in (1, 2, 3) for s in directed_scenarios(1)[12:]]
    periodic = directed_periodic(90000) + [dict(s, sc=s["sc"] + 100 * k) for k in (1, 2) for s in directed_periodic(90000)[8:]]
    periodic = periodic + gated_scenarios("Scen_Scheduler_periodic.cfg", True, n_p, 100000, rnd)
    free = free_scenarios(n_f, 200000, rnd)
    # every entry point: the directed schedules once per form, the generated ones round-robin
    base = directed_scenarios(1)
    extra = []
    for k in range(1, len(API_MAPS)):
        m = API_MAPS[k]
        for x in base:
            if any(t["who"] in m for t in x["plan"]):
                extra.append(dict(x, sc=x["sc"] + 300000 + 1000 * k,
                                  plan=[dict(t, who=m.get(t["who"], t["who"])) for t in x["plan"]], apis=sorted(m.values())))
    one_off = with_apis(one_off, vf.seed()) + extra
    pextra = []
    for k in range(1, len(API_MAPS)):
        m = API_MAPS[k]
        for x in directed_periodic(90000):
            if any(t["who"] in m for t in x["plan"]):
                pextra.append(dict(x, sc=x["sc"] + 400000 + 1000 * k,
                                   plan=[dict(t, who=m.get(t["who"], t["who"])) for t in x["plan"]], apis=sorted(m.values())))
    periodic = with_apis(periodic, vf.seed()) + pextra + finding_scenarios(99000)
    vf.conformance(v, one_off + free, driver, "Trace_Scheduler", "Trace_Scheduler.cfg", sig_of, nontrivial,
                   dfs=True, chunk=1500)
    vf.conformance(v, periodic, driver, "Trace_Scheduler", "Trace_Scheduler_periodic.cfg", sig_of, nontrivial,
                   dfs=True)
    v.coverage["rule"] = ("gated: TLC-simulated schedules of Scheduler.tla (who moves next) forced on the real scheduler "
                          "through the verifPoint gates, plus the counterexample schedules of the pinned timer branch; "
                          "free: seeded boundary stress with run-now/cancel/context requests aimed at the scheduled "
                          "instant. non-trivial = a request contends with timer/cancel/context (gated) or lands within "
                          "1 ms of the scheduled time (free); distinct by scenario content")
    return v.finish()


def replay(path):
    v = vf.Verdict(PID, "quick")
    with open(os.path.join(path, "scenario.json")) as fh:
        s = json.load(fh)
    cfg = "Trace_Scheduler_periodic.cfg" if s.get("periodic") else "Trace_Scheduler.cfg"
    vf.conformance(v, [s], driver, "Trace_Scheduler", cfg, sig_of, nontrivial, dfs=True)
    return 1 if v.violations else 0
