"""C12 — the block relay keeps answering whatever the config source does (spec/BlockRelay.tla,
configuration part: active configuration, sync.RWMutex, fetch / lookup / auction / register)."""
import json
import os
import vf

PID = "C12"
PKG = "./services/blockrelay/standard"
TEST = "TestVerifC12"
TRACE = ("Trace_BlockRelay_C12", "Trace_BlockRelay_C12.cfg")


def driver(scenarios, tag):
    # a wedged call is only ever reported after every gate of the driver is open; the watchdog is
    # escalated on the confirming re-runs (a wedge is a deadlock: it reproduces whatever the period)
    wd = 8000
    if tag.startswith("confirm"):
        n = int(tag[len("confirm"):] or "1") if tag[len("confirm"):].isdigit() else 1
        wd = 15000 * n
    return vf.run_driver(PID, PKG, TEST, scenarios, tag, env={"VERIF_WATCHDOG_MS": wd}, timeout=1500)


def _ops(s):
    """op id -> (kind, v) and the source outcomes of a scenario."""
    kinds, src = {}, {}
    for st in s["steps"]:
        if st["ev"] == "Start":
            kinds[st["op"]] = (st["kind"], st.get("v", 0))
        elif st["ev"] == "Source":
            src[st["op"]] = (st["out"], st.get("doc", 0))
    return kinds, src


def sig_of(s):
    if any(st["ev"] == "Stress" for st in s["steps"]):
        return {"family": "stress"}
    reset = s["steps"][0]
    bad = {d["id"]: set(d.get("bad", [])) for d in reset.get("docs", [])}
    kinds, src = _ops(s)
    docs_seen = {reset.get("init", 0)} | {d for (o, d) in src.values() if o == "good"}
    unresolvable_auction = any(k == "auction" and any(v in bad.get(d, ()) for d in docs_seen)
                               for (k, v) in kinds.values())
    return {"family": "gated", "auction_of_unresolvable_validator": unresolvable_auction,
            "auctions": sum(1 for (k, _) in kinds.values() if k == "auction")}


def nontrivial(s, rows):
    # the antecedent: the source failed or served a document that makes a validator unresolvable,
    # and a request / auction was answered afterwards (or the free-running loops really ran)
    st = [r for r in rows if r.get("ev") == "Stress"]
    if st:
        return st[0].get("fetches", 0) > 100 and st[0].get("calls", 0) > 100
    reset = s["steps"][0]
    bad = {d["id"] for d in reset.get("docs", []) if d.get("bad")}
    seen = reset.get("init", 0) in bad
    for r in rows:
        if r.get("ev") == "Source" and (r.get("out") != "good" or r.get("doc") in bad):
            seen = True
        if seen and r.get("ev") == "Return" and r.get("kind") in ("lookup", "auction"):
            return True
    return False


def scenarios(tier):
    quick = tier == "quick"
    sim = vf.tlc_scenarios(PID, "Scen_BlockRelay_C12", "Scen_BlockRelay_C12.cfg",
                           num=140 if quick else 1500, depth=150, timeout=900)
    seq = vf.tlc_scenarios(PID, "Scen_BlockRelay_C12", "Scen_BlockRelay_C12_seq.cfg", exhaustive=True,
                           name="scen-seq", timeout=900)
    if quick:
        # every pair "fetch ; operation" and a seeded sample of the other pairs
        import random
        rnd = random.Random(vf.seed())
        first = [h for h in seq if h[1].get("kind") == "fetch"]
        rest = [h for h in seq if h[1].get("kind") != "fetch"]
        rnd.shuffle(rest)
        seq = first + rest[:60]
    hs = seq + sim[: (140 if quick else 1500)]
    sc = [{"sc": i + 1, "steps": h} for i, h in enumerate(hs)]
    reset = dict(sim[0][0]) if sim else dict(seq[0][0])
    n = len(sc)
    for k in range(3 if quick else 10):
        r = dict(reset)
        r["init"] = [0, 1, 3, 6][k % 4]
        sc.append({"sc": n + k + 1, "steps": [r, {"ev": "Stress", "n": 1500 if quick else 6000, "workers": 3 + k % 3}]})
    return sc


def design_checks(v, tier):
    v.add_mc(vf.tlc_exhaustive(PID, "BlockRelay", "MC_BlockRelay_C12.cfg"))
    if tier == "thorough":
        v.add_mc(vf.tlc_exhaustive(PID, "BlockRelay", "MC_BlockRelay_C12_big.cfg", timeout=1500))
    # the model must keep its discriminating power: auctionBlock as written on the pinned tree
    # (nested RLock, no RUnlock on the error return) violates LockBalanced and NoWedge
    r = vf.tlc(PID, "mc-pinned", "BlockRelay", "MC_BlockRelay_C12_pinned.cfg", workers=min(vf.NCPU, 8), timeout=600)
    if not (r["kind"] == "invariant" and r["violated"] == "LockBalanced"):
        raise vf.Broken("the pinned rendering of auctionBlock no longer violates LockBalanced in the model (%s %s)"
                        % (r["kind"], r["violated"]))
    r = vf.tlc(PID, "mc-pinned-live", "BlockRelay", "MC_BlockRelay_C12_pinned_live.cfg", workers=min(vf.NCPU, 8), timeout=600)
    if "Temporal property NoWedge was violated" not in r["out"] and r["kind"] != "temporal":
        raise vf.Broken("the pinned rendering of auctionBlock no longer violates NoWedge in the model")
    vf.log("model self-check: pinned auctionBlock violates LockBalanced and NoWedge (as it must)")


def run(tier):
    v = vf.Verdict(PID, tier)
    v.assumptions = [
        "Env_SingleFetcher: the scheduler never runs the periodic fetch job twice at the same time",
        "Env_Responds: the configuration source and the bid strategy answer every call (fairness)",
        "configuration source, accounts, signer, relays, beacon nodes, bid strategy and scheduler are scripted fakes at the service's interfaces",
    ]
    design_checks(v, tier)
    sc = scenarios(tier)
    vf.conformance(v, sc, driver, TRACE[0], TRACE[1], sig_of, nontrivial, tlc_timeout=1500)
    v.coverage["rule"] = ("behaviours of BlockRelay.tla (configuration part): every sequential pair of operations "
                          "(exhaustive), TLC-simulated concurrent schedules (seeded) replayed with gates inside the "
                          "critical sections, and free-running stress loops; non-trivial = a request or auction "
                          "answered after a failing fetch or a document with an unresolvable validator; distinct by step list")
    return v.finish()


def replay(path):
    v = vf.Verdict(PID, "quick")
    with open(os.path.join(path, "scenario.json")) as fh:
        s = json.load(fh)
    vf.conformance(v, [s], driver, TRACE[0], TRACE[1], sig_of, nontrivial)
    return 1 if v.violations else 0
