"""C12 — the block relay keeps answering whatever the config source does (spec/BlockRelay.tla,
configuration part: active configuration, sync.RWMutex, fetch / lookup / auction / register; and
spec/BlockRelayLocks.tla: every lock of the service and every entry point standard.New wires - incl. the REST
daemon's BuilderBid and ValidatorRegistrations - as programs of lock operations; deadlock freedom)."""
import json
import os
from concurrent.futures import ThreadPoolExecutor
import vf

PID = "C12"
PKG = "./services/blockrelay/standard"
TEST = "TestVerifC12"
TRACE = ("Trace_BlockRelay_C12", "Trace_BlockRelay_C12.cfg")
LTEST = "TestVerifC12Locks"
LTRACE = ("Trace_BlockRelayLocks", "Trace_BlockRelayLocks.cfg")


def _watchdog(tag):
    # a wedged call is only ever reported after every gate of the driver is open; the watchdog is
    # escalated on the confirming re-runs (a wedge is a deadlock: it reproduces whatever the period)
    wd = 8000
    if tag.startswith("confirm"):
        n = int(tag[len("confirm"):] or "1") if tag[len("confirm"):].isdigit() else 1
        wd = 15000 * n
    return wd


def lock_driver(scenarios, tag):
    return vf.run_driver(PID, PKG, LTEST, scenarios, "locks-" + tag, env={"VERIF_WATCHDOG_MS": _watchdog(tag)}, timeout=1500)


def driver(scenarios, tag):
    # a wedged call is only ever reported after every gate of the driver is open; the watchdog is
    # escalated on the confirming re-runs (a wedge is a deadlock: it reproduces whatever the period)
    wd = 8000
    if tag.startswith("confirm"):
        n = int(tag[len("confirm"):] or "1") if tag[len("confirm"):].isdigit() else 1
        wd = 15000 * n
    return vf.run_driver(PID, PKG, TEST, scenarios, tag, env={"VERIF_WATCHDOG_MS": wd}, timeout=1500)


def _ops(s):
    """op id -> (kind, v) and the source outcomes of a scenario."""
    kinds, src = {}, {}
    for st in s["steps"]:
        if st["ev"] == "Start":
            kinds[st["op"]] = (st["kind"], st.get("v", 0))
        elif st["ev"] == "Source":
            src[st["op"]] = (st["out"], st.get("doc", 0))
    return kinds, src


def lock_sig_of(s):
    kinds, src = _ops(s)
    bids = [[st["op"], st["out"]] for st in s["steps"] if st["ev"] == "Bid"]
    return {"family": s["family"], "wired": bool(s["steps"][0].get("wired")), "init": s["steps"][0].get("init", 0),
            "calls": [[o, kinds[o][0], kinds[o][1]] for o in sorted(kinds)],
            "source": [[o] + list(src[o]) for o in sorted(src)], "bids": bids}


def lock_nontrivial(s, rows):
    """The antecedent: a refresh really overlapped a BuilderBid request / an immediate auction, or a BuilderBid
    request was answered from the bid cache after a refresh, or (free schedules) the source answered while
    another call was in flight."""
    fam = s["family"]
    idx = {}
    for i, r in enumerate(rows):
        idx.setdefault((r.get("ev"), r.get("op")), i)
    if fam == "locks-queued":
        # the source answered the refresh while call 1 was in its immediate auction and call 2 was in flight
        a, b, c = idx.get(("Source", 3)), idx.get(("Bid", 1)), idx.get(("Start", 2))
        return a is not None and b is not None and c is not None and c < a < b and ("Return", 2) in idx
    if fam == "locks-fetchheld":
        a, b = idx.get(("Source", 1)), idx.get(("Return", 2))
        return a is not None and b is not None and b < a and ("Return", 1) in idx
    if fam == "locks-warm":
        return ("Return", 2) in idx and ("Bid", 2) not in idx and ("Return", 4) in idx
    inflight, seen = set(), False
    for r in rows:
        if r.get("ev") == "Start":
            inflight.add(r["op"])
        elif r.get("ev") == "Return":
            inflight.discard(r["op"])
        elif r.get("ev") == "Source" and len(inflight) > 1:
            seen = True
    return seen and not inflight


def sig_of(s):
    fam = s.get("family", "gated")
    if fam == "stress":
        return {"family": "stress"}
    reset = s["steps"][0]
    kinds, src = _ops(s)
    if fam in ("held", "heldfetch", "alt"):
        # held: call 1 (lookup / auction of v) is held mid-resolution across the whole fetch 2; heldfetch: the fetch 1
        # is held at the source across the whole call 2; alt: fetch ; lookup ; fetch ; lookup ; fetch ; auction
        first = kinds.get(2 if fam != "held" else 1, ("?", 0))
        return {"family": fam, "call": first[0], "v": first[1], "init": reset.get("init", 0),
                "source": [list(src[o]) for o in sorted(src)]}
    bad = {d["id"]: set(d.get("bad", [])) for d in reset.get("docs", [])}
    docs_seen = {reset.get("init", 0)} | {d for (o, d) in src.values() if o == "good"}
    unresolvable_auction = any(k == "auction" and any(v in bad.get(d, ()) for d in docs_seen)
                               for (k, v) in kinds.values())
    return {"family": fam, "auction_of_unresolvable_validator": unresolvable_auction,
            "auctions": sum(1 for (k, _) in kinds.values() if k == "auction")}


def nontrivial(s, rows):
    # the antecedent: the source failed or served a document that makes a validator unresolvable,
    # and a request / auction was answered afterwards (or the free-running loops really ran)
    st = [r for r in rows if r.get("ev") == "Stress"]
    if st:
        return st[0].get("fetches", 0) > 100 and st[0].get("calls", 0) > 100
    reset = s["steps"][0]
    fam = s.get("family", "gated")
    rets = [i for i, r in enumerate(rows) if r.get("ev") == "Return"]
    srcs = [i for i, r in enumerate(rows) if r.get("ev") == "Source"]
    if fam == "held":
        # the source answered the fetch while the first call was still in flight, and the validator was
        # looked up / auctioned for again after both had returned
        first = next((i for i in rets if rows[i].get("op") == 1), None)
        later = [i for i in rets if rows[i].get("op") in (3, 4)]
        return bool(srcs) and first is not None and bool(later) and srcs[0] < first
    if fam == "heldfetch":
        # the call was answered while the fetch was waiting for the source
        second = next((i for i in rets if rows[i].get("op") == 2), None)
        return bool(srcs) and second is not None and second < srcs[0]
    bad = {d["id"] for d in reset.get("docs", []) if d.get("bad")}
    seen = reset.get("init", 0) in bad
    for r in rows:
        if r.get("ev") == "Source" and (r.get("out") != "good" or r.get("doc") in bad):
            seen = True
        if seen and r.get("ev") == "Return" and r.get("kind") in ("lookup", "auction"):
            return True
    return False


def scenarios(tier):
    import random
    quick = tier == "quick"
    rnd = random.Random(vf.seed())

    def gen(cfg, name, **kw):
        return vf.tlc_scenarios(PID, "Scen_BlockRelay_C12", cfg, name=name, timeout=900, **kw)

    def sample(hs, n):
        hs = list(hs)
        rnd.shuffle(hs)
        return hs[:n]

    with ThreadPoolExecutor(max_workers=6) as ex:      # the generator runs are independent: side by side
        futs = {k: ex.submit(gen, *a, **kw) for k, (a, kw) in {
            "sim": (("Scen_BlockRelay_C12.cfg", "scen"), dict(num=140 if quick else 1500, depth=150)),
            "seq": (("Scen_BlockRelay_C12_seq.cfg", "scen-seq"), dict(exhaustive=True)),
            "held": (("Scen_BlockRelay_C12_held.cfg", "scen-held"), dict(exhaustive=True)),
            "heldfetch": (("Scen_BlockRelay_C12_heldfetch.cfg", "scen-heldfetch"), dict(exhaustive=True)),
            "alt": (("Scen_BlockRelay_C12_alt.cfg", "scen-alt"), dict(exhaustive=True)),
            "snap": (("Scen_BlockRelay_C12_snap.cfg", "scen-snap"), dict(num=80 if quick else 600, depth=150)),
        }.items()}
        got = {k: f.result() for k, f in futs.items()}
    sim = got["sim"][: (140 if quick else 1500)]
    seq = got["seq"]
    # the directed overlap families (every initial configuration x answer of the source x validator x kind):
    # a lookup / auction held mid-resolution across a complete fetch, then the validator is looked up and
    # auctioned for again; and a fetch held at the source across a complete lookup / auction
    held = got["held"]
    heldfetch = got["heldfetch"]
    # sequential histories on one instance: fetch ; lookup ; fetch ; lookup ; fetch ; auction, every sequence of answers
    alt = got["alt"]
    # simulated schedules of the design that works the settings out after releasing the lock (calls held across fetches)
    snap = got["snap"][: (80 if quick else 600)]
    if quick:
        # every pair "fetch ; operation" and a seeded sample of the other pairs
        first = [h for h in seq if h[1].get("kind") == "fetch"]
        rest = [h for h in seq if h[1].get("kind") != "fetch"]
        seq = first + sample(rest, 60)
        heldfetch = sample(heldfetch, 64)
        alt = sample(alt, 100)
    fams = [("gated", seq), ("held", held), ("heldfetch", heldfetch), ("alt", alt), ("gated", sim), ("gated", snap)]
    sc = []
    for fam, hs in fams:
        for h in hs:
            sc.append({"sc": len(sc) + 1, "family": fam, "steps": h})
    reset = dict(sim[0][0]) if sim else dict(seq[0][0])
    n = len(sc)
    for k in range(3 if quick else 10):
        r = dict(reset)
        r["init"] = [0, 1, 3, 6][k % 4]
        sc.append({"sc": n + k + 1, "family": "stress",
                   "steps": [r, {"ev": "Stress", "n": 1500 if quick else 6000, "workers": 3 + k % 3}]})
    return sc


def lock_scenarios(tier):
    """Histories of BlockRelayLocks: the directed overlap families refresh || BuilderBid (uncached: immediate
    auction under builderBidMu, queued requests; cached) in both orders, sequential cache histories, and
    TLC-simulated schedules of all six entry points.  A part of the directed families also runs "wired":
    BuilderBid over HTTP through a real REST daemon, the configuration through the real majordomo service."""
    import random
    quick = tier == "quick"
    rnd = random.Random(vf.seed() * 7 + 1)

    def gen(fam, **kw):
        return vf.tlc_scenarios(PID, "Scen_BlockRelayLocks", "Scen_BlockRelayLocks_%s.cfg" % fam,
                                name="scenl-" + fam, timeout=900, heap="2g", **kw)

    nfree = 30 if quick else 400
    with ThreadPoolExecutor(max_workers=4) as ex:
        futs = {"queued": ex.submit(gen, "queued", exhaustive=True),
                "fetchheld": ex.submit(gen, "fetchheld", exhaustive=True),
                "warm": ex.submit(gen, "warm", exhaustive=True),
                "free": ex.submit(gen, "free", num=nfree, depth=250)}
        got = {k: f.result() for k, f in futs.items()}

    def sample(hs, n):
        hs = list(hs)
        rnd.shuffle(hs)
        return hs[:n]

    plan = []
    if quick:
        q = sample(got["queued"], 60)
        f = sample(got["fetchheld"], 60)
        plan += [("queued", h, False) for h in q[:48]] + [("queued", h, True) for h in q[48:]]
        plan += [("fetchheld", h, False) for h in f[:48]] + [("fetchheld", h, True) for h in f[48:]]
        plan += [("warm", h, False) for h in sample(got["warm"], 27)]
        plan += [("free", h, False) for h in got["free"][:nfree]]
    else:
        for fam in ("queued", "fetchheld", "warm"):
            plan += [(fam, h, False) for h in got[fam]]
        plan += [("queued", h, True) for h in sample(got["queued"], 48)]
        plan += [("fetchheld", h, True) for h in sample(got["fetchheld"], 48)]
        plan += [("warm", h, True) for h in sample(got["warm"], 12)]
        fr = got["free"][:nfree]
        plan += [("free", h, i % 5 == 0) for i, h in enumerate(fr)]
    sc = []
    for fam, h, wired in plan:
        h = [dict(h[0], wired=wired)] + list(h[1:])
        sc.append({"sc": len(sc) + 1, "family": "locks-" + fam, "steps": h})
    return sc


def lock_design_checks(v, tier):
    """BlockRelayLocks: every lock of the service, every entry point as a program of lock operations.  The
    permitted designs (the code as written; a refresh that drops the cached bids AFTER releasing the configuration
    lock) satisfy NoDeadlock / ReturnsClean / LockBalanced / LockAccounting over all overlaps of three calls and
    NoWedge; the control models must be rejected."""
    thorough = tier == "thorough"
    # quick: every pair of entry points (two bid keys), every triple within {fetch, lookup, auction, bbid} and
    # within {fetch, bbid, register, vreg} (one key), the flush-after design, NoWedge for every pair;
    # thorough: every triple of all six entry points (one and two keys), NoWedge for triples
    mcs = [("pairs", 900), ("plain_a", 900), ("plain_b", 900), ("flush_after", 900), ("live", 900)]
    if thorough:
        mcs += [("plain_all", 1500), ("big", 2400), ("flush_after_big", 2400), ("live_big", 2400)]
    expect = {"flush_under": ("invariant", "NoDeadlock"), "flush_under_live": ("temporal", "temporal"),
              "queue_holding_cache": ("invariant", "NoDeadlock"), "leak_on_recheck": ("invariant", "ReturnsClean")}
    with ThreadPoolExecutor(max_workers=6) as ex:
        mc_futs = [ex.submit(vf.tlc_exhaustive, PID, "BlockRelayLocks", "MC_BlockRelayLocks_%s.cfg" % n,
                             workers=4 if thorough else 2, timeout=t, name="mcl-" + n,
                             heap="6g" if n in ("big", "flush_after_big") else "2g") for n, t in mcs]
        self_futs = {n: ex.submit(vf.tlc, PID, "mcl-" + n, "BlockRelayLocks", "MC_BlockRelayLocks_%s.cfg" % n,
                                  workers=1, timeout=900, heap="1g") for n in expect}
        rs = {n: f.result() for n, f in self_futs.items()}
        for f in mc_futs:
            v.add_mc(f.result())
    for n, (kind, what) in expect.items():
        r = rs[n]
        ok = (r["kind"] == kind and r["violated"] == what) or (kind == "temporal" and "Temporal property NoWedge was violated" in r["out"])
        if not ok:
            raise vf.Broken("lock model self-check: control model %s is no longer rejected with %s (%s %s)\n%s"
                            % (n, what, r["kind"], r["violated"], r["out"][-1500:]))
    vf.log("lock model self-check: flushing the bid cache under the configuration write lock violates NoDeadlock and "
           "NoWedge, queueing on builderBidMu with the cache read lock held violates NoDeadlock, a re-check that "
           "returns without Unlock violates ReturnsClean (as they must)")


def design_checks(v, tier):
    # the configuration part as written (settings worked out under the lock; safety and NoWedge), and the same
    # property for a service that reads the configuration under the lock and works the settings out afterwards
    # (equally permitted; the schedules of the overlap family come from this design)
    mcs = [("MC_BlockRelay_C12.cfg", 900),
           ("MC_BlockRelay_C12_snapshot.cfg" if tier == "thorough" else "MC_BlockRelay_C12_snapshot_safety.cfg", 1500)]
    if tier == "thorough":
        mcs.append(("MC_BlockRelay_C12_big.cfg", 1500))
    # self-checks: the model must keep its discriminating power.
    #  * auctionBlock as written on the pinned tree (nested RLock, no RUnlock on the error return) violates
    #    LockBalanced and NoWedge;
    #  * control model (state carried on the instance): a per-validator memo of worked-out settings that every
    #    fetch empties is right in every sequential history (must pass with one call at a time) and wrong as soon
    #    as a lookup overlaps a fetch (must violate AnswersInForce); a memo that only keeps results of the
    #    configuration still active is fine (the property does not forbid remembering)
    selfs = ["pinned", "pinned_live", "memo", "memo_seq", "memochecked"]
    with ThreadPoolExecutor(max_workers=len(mcs) + len(selfs)) as ex:
        mc_futs = [ex.submit(vf.tlc_exhaustive, PID, "BlockRelay", c, workers=4, timeout=t) for c, t in mcs]
        self_futs = {n: ex.submit(vf.tlc, PID, "mc-" + n, "BlockRelay", "MC_BlockRelay_C12_%s.cfg" % n, workers=2, timeout=900)
                     for n in selfs}
        rs = {n: f.result() for n, f in self_futs.items()}
        for f in mc_futs:
            v.add_mc(f.result())
    r = rs["pinned"]
    if not (r["kind"] == "invariant" and r["violated"] == "LockBalanced"):
        raise vf.Broken("the pinned rendering of auctionBlock no longer violates LockBalanced in the model (%s %s)"
                        % (r["kind"], r["violated"]))
    r = rs["pinned_live"]
    if "Temporal property NoWedge was violated" not in r["out"] and r["kind"] != "temporal":
        raise vf.Broken("the pinned rendering of auctionBlock no longer violates NoWedge in the model")
    vf.log("model self-check: pinned auctionBlock violates LockBalanced and NoWedge (as it must)")
    r = rs["memo"]
    if not (r["kind"] == "invariant" and r["violated"] == "AnswersInForce"):
        raise vf.Broken("the memoising control model no longer violates AnswersInForce (%s %s)" % (r["kind"], r["violated"]))
    for n in ("memo_seq", "memochecked"):
        if not rs[n]["ok"]:
            raise vf.Broken("control model %s no longer satisfies the configuration part (%s %s)\n%s"
                            % (n, rs[n]["kind"], rs[n]["violated"], rs[n]["out"][-2000:]))
    vf.log("model self-check: a memo of worked-out settings emptied by every fetch violates AnswersInForce under overlap, "
           "satisfies everything sequentially; the checked memo satisfies everything (as they must)")


def run(tier):
    v = vf.Verdict(PID, tier)
    v.assumptions = [
        "Env_SingleFetcher: the scheduler never runs the periodic fetch job twice at the same time",
        "Env_Responds: the configuration source and the bid strategy answer every call (fairness)",
        "configuration source, accounts, signer, relays, beacon nodes, bid strategy and scheduler are scripted fakes at the service's interfaces",
    ]
    v.assumptions.append("lock part: sync.RWMutex as Go implements it (a waiting writer blocks new readers); interface "
                         "calls made while a lock is held are answered (Env_Responds); 'wired' histories: BuilderBid over "
                         "HTTP through a real go-block-relay REST daemon, configuration through the real majordomo service")
    with ThreadPoolExecutor(max_workers=2) as ex:      # model checking and scenario generation side by side
        f_sc = ex.submit(scenarios, tier)
        design_checks(v, tier)
        sc = f_sc.result()
    with ThreadPoolExecutor(max_workers=2) as ex:      # the same for the lock part (afterwards: bounded number of JVMs)
        f_lsc = ex.submit(lock_scenarios, tier)
        lock_design_checks(v, tier)
        lsc = f_lsc.result()
    vf.conformance(v, sc, driver, TRACE[0], TRACE[1], sig_of, nontrivial, tlc_timeout=1500)
    _lock_conformance(v, lsc)
    v.coverage["rule"] = ("behaviours of BlockRelay.tla (configuration part): every sequential pair of operations "
                          "(exhaustive), TLC-simulated concurrent schedules (seeded) replayed with gates inside the "
                          "critical sections, and free-running stress loops; non-trivial = a request or auction "
                          "answered after a failing fetch or a document with an unresolvable validator; "
                          "behaviours of BlockRelayLocks.tla: directed overlaps refresh || BuilderBid (immediate auction "
                          "under builderBidMu with a second request queued; refresh held at the source across whole "
                          "requests; cached bids) and simulated schedules of all six entry points on one service; "
                          "non-trivial = the overlap really took place in the recorded trace; distinct by step list")
    return v.finish()


def _lock_conformance(v, lsc):
    # the replay directories of this second conformance run are numbered from 101 (vf.conformance numbers them
    # per call; lib/ is shared and not edited)
    orig = vf.save_replay
    vf.save_replay = lambda pid, n, *a: orig(pid, n + 100, *a)
    try:
        vf.conformance(v, lsc, lock_driver, LTRACE[0], LTRACE[1], lock_sig_of, lock_nontrivial, tlc_timeout=1500, chunk=300)
    finally:
        vf.save_replay = orig


def replay(path):
    v = vf.Verdict(PID, "quick")
    with open(os.path.join(path, "scenario.json")) as fh:
        s = json.load(fh)
    if str(s.get("family", "")).startswith("locks-"):
        vf.conformance(v, [s], lock_driver, LTRACE[0], LTRACE[1], lock_sig_of, lock_nontrivial)
    else:
        vf.conformance(v, [s], driver, TRACE[0], TRACE[1], sig_of, nontrivial)
    return 1 if v.violations else 0
