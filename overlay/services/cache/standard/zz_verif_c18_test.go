package standard

// Conformance driver for property C18 (spec/Cache.tla).  Injected with -overlay by /verif/check.

import (
	"context"
	"errors"
	"sort"
	"testing"
	"time"

	eth2client "github.com/attestantio/go-eth2-client"
	"github.com/attestantio/go-eth2-client/api"
	apiv1 "github.com/attestantio/go-eth2-client/api/v1"
	"github.com/attestantio/go-eth2-client/spec/phase0"
	"github.com/attestantio/vouch/mock"
	nullmetrics "github.com/attestantio/vouch/services/metrics/null"
	"github.com/attestantio/vouch/verifsupport"
	"github.com/rs/zerolog"
)

type c18Step struct {
	Ev    string   `json:"ev"`
	Root  int      `json:"root"`
	Fetch string   `json:"fetch"`
	Now   uint64   `json:"now"`
	Chain []uint64 `json:"chain"`
}

type c18Scenario struct {
	Sc    int       `json:"sc"`
	Steps []c18Step `json:"steps"`
}

func c18Root(i int) phase0.Root {
	var r phase0.Root
	r[0] = byte(i)
	r[31] = byte(i)
	return r
}

func c18Index(r phase0.Root) int { return int(r[0]) }

// c18Events captures the handlers the cache registers.
type c18Events struct {
	handlers map[string]eth2client.EventHandlerFunc
}

func (e *c18Events) Events(_ context.Context, topics []string, handler eth2client.EventHandlerFunc) error {
	for _, t := range topics {
		e.handlers[t] = handler
	}
	return nil
}

// c18Headers is the scripted beacon node: the header of root r has slot chain[r].
type c18Headers struct {
	chain  []uint64
	mode   string // outcome of the next fetch: "ok" or "err"
	called string // what the last call did: "none", "ok", "err"
}

func (h *c18Headers) BeaconBlockHeader(_ context.Context, opts *api.BeaconBlockHeaderOpts) (*api.Response[*apiv1.BeaconBlockHeader], error) {
	if h.mode == "err" {
		h.called = "err"
		return nil, errors.New("scripted failure")
	}
	h.called = "ok"
	for i := range h.chain {
		r := c18Root(i + 1)
		if r.String() == opts.Block {
			return &api.Response[*apiv1.BeaconBlockHeader]{
				Data: &apiv1.BeaconBlockHeader{
					Root:      r,
					Canonical: true,
					Header: &phase0.SignedBeaconBlockHeader{
						Message: &phase0.BeaconBlockHeader{Slot: phase0.Slot(h.chain[i])},
					},
				},
				Metadata: map[string]any{},
			}, nil
		}
	}
	h.called = "err"
	return nil, errors.New("unknown block")
}

func TestVerifC18(t *testing.T) {
	var scenarios []c18Scenario
	verifsupport.Scenarios(t, &scenarios)
	tr := verifsupport.OpenTrace(t)
	defer tr.Close()
	ctx := context.Background()

	for _, sc := range scenarios {
		var s *Service
		var headers *c18Headers
		var events *c18Events
		var sched *verifsupport.Scheduler
		var ct *verifsupport.ChainTime

		project := func() [][2]uint64 {
			s.blockRootToSlotMu.RLock()
			defer s.blockRootToSlotMu.RUnlock()
			res := make([][2]uint64, 0, len(s.blockRootToSlot))
			for r, slot := range s.blockRootToSlot {
				res = append(res, [2]uint64{uint64(c18Index(r)), uint64(slot)})
			}
			sort.Slice(res, func(i, j int) bool { return res[i][0] < res[j][0] })
			return res
		}

		for _, st := range sc.Steps {
			switch st.Ev {
			case "Reset":
				ct = verifsupport.NewChainTime(32, 12*time.Second)
				ct.SetSlot(st.Now)
				headers = &c18Headers{chain: st.Chain, mode: "ok"}
				events = &c18Events{handlers: map[string]eth2client.EventHandlerFunc{}}
				sched = verifsupport.NewScheduler()
				var err error
				s, err = New(ctx,
					WithLogLevel(zerolog.Disabled),
					WithMonitor(nullmetrics.New()),
					WithChainTime(ct),
					WithSignedBeaconBlockProvider(mock.NewSignedBeaconBlockProvider()),
					WithBeaconBlockHeadersProvider(headers),
					WithEventsProvider(events),
					WithScheduler(sched),
				)
				if err != nil {
					t.Fatalf("cache New: %v", err)
				}
				if events.handlers["block"] == nil {
					t.Fatalf("cache did not register a block event handler")
				}
				tr.Emit(verifsupport.Ev{"sc": sc.Sc, "ev": "Reset", "chain": st.Chain, "now": st.Now})
			case "Advance":
				ct.SetSlot(st.Now)
				tr.Emit(verifsupport.Ev{"sc": sc.Sc, "ev": "Advance", "now": st.Now})
			case "BlockEvent":
				events.handlers["block"](&apiv1.Event{
					Topic: "block",
					Data:  &apiv1.BlockEvent{Slot: phase0.Slot(headers.chain[st.Root-1]), Block: c18Root(st.Root)},
				})
				tr.Emit(verifsupport.Ev{"sc": sc.Sc, "ev": "BlockEvent", "root": st.Root, "map": project()})
			case "Lookup":
				headers.called = "none"
				headers.mode = "ok"
				if st.Fetch == "err" {
					headers.mode = "err"
				}
				slot, err := s.BlockRootToSlot(ctx, c18Root(st.Root))
				ev := verifsupport.Ev{"sc": sc.Sc, "ev": "Lookup", "root": st.Root, "fetch": headers.called, "map": project()}
				if err != nil {
					ev["ok"] = false
					ev["slot"] = -1
				} else {
					ev["ok"] = true
					ev["slot"] = uint64(slot)
				}
				tr.Emit(ev)
			case "Clean":
				// Run the job the service registered with the scheduler.
				ran := false
				for _, name := range sched.ListJobs(ctx) {
					if sched.Fire(ctx, name) {
						ran = true
					}
				}
				if !ran {
					t.Fatalf("cache registered no periodic job")
				}
				tr.Emit(verifsupport.Ev{"sc": sc.Sc, "ev": "Clean", "map": project()})
			default:
				t.Fatalf("unknown step %q", st.Ev)
			}
		}
	}
}
