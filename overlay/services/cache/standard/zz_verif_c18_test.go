package standard

// Conformance driver for property C18 (spec/Cache.tla).  Injected with -overlay by /verif/check.

import (
	"context"
	"errors"
	"sort"
	"testing"
	"time"

	eth2client "github.com/attestantio/go-eth2-client"
	"github.com/attestantio/go-eth2-client/api"
	apiv1 "github.com/attestantio/go-eth2-client/api/v1"
	"github.com/attestantio/go-eth2-client/spec"
	"github.com/attestantio/go-eth2-client/spec/altair"
	"github.com/attestantio/go-eth2-client/spec/bellatrix"
	"github.com/attestantio/go-eth2-client/spec/capella"
	"github.com/attestantio/go-eth2-client/spec/deneb"
	"github.com/attestantio/go-eth2-client/spec/phase0"
	nullmetrics "github.com/attestantio/vouch/services/metrics/null"
	"github.com/attestantio/vouch/verifsupport"
	"github.com/rs/zerolog"
)

type c18Step struct {
	Ev    string   `json:"ev"`
	Root  int      `json:"root"`
	Fetch string   `json:"fetch"`
	Now   uint64   `json:"now"`
	Chain []uint64 `json:"chain"`
	// ground truth: parent of every block (0: a block outside the model)
	Parent []int `json:"parent"`
	// HeadEvent: does the node hand out the signed block?
	Ok bool `json:"ok"`
}

type c18Scenario struct {
	Sc    int       `json:"sc"`
	Steps []c18Step `json:"steps"`
}

func c18Root(i int) phase0.Root {
	var r phase0.Root
	r[0] = byte(i)
	r[31] = byte(i)
	return r
}

func c18Index(r phase0.Root) int { return int(r[0]) }

// c18Events captures the handlers the cache registers.
type c18Events struct {
	handlers map[string]eth2client.EventHandlerFunc
}

func (e *c18Events) Events(_ context.Context, topics []string, handler eth2client.EventHandlerFunc) error {
	for _, t := range topics {
		e.handlers[t] = handler
	}
	return nil
}

// c18Headers is the scripted beacon node: the header of root r has slot chain[r].
type c18Headers struct {
	chain  []uint64
	mode   string // outcome of the next fetch: "ok" or "err"
	called string // what the last call did: "none", "ok", "err"
}

func (h *c18Headers) BeaconBlockHeader(_ context.Context, opts *api.BeaconBlockHeaderOpts) (*api.Response[*apiv1.BeaconBlockHeader], error) {
	if h.mode == "err" {
		h.called = "err"
		return nil, errors.New("scripted failure")
	}
	h.called = "ok"
	for i := range h.chain {
		r := c18Root(i + 1)
		if r.String() == opts.Block {
			return &api.Response[*apiv1.BeaconBlockHeader]{
				Data: &apiv1.BeaconBlockHeader{
					Root:      r,
					Canonical: true,
					Header: &phase0.SignedBeaconBlockHeader{
						Message: &phase0.BeaconBlockHeader{Slot: phase0.Slot(h.chain[i])},
					},
				},
				Metadata: map[string]any{},
			}, nil
		}
	}
	h.called = "err"
	return nil, errors.New("unknown block")
}

// c18Blocks is the scripted beacon node's block store: the signed block of root r has slot chain[r], names
// parent[r] as its parent (an unknown root when 0) and is of a version that depends on r, so that every arm of
// the handler is driven: 1 Bellatrix, 2 Capella, 3 Deneb (all with an execution payload), 4 Altair, others phase 0.
type c18Blocks struct {
	chain  []uint64
	parent []int
	mode   string // outcome of the next fetch: "ok" or "err"
	called string
}

func c18Hash(i int) phase0.Hash32 {
	var h phase0.Hash32
	h[0] = 0xe0
	h[31] = byte(i)
	return h
}

// c18ExecRoot maps an execution head hash back to the block it belongs to (0: none yet, -1: not a hash of the model).
func c18ExecRoot(h phase0.Hash32) int {
	if h == (phase0.Hash32{}) {
		return 0
	}
	for i := 1; i < 32; i++ {
		if h == c18Hash(i) {
			return i
		}
	}
	return -1
}

func (b *c18Blocks) SignedBeaconBlock(_ context.Context, opts *api.SignedBeaconBlockOpts) (*api.Response[*spec.VersionedSignedBeaconBlock], error) {
	if b.mode == "err" {
		b.called = "err"
		return nil, errors.New("scripted failure")
	}
	for i := range b.chain {
		r := c18Root(i + 1)
		if r.String() != opts.Block {
			continue
		}
		b.called = "ok"
		slot := phase0.Slot(b.chain[i])
		parent := phase0.Root{0xee, 0xee}
		if i < len(b.parent) && b.parent[i] != 0 {
			parent = c18Root(b.parent[i])
		}
		stateRoot := phase0.Root{0x01}
		res := &spec.VersionedSignedBeaconBlock{}
		switch i + 1 {
		case 1:
			res.Version = spec.DataVersionBellatrix
			res.Bellatrix = &bellatrix.SignedBeaconBlock{Message: &bellatrix.BeaconBlock{Slot: slot, ParentRoot: parent, Body: &bellatrix.BeaconBlockBody{
				ExecutionPayload: &bellatrix.ExecutionPayload{StateRoot: [32]byte(stateRoot), BlockNumber: b.chain[i], BlockHash: c18Hash(i + 1)}}}}
		case 2:
			res.Version = spec.DataVersionCapella
			res.Capella = &capella.SignedBeaconBlock{Message: &capella.BeaconBlock{Slot: slot, ParentRoot: parent, Body: &capella.BeaconBlockBody{
				ExecutionPayload: &capella.ExecutionPayload{StateRoot: [32]byte(stateRoot), BlockNumber: b.chain[i], BlockHash: c18Hash(i + 1)}}}}
		case 3:
			res.Version = spec.DataVersionDeneb
			res.Deneb = &deneb.SignedBeaconBlock{Message: &deneb.BeaconBlock{Slot: slot, ParentRoot: parent, Body: &deneb.BeaconBlockBody{
				ExecutionPayload: &deneb.ExecutionPayload{StateRoot: stateRoot, BlockNumber: b.chain[i], BlockHash: c18Hash(i + 1)}}}}
		case 4:
			res.Version = spec.DataVersionAltair
			res.Altair = &altair.SignedBeaconBlock{Message: &altair.BeaconBlock{Slot: slot, ParentRoot: parent, Body: &altair.BeaconBlockBody{}}}
		default:
			res.Version = spec.DataVersionPhase0
			res.Phase0 = &phase0.SignedBeaconBlock{Message: &phase0.BeaconBlock{Slot: slot, ParentRoot: parent, Body: &phase0.BeaconBlockBody{}}}
		}
		return &api.Response[*spec.VersionedSignedBeaconBlock]{Data: res, Metadata: map[string]any{}}, nil
	}
	b.called = "err"
	return nil, errors.New("unknown block")
}

func TestVerifC18(t *testing.T) {
	var scenarios []c18Scenario
	verifsupport.Scenarios(t, &scenarios)
	tr := verifsupport.OpenTrace(t)
	defer tr.Close()
	ctx := context.Background()

	for _, sc := range scenarios {
		var s *Service
		var headers *c18Headers
		var blocks *c18Blocks
		var events *c18Events
		var sched *verifsupport.Scheduler
		var ct *verifsupport.ChainTime

		project := func() [][2]uint64 {
			s.blockRootToSlotMu.RLock()
			defer s.blockRootToSlotMu.RUnlock()
			res := make([][2]uint64, 0, len(s.blockRootToSlot))
			for r, slot := range s.blockRootToSlot {
				res = append(res, [2]uint64{uint64(c18Index(r)), uint64(slot)})
			}
			sort.Slice(res, func(i, j int) bool { return res[i][0] < res[j][0] })
			return res
		}

		for _, st := range sc.Steps {
			switch st.Ev {
			case "Reset":
				ct = verifsupport.NewChainTime(32, 12*time.Second)
				ct.SetSlot(st.Now)
				headers = &c18Headers{chain: st.Chain, mode: "ok"}
				parent := st.Parent
				if parent == nil {
					parent = make([]int, len(st.Chain))
				}
				blocks = &c18Blocks{chain: st.Chain, parent: parent, mode: "ok"}
				events = &c18Events{handlers: map[string]eth2client.EventHandlerFunc{}}
				sched = verifsupport.NewScheduler()
				var err error
				s, err = New(ctx,
					WithLogLevel(zerolog.Disabled),
					WithMonitor(nullmetrics.New()),
					WithChainTime(ct),
					WithSignedBeaconBlockProvider(blocks),
					WithBeaconBlockHeadersProvider(headers),
					WithEventsProvider(events),
					WithScheduler(sched),
				)
				if err != nil {
					t.Fatalf("cache New: %v", err)
				}
				if events.handlers["block"] == nil {
					t.Fatalf("cache did not register a block event handler")
				}
				if events.handlers["head"] == nil {
					t.Fatalf("cache did not register a head event handler")
				}
				tr.Emit(verifsupport.Ev{"sc": sc.Sc, "ev": "Reset", "chain": st.Chain, "parent": parent, "now": st.Now})
			case "Advance":
				ct.SetSlot(st.Now)
				tr.Emit(verifsupport.Ev{"sc": sc.Sc, "ev": "Advance", "now": st.Now})
			case "BlockEvent":
				events.handlers["block"](&apiv1.Event{
					Topic: "block",
					Data:  &apiv1.BlockEvent{Slot: phase0.Slot(headers.chain[st.Root-1]), Block: c18Root(st.Root)},
				})
				tr.Emit(verifsupport.Ev{"sc": sc.Sc, "ev": "BlockEvent", "root": st.Root, "map": project()})
			case "CtlBlockEvent":
				// what the controller's block event handler does with the same event (the handler itself is
				// driven by TestVerifC18Ctl in the controller's package)
				s.SetBlockRootToSlot(c18Root(st.Root), phase0.Slot(headers.chain[st.Root-1]))
				tr.Emit(verifsupport.Ev{"sc": sc.Sc, "ev": "CtlBlockEvent", "root": st.Root, "map": project()})
			case "CtlHeadEvent":
				// the controller's head event handler does not touch the cache (driven in TestVerifC18Ctl)
				tr.Emit(verifsupport.Ev{"sc": sc.Sc, "ev": "CtlHeadEvent", "root": st.Root, "map": project()})
			case "HeadEvent":
				blocks.called = "none"
				blocks.mode = "ok"
				if !st.Ok {
					blocks.mode = "err"
				}
				events.handlers["head"](&apiv1.Event{
					Topic: "head",
					Data:  &apiv1.HeadEvent{Slot: phase0.Slot(headers.chain[st.Root-1]), Block: c18Root(st.Root)},
				})
				hash, _ := s.ExecutionChainHead(ctx)
				tr.Emit(verifsupport.Ev{"sc": sc.Sc, "ev": "HeadEvent", "root": st.Root, "ok": blocks.called == "ok",
					"ehead": c18ExecRoot(hash), "map": project()})
			case "ExecHead":
				hash, height := s.ExecutionChainHead(ctx)
				r := c18ExecRoot(hash)
				if r > 0 && height != headers.chain[r-1] {
					r = -1 // hash of one block with the height of another
				}
				tr.Emit(verifsupport.Ev{"sc": sc.Sc, "ev": "ExecHead", "head": r})
			case "Lookup":
				headers.called = "none"
				headers.mode = "ok"
				if st.Fetch == "err" {
					headers.mode = "err"
				}
				slot, err := s.BlockRootToSlot(ctx, c18Root(st.Root))
				ev := verifsupport.Ev{"sc": sc.Sc, "ev": "Lookup", "root": st.Root, "fetch": headers.called, "map": project()}
				if err != nil {
					ev["ok"] = false
					ev["slot"] = -1
				} else {
					ev["ok"] = true
					ev["slot"] = uint64(slot)
				}
				tr.Emit(ev)
			case "Clean":
				// Run the job the service registered with the scheduler.
				ran := false
				for _, name := range sched.ListJobs(ctx) {
					if sched.Fire(ctx, name) {
						ran = true
					}
				}
				if !ran {
					t.Fatalf("cache registered no periodic job")
				}
				tr.Emit(verifsupport.Ev{"sc": sc.Sc, "ev": "Clean", "map": project()})
			case "Use":
				// the consumers are driven by TestVerifC18Use (verifdrivers/c18use)
			default:
				t.Fatalf("unknown step %q", st.Ev)
			}
		}
	}
}
