package standard

// Concurrent conformance driver for property C18 (spec/Trace_CacheConc.tla): the periodic cleaner
// overlapping block events and lookups, followed by sequential probes of every root.

import (
	"context"
	"errors"
	"sort"
	"sync"
	"testing"
	"time"

	eth2client "github.com/attestantio/go-eth2-client"
	"github.com/attestantio/go-eth2-client/api"
	apiv1 "github.com/attestantio/go-eth2-client/api/v1"
	"github.com/attestantio/go-eth2-client/spec/phase0"
	"github.com/attestantio/vouch/mock"
	nullmetrics "github.com/attestantio/vouch/services/metrics/null"
	firstheader "github.com/attestantio/vouch/strategies/beaconblockheader/first"
	"github.com/attestantio/vouch/verifsupport"
	"github.com/rs/zerolog"
)

type c18cScenario struct {
	Sc      int      `json:"sc"`
	Chain   []uint64 `json:"chain"`
	Now     uint64   `json:"now"`
	Filler  int      `json:"filler"`  // expired entries preloaded so that a clean run has work to do
	Pre     []int    `json:"pre"`     // roots announced before the overlap
	Events  []int    `json:"events"`  // block events during the overlap
	Lookups []int    `json:"lookups"` // lookups during the overlap (the node answers them)
	Rounds  int      `json:"rounds"`  // clean runs during the overlap
	// Via "first": the cache's header provider is the real "first" beacon block header strategy over the scripted
	// node(s), as main.go wires it; HeadReqs requests for the "head" header (the controller's early proposal
	// asks the same strategy instance) overlap the lookups; LatencyUs is the node's answer time.
	Via       string `json:"via"`
	Nodes     int    `json:"nodes"`
	HeadReqs  int    `json:"headreqs"`
	LatencyUs int    `json:"latency_us"`
}

// c18cHeaders is a concurrency-safe scripted beacon node.
type c18cHeaders struct {
	mu    sync.Mutex
	chain []uint64
	fail  bool
	calls int
	// answer time (outside the lock: requests overlap at the node as they do at a real one)
	latency time.Duration
	// this node fails every request (a second, broken node behind the strategy)
	broken bool
}

func (h *c18cHeaders) BeaconBlockHeader(_ context.Context, opts *api.BeaconBlockHeaderOpts) (*api.Response[*apiv1.BeaconBlockHeader], error) {
	if h.latency > 0 {
		time.Sleep(h.latency)
	}
	h.mu.Lock()
	defer h.mu.Unlock()
	h.calls++
	if h.fail || h.broken {
		return nil, errors.New("scripted failure")
	}
	if opts.Block == "head" {
		// the block of the highest slot
		best := 0
		for i := range h.chain {
			if h.chain[i] >= h.chain[best] {
				best = i
			}
		}
		return &api.Response[*apiv1.BeaconBlockHeader]{
			Data: &apiv1.BeaconBlockHeader{Root: c18Root(best + 1), Canonical: true,
				Header: &phase0.SignedBeaconBlockHeader{Message: &phase0.BeaconBlockHeader{Slot: phase0.Slot(h.chain[best])}}},
			Metadata: map[string]any{},
		}, nil
	}
	for i := range h.chain {
		r := c18Root(i + 1)
		if r.String() == opts.Block {
			return &api.Response[*apiv1.BeaconBlockHeader]{
				Data: &apiv1.BeaconBlockHeader{Root: r, Canonical: true,
					Header: &phase0.SignedBeaconBlockHeader{Message: &phase0.BeaconBlockHeader{Slot: phase0.Slot(h.chain[i])}}},
				Metadata: map[string]any{},
			}, nil
		}
	}
	return nil, errors.New("unknown block")
}

func TestVerifC18Conc(t *testing.T) {
	var scenarios []c18cScenario
	verifsupport.Scenarios(t, &scenarios)
	tr := verifsupport.OpenTrace(t)
	defer tr.Close()
	ctx := context.Background()

	for _, sc := range scenarios {
		ct := verifsupport.NewChainTime(32, 12*time.Second)
		ct.SetSlot(sc.Now)
		headers := &c18cHeaders{chain: sc.Chain, latency: time.Duration(sc.LatencyUs) * time.Microsecond}
		var headersProvider eth2client.BeaconBlockHeadersProvider = headers
		if sc.Via == "first" {
			providers := map[string]eth2client.BeaconBlockHeadersProvider{"node1": headers}
			if sc.Nodes > 1 {
				providers["node2"] = &c18cHeaders{chain: sc.Chain, broken: true, latency: headers.latency / 2}
			}
			strategy, err := firstheader.New(ctx,
				firstheader.WithLogLevel(zerolog.Disabled),
				firstheader.WithClientMonitor(nullmetrics.New()),
				firstheader.WithTimeout(2*time.Second),
				firstheader.WithBeaconBlockHeadersProviders(providers),
			)
			if err != nil {
				t.Fatalf("first header strategy: %v", err)
			}
			headersProvider = strategy
		}
		events := &c18Events{handlers: map[string]eth2client.EventHandlerFunc{}}
		sched := verifsupport.NewScheduler()
		s, err := New(ctx,
			WithLogLevel(zerolog.Disabled),
			WithMonitor(nullmetrics.New()),
			WithChainTime(ct),
			WithSignedBeaconBlockProvider(mock.NewSignedBeaconBlockProvider()),
			WithBeaconBlockHeadersProvider(headersProvider),
			WithEventsProvider(events),
			WithScheduler(sched),
		)
		if err != nil {
			t.Fatalf("cache New: %v", err)
		}
		project := func() [][2]uint64 {
			s.blockRootToSlotMu.RLock()
			defer s.blockRootToSlotMu.RUnlock()
			res := make([][2]uint64, 0, 8)
			for r, slot := range s.blockRootToSlot {
				if r[0] == 0xff {
					continue // filler
				}
				res = append(res, [2]uint64{uint64(c18Index(r)), uint64(slot)})
			}
			sort.Slice(res, func(i, j int) bool { return res[i][0] < res[j][0] })
			return res
		}
		tr.Emit(verifsupport.Ev{"sc": sc.Sc, "ev": "Reset", "chain": sc.Chain, "now": sc.Now})
		// Expired filler entries (not part of the abstraction).
		for i := 0; i < sc.Filler; i++ {
			var r phase0.Root
			r[0] = 0xff
			r[1], r[2], r[3] = byte(i), byte(i>>8), byte(i>>16)
			s.SetBlockRootToSlot(r, phase0.Slot(i%32))
		}
		id := 0
		event := func(root int) {
			events.handlers["block"](&apiv1.Event{Topic: "block",
				Data: &apiv1.BlockEvent{Slot: phase0.Slot(sc.Chain[root-1]), Block: c18Root(root)}})
		}
		for _, root := range sc.Pre {
			id++
			tr.Emit(verifsupport.Ev{"sc": sc.Sc, "ev": "Call", "id": id, "op": "event", "root": root})
			event(root)
			tr.Emit(verifsupport.Ev{"sc": sc.Sc, "ev": "Ret", "id": id, "op": "event", "root": root})
		}

		// The overlap.
		var wg sync.WaitGroup
		start := make(chan struct{})
		run := func(op string, root int, fn func() (uint64, bool)) {
			id++
			myID := id
			wg.Add(1)
			go func() {
				defer wg.Done()
				<-start
				tr.Emit(verifsupport.Ev{"sc": sc.Sc, "ev": "Call", "id": myID, "op": op, "root": root})
				slot, ok := fn()
				ev := verifsupport.Ev{"sc": sc.Sc, "ev": "Ret", "id": myID, "op": op, "root": root, "ok": ok}
				if ok {
					ev["slot"] = slot
				} else {
					ev["slot"] = -1
				}
				tr.Emit(ev)
			}()
		}
		for i := 0; i < sc.Rounds; i++ {
			run("clean", 0, func() (uint64, bool) {
				for _, name := range sched.ListJobs(ctx) {
					if j := sched.Get(name); j != nil {
						j.Func(ctx)
					}
				}
				return 0, true
			})
		}
		for _, root := range sc.Events {
			root := root
			run("event", root, func() (uint64, bool) { event(root); return 0, true })
		}
		for _, root := range sc.Lookups {
			root := root
			run("lookup", root, func() (uint64, bool) {
				slot, err := s.BlockRootToSlot(ctx, c18Root(root))
				return uint64(slot), err == nil
			})
		}
		for i := 0; i < sc.HeadReqs; i++ {
			// another user of the same header provider, not of the cache: nothing to linearize
			run("headreq", 0, func() (uint64, bool) {
				_, err := headersProvider.BeaconBlockHeader(ctx, &api.BeaconBlockHeaderOpts{Block: "head"})
				return 0, err == nil
			})
		}
		close(start)
		wg.Wait()

		// Sequential probes: the node now fails, so only what the cache holds is answered.
		headers.mu.Lock()
		headers.fail = true
		headers.mu.Unlock()
		for root := 1; root <= len(sc.Chain); root++ {
			headers.mu.Lock()
			before := headers.calls
			headers.mu.Unlock()
			slot, err := s.BlockRootToSlot(ctx, c18Root(root))
			headers.mu.Lock()
			called := headers.calls != before
			headers.mu.Unlock()
			ev := verifsupport.Ev{"sc": sc.Sc, "ev": "Lookup", "root": root, "map": project()}
			ev["fetch"] = "none"
			if called {
				ev["fetch"] = "err"
			}
			if err != nil {
				ev["ok"] = false
				ev["slot"] = -1
			} else {
				ev["ok"] = true
				ev["slot"] = uint64(slot)
			}
			tr.Emit(ev)
		}
	}
}
