package standard

// Conformance driver for property C06 (spec/Signer.tla).  Injected with -overlay by /verif/check.
//
// The real signer/standard.Service is built with New(...).  Its collaborators are:
//   - c06Domains: a DomainProvider that returns a distinct domain per (type, epoch) and per
//     (type, genesis), logs every request and can be scripted to fail;
//   - accounts: real BLS keys from an in-memory nd wallet, wrapped so that an account has exactly the
//     method set of one of the four kinds the signer type-switches on (plain AccountSigner, plain
//     distributed, Dirk-like protecting [multi-]signer, Dirk-like protecting distributed).  The
//     protecting wrappers do what Dirk does: build the signing root from the fields and the domain
//     they are HANDED and sign that; every wrapper logs what it was handed.
// For each request enumerated by TLC the driver fills the consensus-spec container named by the
// specification's table, merkleises it, and verifies every returned signature with BLS under the
// verification key of the account at that position.  Hash-tree-root and the pairing check are Go
// (trusted base); which domain, which container, which key and which position is TLA+.

import (
	"bytes"
	"context"
	"encoding/binary"
	"errors"
	"fmt"
	"math/rand"
	"testing"
	"time"

	builderapi "github.com/attestantio/go-builder-client/api"
	builderapiv1 "github.com/attestantio/go-builder-client/api/v1"
	builderspec "github.com/attestantio/go-builder-client/spec"
	"github.com/attestantio/go-eth2-client/api"
	"github.com/attestantio/go-eth2-client/spec/altair"
	"github.com/attestantio/go-eth2-client/spec/bellatrix"
	"github.com/attestantio/go-eth2-client/spec/phase0"
	nullmetrics "github.com/attestantio/vouch/services/metrics/null"
	"github.com/attestantio/vouch/verifsupport"
	"github.com/prysmaticlabs/go-bitfield"
	"github.com/rs/zerolog"
	e2types "github.com/wealdtech/go-eth2-types/v2"
	keystorev4 "github.com/wealdtech/go-eth2-wallet-encryptor-keystorev4"
	nd "github.com/wealdtech/go-eth2-wallet-nd/v2"
	scratch "github.com/wealdtech/go-eth2-wallet-store-scratch"
	e2wtypes "github.com/wealdtech/go-eth2-wallet-types/v2"
)

// ---------------------------------------------------------------------------------------------
// scenario input

type c06Want struct {
	Type    string `json:"type"`
	Genesis bool   `json:"genesis"`
	Epoch   int64  `json:"epoch"`
}

type c06Step struct {
	Ev       string   `json:"ev"`
	Op       string   `json:"op"`
	Slot     uint64   `json:"slot"`
	Epoch    uint64   `json:"epoch"`
	Kinds    []string `json:"kinds"`
	Fail     string   `json:"fail"`
	FailIdx  int      `json:"failidx"`
	Want     c06Want  `json:"want"`
	Msg      string   `json:"msg"`
	PerIndex bool     `json:"perindex"`
	VerKeys  []string `json:"verkeys"`
}

type c06Scenario struct {
	Sc    int       `json:"sc"`
	Steps []c06Step `json:"steps"`
}

// ---------------------------------------------------------------------------------------------
// chain specification handed to the signer: the domain type constants of the consensus and builder
// specifications, by name

var c06DomainTypes = map[string]phase0.DomainType{
	"DOMAIN_BEACON_PROPOSER":                {0x00, 0x00, 0x00, 0x00},
	"DOMAIN_BEACON_ATTESTER":                {0x01, 0x00, 0x00, 0x00},
	"DOMAIN_RANDAO":                         {0x02, 0x00, 0x00, 0x00},
	"DOMAIN_DEPOSIT":                        {0x03, 0x00, 0x00, 0x00},
	"DOMAIN_VOLUNTARY_EXIT":                 {0x04, 0x00, 0x00, 0x00},
	"DOMAIN_SELECTION_PROOF":                {0x05, 0x00, 0x00, 0x00},
	"DOMAIN_AGGREGATE_AND_PROOF":            {0x06, 0x00, 0x00, 0x00},
	"DOMAIN_SYNC_COMMITTEE":                 {0x07, 0x00, 0x00, 0x00},
	"DOMAIN_SYNC_COMMITTEE_SELECTION_PROOF": {0x08, 0x00, 0x00, 0x00},
	"DOMAIN_CONTRIBUTION_AND_PROOF":         {0x09, 0x00, 0x00, 0x00},
	"DOMAIN_BLOB_SIDECAR":                   {0x0b, 0x00, 0x00, 0x00},
	"DOMAIN_APPLICATION_BUILDER":            {0x00, 0x00, 0x00, 0x01},
}

const c06SlotsPerEpoch = 32

type c06Spec struct{}

func (c06Spec) Spec(_ context.Context, _ *api.SpecOpts) (*api.Response[map[string]any], error) {
	data := map[string]any{
		"SLOTS_PER_EPOCH":  uint64(c06SlotsPerEpoch),
		"SECONDS_PER_SLOT": 12 * time.Second,
	}
	for name, dt := range c06DomainTypes {
		data[name] = dt
	}
	return &api.Response[map[string]any]{Data: data, Metadata: map[string]any{}}, nil
}

func c06TypeName(dt []byte) string {
	for name, v := range c06DomainTypes {
		if bytes.Equal(v[:], dt) {
			return name
		}
	}
	return fmt.Sprintf("unknown:%x", dt)
}

// c06Domain is the fake chain's domain function: distinct for every (type, epoch) and distinct from
// every genesis domain.
func c06Domain(dt phase0.DomainType, genesis bool, epoch uint64) phase0.Domain {
	var d phase0.Domain
	copy(d[:4], dt[:])
	if genesis {
		d[4] = 0x02
		return d
	}
	d[4] = 0x01
	binary.LittleEndian.PutUint64(d[5:13], epoch)
	d[31] = 0xfd
	return d
}

// c06Decode is the inverse of c06Domain, for logging what a signer was handed.
func c06Decode(domain []byte) verifsupport.Ev {
	if len(domain) != 32 {
		return verifsupport.Ev{"type": fmt.Sprintf("badlen:%d", len(domain)), "genesis": false, "epoch": 0}
	}
	name := c06TypeName(domain[:4])
	switch domain[4] {
	case 0x02:
		return verifsupport.Ev{"type": name, "genesis": true, "epoch": -1}
	case 0x01:
		e := binary.LittleEndian.Uint64(domain[5:13])
		if e >= 1<<31 {
			e = 1<<31 - 1
		}
		return verifsupport.Ev{"type": name, "genesis": false, "epoch": e}
	}
	return verifsupport.Ev{"type": "unknown-domain", "genesis": false, "epoch": 0}
}

// c06Domains is the scripted DomainProvider.
type c06Domains struct {
	tr   *verifsupport.Trace
	sc   int
	fail bool
}

func (d *c06Domains) log(dt phase0.DomainType, genesis bool, epoch uint64) {
	ev := verifsupport.Ev{"sc": d.sc, "ev": "Domain", "type": c06TypeName(dt[:]), "genesis": genesis, "err": d.fail}
	if genesis {
		ev["epoch"] = -1
	} else {
		if epoch >= 1<<31 {
			epoch = 1<<31 - 1
		}
		ev["epoch"] = epoch
	}
	d.tr.Emit(ev)
}

func (d *c06Domains) Domain(_ context.Context, dt phase0.DomainType, epoch phase0.Epoch) (phase0.Domain, error) {
	d.log(dt, false, uint64(epoch))
	if d.fail {
		return phase0.Domain{}, errors.New("scripted domain failure")
	}
	return c06Domain(dt, false, uint64(epoch)), nil
}

func (d *c06Domains) GenesisDomain(_ context.Context, dt phase0.DomainType) (phase0.Domain, error) {
	d.log(dt, true, 0)
	if d.fail {
		return phase0.Domain{}, errors.New("scripted domain failure")
	}
	return c06Domain(dt, true, 0), nil
}

// ---------------------------------------------------------------------------------------------
// accounts

// c06Run is what the wrappers of one scenario share.
type c06Run struct {
	tr         *verifsupport.Trace
	sc         int
	fail       string
	failIdx    int // 1-based position whose signature the multi-signer withholds
	wantDomain phase0.Domain
	roots      []phase0.Root // expected message root per position (0-based)
}

// c06Base carries the real account (ID, Name and PublicKey are promoted from it) and the position.
type c06Base struct {
	e2wtypes.Account
	run *c06Run
	idx int // 1-based position in the request
}

func (b *c06Base) real() e2wtypes.AccountSigner { return b.Account.(e2wtypes.AccountSigner) }

func c06SigningRoot(root []byte, domain []byte) ([]byte, error) {
	if len(root) != 32 || len(domain) != 32 {
		return nil, errors.New("bad root or domain length")
	}
	var sd phase0.SigningData
	copy(sd.ObjectRoot[:], root)
	copy(sd.Domain[:], domain)
	r, err := sd.HashTreeRoot()
	if err != nil {
		return nil, err
	}
	return r[:], nil
}

type c06Indexed interface{ c06base() *c06Base }

func (b *c06Base) c06base() *c06Base { return b }

// signPlain: the account is handed a finished signing root (AccountSigner.Sign).
func (b *c06Base) signPlain(ctx context.Context, data []byte) (e2types.Signature, error) {
	want, _ := c06SigningRoot(b.run.roots[b.idx-1][:], b.run.wantDomain[:])
	failing := b.run.fail == "signer"
	b.run.tr.Emit(verifsupport.Ev{"sc": b.run.sc, "ev": "Sign", "mode": "sign", "idx": []int{b.idx},
		"dataok": []bool{bytes.Equal(data, want)}, "hasdom": false,
		"dom": verifsupport.Ev{"type": "", "genesis": false, "epoch": 0}, "err": failing})
	if failing {
		return nil, errors.New("scripted signer failure")
	}
	return b.real().Sign(ctx, data)
}

// signProtected: Dirk-like signing of (root, domain) handed over separately, for the given accounts.
func (b *c06Base) signProtected(ctx context.Context, mode string, accounts []e2wtypes.Account, roots [][]byte, domain []byte) ([]e2types.Signature, error) {
	idx := make([]int, len(accounts))
	ok := make([]bool, len(accounts))
	bases := make([]*c06Base, len(accounts))
	for j, a := range accounts {
		w, isWrapper := a.(c06Indexed)
		if !isWrapper || j >= len(roots) {
			idx[j] = 0
			continue
		}
		bases[j] = w.c06base()
		idx[j] = bases[j].idx
		ok[j] = bytes.Equal(roots[j], b.run.roots[bases[j].idx-1][:])
	}
	failing := b.run.fail == "signer"
	b.run.tr.Emit(verifsupport.Ev{"sc": b.run.sc, "ev": "Sign", "mode": mode, "idx": idx, "dataok": ok,
		"hasdom": true, "dom": c06Decode(domain), "err": failing})
	if failing {
		return nil, errors.New("scripted signer failure")
	}
	sigs := make([]e2types.Signature, len(accounts))
	for j := range accounts {
		if bases[j] == nil {
			return nil, errors.New("unknown account handed to multi-signer")
		}
		if b.run.fail == "nilsig" && bases[j].idx == b.run.failIdx {
			continue
		}
		sr, err := c06SigningRoot(roots[j], domain)
		if err != nil {
			return nil, err
		}
		sigs[j], err = bases[j].real().Sign(ctx, sr)
		if err != nil {
			return nil, err
		}
	}
	return sigs, nil
}

func c06AttestationRoot(slot uint64, committeeIndex uint64, blockRoot []byte, sourceEpoch uint64, sourceRoot []byte, targetEpoch uint64, targetRoot []byte) []byte {
	data := &phase0.AttestationData{
		Slot:   phase0.Slot(slot),
		Index:  phase0.CommitteeIndex(committeeIndex),
		Source: &phase0.Checkpoint{Epoch: phase0.Epoch(sourceEpoch)},
		Target: &phase0.Checkpoint{Epoch: phase0.Epoch(targetEpoch)},
	}
	copy(data.BeaconBlockRoot[:], blockRoot)
	copy(data.Source.Root[:], sourceRoot)
	copy(data.Target.Root[:], targetRoot)
	r, err := data.HashTreeRoot()
	if err != nil {
		return nil
	}
	return r[:]
}

// kind "plain": a local key (wallet account manager).
type c06Plain struct{ c06Base }

func (a *c06Plain) Sign(ctx context.Context, data []byte) (e2types.Signature, error) {
	return a.signPlain(ctx, data)
}

// kind "plain_dist": a local share of a distributed key; it signs with its own key.
type c06PlainDist struct {
	c06Base
	composite e2types.PublicKey
}

func (a *c06PlainDist) Sign(ctx context.Context, data []byte) (e2types.Signature, error) {
	return a.signPlain(ctx, data)
}
func (a *c06PlainDist) CompositePublicKey() e2types.PublicKey { return a.composite }
func (*c06PlainDist) SigningThreshold() uint32                { return 2 }
func (*c06PlainDist) Participants() map[uint64]string         { return map[uint64]string{1: "a:1", 2: "b:1", 3: "c:1"} }

// kind "prot": a Dirk account (AccountProtectingSigner + AccountProtectingMultiSigner, no Sign).
type c06Prot struct{ c06Base }

func (a *c06Prot) self() []e2wtypes.Account { return []e2wtypes.Account{a} }

func (a *c06Prot) SignGeneric(ctx context.Context, data []byte, domain []byte) (e2types.Signature, error) {
	return c06One(a.signProtected(ctx, "generic", a.self(), [][]byte{data}, domain))
}

func (a *c06Prot) SignBeaconProposal(ctx context.Context, slot uint64, proposerIndex uint64, parentRoot []byte, stateRoot []byte, bodyRoot []byte, domain []byte) (e2types.Signature, error) {
	return c06One(a.signProtected(ctx, "proposal", a.self(), [][]byte{c06HeaderRoot(slot, proposerIndex, parentRoot, stateRoot, bodyRoot)}, domain))
}

func (a *c06Prot) SignBeaconAttestation(ctx context.Context, slot uint64, committeeIndex uint64, blockRoot []byte, sourceEpoch uint64, sourceRoot []byte, targetEpoch uint64, targetRoot []byte, domain []byte) (e2types.Signature, error) {
	return c06One(a.signProtected(ctx, "attestation", a.self(), [][]byte{c06AttestationRoot(slot, committeeIndex, blockRoot, sourceEpoch, sourceRoot, targetEpoch, targetRoot)}, domain))
}

func (a *c06Prot) SignBeaconAttestations(ctx context.Context, slot uint64, accounts []e2wtypes.Account, committeeIndices []uint64, blockRoot []byte, sourceEpoch uint64, sourceRoot []byte, targetEpoch uint64, targetRoot []byte, domain []byte) ([]e2types.Signature, error) {
	roots := make([][]byte, 0, len(accounts))
	for j := range accounts {
		if j < len(committeeIndices) {
			roots = append(roots, c06AttestationRoot(slot, committeeIndices[j], blockRoot, sourceEpoch, sourceRoot, targetEpoch, targetRoot))
		}
	}
	return a.signProtected(ctx, "attestations", accounts, roots, domain)
}

func (a *c06Prot) SignGenericMulti(ctx context.Context, accounts []e2wtypes.Account, data [][]byte, domain []byte) ([]e2types.Signature, error) {
	return a.signProtected(ctx, "genericmulti", accounts, data, domain)
}

func c06One(sigs []e2types.Signature, err error) (e2types.Signature, error) {
	if err != nil {
		return nil, err
	}
	return sigs[0], nil
}

func c06HeaderRoot(slot uint64, proposerIndex uint64, parentRoot []byte, stateRoot []byte, bodyRoot []byte) []byte {
	h := &phase0.BeaconBlockHeader{Slot: phase0.Slot(slot), ProposerIndex: phase0.ValidatorIndex(proposerIndex)}
	copy(h.ParentRoot[:], parentRoot)
	copy(h.StateRoot[:], stateRoot)
	copy(h.BodyRoot[:], bodyRoot)
	r, err := h.HashTreeRoot()
	if err != nil {
		return nil
	}
	return r[:]
}

// kind "prot_dist": a Dirk distributed account.  PublicKey() is the share's key, the threshold
// signature that comes back belongs to the composite key (here: the real key of the account).
type c06ProtDist struct {
	c06Prot
	share e2types.PublicKey
}

func (a *c06ProtDist) self() []e2wtypes.Account { return []e2wtypes.Account{a} }
func (a *c06ProtDist) PublicKey() e2types.PublicKey          { return a.share }
func (a *c06ProtDist) CompositePublicKey() e2types.PublicKey { return a.c06Base.Account.PublicKey() }
func (*c06ProtDist) SigningThreshold() uint32                { return 2 }
func (*c06ProtDist) Participants() map[uint64]string         { return map[uint64]string{1: "a:1", 2: "b:1", 3: "c:1"} }

// the single-account calls of the embedded c06Prot would hand over the embedded value: redefine
// them so that the account the multi-signer sees is the distributed wrapper itself
func (a *c06ProtDist) SignGeneric(ctx context.Context, data []byte, domain []byte) (e2types.Signature, error) {
	return c06One(a.signProtected(ctx, "generic", a.self(), [][]byte{data}, domain))
}

func (a *c06ProtDist) SignBeaconProposal(ctx context.Context, slot uint64, proposerIndex uint64, parentRoot []byte, stateRoot []byte, bodyRoot []byte, domain []byte) (e2types.Signature, error) {
	return c06One(a.signProtected(ctx, "proposal", a.self(), [][]byte{c06HeaderRoot(slot, proposerIndex, parentRoot, stateRoot, bodyRoot)}, domain))
}

func (a *c06ProtDist) SignBeaconAttestation(ctx context.Context, slot uint64, committeeIndex uint64, blockRoot []byte, sourceEpoch uint64, sourceRoot []byte, targetEpoch uint64, targetRoot []byte, domain []byte) (e2types.Signature, error) {
	return c06One(a.signProtected(ctx, "attestation", a.self(), [][]byte{c06AttestationRoot(slot, committeeIndex, blockRoot, sourceEpoch, sourceRoot, targetEpoch, targetRoot)}, domain))
}

var (
	_ e2wtypes.AccountSigner                = (*c06Plain)(nil)
	_ e2wtypes.AccountSigner                = (*c06PlainDist)(nil)
	_ e2wtypes.DistributedAccount           = (*c06PlainDist)(nil)
	_ e2wtypes.AccountProtectingSigner      = (*c06Prot)(nil)
	_ e2wtypes.AccountProtectingMultiSigner = (*c06Prot)(nil)
	_ e2wtypes.AccountProtectingSigner      = (*c06ProtDist)(nil)
	_ e2wtypes.AccountProtectingMultiSigner = (*c06ProtDist)(nil)
	_ e2wtypes.DistributedAccount           = (*c06ProtDist)(nil)
)

// c06Keys creates real BLS accounts in an in-memory nd wallet (cheap keystore cost: the keys are
// test keys, key generation and decryption are not what is verified here).
func c06Keys(t *testing.T, n int) []e2wtypes.Account {
	t.Helper()
	ctx := context.Background()
	if err := e2types.InitBLS(); err != nil {
		t.Fatalf("InitBLS: %v", err)
	}
	store := scratch.New()
	wallet, err := nd.CreateWallet(ctx, "c06", store, keystorev4.New(keystorev4.WithCost(t, 4)))
	if err != nil {
		t.Fatalf("create wallet: %v", err)
	}
	if err := wallet.(e2wtypes.WalletLocker).Unlock(ctx, nil); err != nil {
		t.Fatalf("unlock wallet: %v", err)
	}
	res := make([]e2wtypes.Account, 0, n)
	for i := 0; i < n; i++ {
		acc, err := wallet.(e2wtypes.WalletAccountCreator).CreateAccount(ctx, fmt.Sprintf("key%d", i), []byte("pass"))
		if err != nil {
			t.Fatalf("create account: %v", err)
		}
		if err := acc.(e2wtypes.AccountLocker).Unlock(ctx, []byte("pass")); err != nil {
			t.Fatalf("unlock account: %v", err)
		}
		res = append(res, acc)
	}
	return res
}

// ---------------------------------------------------------------------------------------------
// consensus-spec containers filled by the driver

func c06Uint64Root(v uint64) phase0.Root {
	// hash_tree_root(uint64) = the little-endian value padded to one 32-byte chunk
	var r phase0.Root
	binary.LittleEndian.PutUint64(r[:8], v)
	return r
}

func c06RandRoot(rnd *rand.Rand) phase0.Root {
	var r phase0.Root
	rnd.Read(r[:])
	return r
}

func c06RandSig(rnd *rand.Rand) phase0.BLSSignature {
	var s phase0.BLSSignature
	rnd.Read(s[:])
	return s
}

// per-position value of a batch (committee index, subcommittee index, aggregator index)
func c06Variant(i int) uint64 { return uint64(3*i + 1) }

func TestVerifC06(t *testing.T) {
	var scenarios []c06Scenario
	verifsupport.Scenarios(t, &scenarios)
	tr := verifsupport.OpenTrace(t)
	defer tr.Close()
	ctx := context.Background()
	rnd := rand.New(rand.NewSource(verifsupport.Seed()))

	keys := c06Keys(t, 8) // 7 signing keys + 1 that plays "the other key" of distributed accounts
	other := keys[7].PublicKey()
	keys = keys[:7]

	for _, sc := range scenarios {
		for _, st := range sc.Steps {
			switch st.Ev {
			case "Reset":
				tr.Emit(verifsupport.Ev{"sc": sc.Sc, "ev": "Reset"})
			case "Call":
				c06Call(ctx, t, tr, rnd, sc.Sc, st, keys, other)
			default:
				t.Fatalf("unknown step %q", st.Ev)
			}
		}
	}
}

func c06Call(ctx context.Context, t *testing.T, tr *verifsupport.Trace, rnd *rand.Rand, scID int, st c06Step, keys []e2wtypes.Account, other e2types.PublicKey) {
	n := len(st.Kinds)
	if n > len(keys) {
		t.Fatalf("batch of %d exceeds the %d keys", n, len(keys))
	}
	tr.Emit(verifsupport.Ev{"sc": scID, "ev": "Call", "op": st.Op, "slot": st.Slot, "epoch": st.Epoch,
		"kinds": st.Kinds, "fail": st.Fail, "failidx": st.FailIdx})

	wantType, known := c06DomainTypes[st.Want.Type]
	if !known {
		t.Fatalf("specification names an unknown domain type %q", st.Want.Type)
	}
	run := &c06Run{tr: tr, sc: scID, fail: st.Fail, failIdx: st.FailIdx, roots: make([]phase0.Root, n)}
	if st.Want.Genesis {
		run.wantDomain = c06Domain(wantType, true, 0)
	} else {
		run.wantDomain = c06Domain(wantType, false, uint64(st.Want.Epoch))
	}

	domains := &c06Domains{tr: tr, sc: scID, fail: st.Fail == "domain"}
	s, err := New(ctx,
		WithLogLevel(zerolog.Disabled),
		WithMonitor(nullmetrics.New()),
		WithClientMonitor(nullmetrics.New()),
		WithSpecProvider(c06Spec{}),
		WithDomainProvider(domains),
	)
	if err != nil {
		t.Fatalf("signer New: %v", err)
	}

	// accounts: a seeded choice of which real key sits at which position
	perm := rnd.Perm(len(keys))
	accounts := make([]e2wtypes.Account, n)
	verKeys := make([]e2types.PublicKey, n)
	for i := 0; i < n; i++ {
		base := c06Base{Account: keys[perm[i]], run: run, idx: i + 1}
		switch st.Kinds[i] {
		case "plain":
			accounts[i] = &c06Plain{base}
		case "plain_dist":
			accounts[i] = &c06PlainDist{c06Base: base, composite: other}
		case "prot":
			accounts[i] = &c06Prot{base}
		case "prot_dist":
			accounts[i] = &c06ProtDist{c06Prot: c06Prot{base}, share: other}
		default:
			t.Fatalf("unknown kind %q", st.Kinds[i])
		}
		// the verification key the specification names for this position
		switch st.VerKeys[i] {
		case "own":
			verKeys[i] = accounts[i].PublicKey()
		case "composite":
			verKeys[i] = accounts[i].(e2wtypes.AccountCompositePublicKeyProvider).CompositePublicKey()
		default:
			t.Fatalf("unknown verification key %q", st.VerKeys[i])
		}
	}

	slot := phase0.Slot(st.Slot)
	blockRoot, sourceRoot, targetRoot := c06RandRoot(rnd), c06RandRoot(rnd), c06RandRoot(rnd)
	variant := func(i int) uint64 {
		if st.PerIndex {
			return c06Variant(i + 1)
		}
		return 0
	}
	mustRoot := func(r [32]byte, err error) phase0.Root {
		if err != nil {
			t.Fatalf("hash tree root: %v", err)
		}
		return r
	}

	var sigs []phase0.BLSSignature
	var callErr error
	single := func(sig phase0.BLSSignature, err error) {
		callErr = err
		if err == nil {
			sigs = []phase0.BLSSignature{sig}
		}
	}

	// fill the container the specification names, from the definitions of the consensus / builder
	// specifications, and make the call the operation stands for
	switch st.Op {
	case "attestation", "attestations":
		if st.Msg != "AttestationData" {
			t.Fatalf("container %q not known for %s", st.Msg, st.Op)
		}
		targetEpoch := phase0.Epoch(st.Slot / c06SlotsPerEpoch)
		sourceEpoch := phase0.Epoch(0)
		if targetEpoch > 0 {
			sourceEpoch = targetEpoch - 1
		}
		indices := make([]phase0.CommitteeIndex, n)
		for i := 0; i < n; i++ {
			indices[i] = phase0.CommitteeIndex(variant(i))
			data := &phase0.AttestationData{Slot: slot, Index: indices[i], BeaconBlockRoot: blockRoot,
				Source: &phase0.Checkpoint{Epoch: sourceEpoch, Root: sourceRoot},
				Target: &phase0.Checkpoint{Epoch: targetEpoch, Root: targetRoot}}
			run.roots[i] = mustRoot(data.HashTreeRoot())
		}
		if st.Op == "attestation" {
			single(s.SignBeaconAttestation(ctx, accounts[0], slot, indices[0], blockRoot, sourceEpoch, sourceRoot, targetEpoch, targetRoot))
		} else {
			sigs, callErr = s.SignBeaconAttestations(ctx, accounts, slot, indices, blockRoot, sourceEpoch, sourceRoot, targetEpoch, targetRoot)
		}
	case "proposal":
		if st.Msg != "BeaconBlockHeader" {
			t.Fatalf("container %q not known for %s", st.Msg, st.Op)
		}
		h := &phase0.BeaconBlockHeader{Slot: slot, ProposerIndex: phase0.ValidatorIndex(rnd.Intn(1 << 20)),
			ParentRoot: blockRoot, StateRoot: sourceRoot, BodyRoot: targetRoot}
		run.roots[0] = mustRoot(h.HashTreeRoot())
		single(s.SignBeaconBlockProposal(ctx, accounts[0], slot, h.ProposerIndex, h.ParentRoot, h.StateRoot, h.BodyRoot))
	case "randao":
		if st.Msg != "EpochUint64" {
			t.Fatalf("container %q not known for %s", st.Msg, st.Op)
		}
		run.roots[0] = c06Uint64Root(st.Slot / c06SlotsPerEpoch)
		single(s.SignRANDAOReveal(ctx, accounts[0], slot))
	case "slot_selection":
		if st.Msg != "SlotUint64" {
			t.Fatalf("container %q not known for %s", st.Msg, st.Op)
		}
		for i := 0; i < n; i++ {
			run.roots[i] = c06Uint64Root(st.Slot)
		}
		sigs, callErr = s.SignSlotSelections(ctx, accounts, slot)
	case "sync_selection":
		if st.Msg != "SyncAggregatorSelectionData" {
			t.Fatalf("container %q not known for %s", st.Msg, st.Op)
		}
		subs := make([]uint64, n)
		for i := 0; i < n; i++ {
			subs[i] = variant(i)
			run.roots[i] = mustRoot((&altair.SyncAggregatorSelectionData{Slot: slot, SubcommitteeIndex: subs[i]}).HashTreeRoot())
		}
		sigs, callErr = s.SignSyncCommitteeSelections(ctx, accounts, slot, subs)
	case "aggregate_and_proof":
		if st.Msg != "AggregateAndProof" {
			t.Fatalf("container %q not known for %s", st.Msg, st.Op)
		}
		bits := bitfield.NewBitlist(64)
		bits.SetBitAt(uint64(rnd.Intn(64)), true)
		ap := &phase0.AggregateAndProof{
			AggregatorIndex: phase0.ValidatorIndex(rnd.Intn(1 << 20)),
			Aggregate: &phase0.Attestation{AggregationBits: bits,
				Data: &phase0.AttestationData{Slot: slot, Index: 2, BeaconBlockRoot: blockRoot,
					Source: &phase0.Checkpoint{Epoch: 1, Root: sourceRoot},
					Target: &phase0.Checkpoint{Epoch: 2, Root: targetRoot}},
				Signature: c06RandSig(rnd)},
			SelectionProof: c06RandSig(rnd),
		}
		run.roots[0] = mustRoot(ap.HashTreeRoot())
		single(s.SignAggregateAndProof(ctx, accounts[0], slot, run.roots[0]))
	case "sync_root":
		if st.Msg != "BlockRoot" {
			t.Fatalf("container %q not known for %s", st.Msg, st.Op)
		}
		// hash_tree_root(Bytes32) is the value itself
		for i := 0; i < n; i++ {
			run.roots[i] = blockRoot
		}
		sigs, callErr = s.SignSyncCommitteeRoots(ctx, accounts, phase0.Epoch(st.Epoch), blockRoot)
	case "contribution":
		if st.Msg != "ContributionAndProof" {
			t.Fatalf("container %q not known for %s", st.Msg, st.Op)
		}
		caps := make([]*altair.ContributionAndProof, n)
		for i := 0; i < n; i++ {
			bits := bitfield.NewBitvector128()
			bits.SetBitAt(uint64(rnd.Intn(128)), true)
			caps[i] = &altair.ContributionAndProof{
				AggregatorIndex: phase0.ValidatorIndex(1000 + variant(i)),
				Contribution: &altair.SyncCommitteeContribution{Slot: slot, BeaconBlockRoot: blockRoot,
					SubcommitteeIndex: variant(i) % 4, AggregationBits: bits, Signature: c06RandSig(rnd)},
				SelectionProof: c06RandSig(rnd),
			}
			run.roots[i] = mustRoot(caps[i].HashTreeRoot())
		}
		sigs, callErr = s.SignContributionAndProofs(ctx, accounts, caps)
	case "registration":
		if st.Msg != "ValidatorRegistrationV1" {
			t.Fatalf("container %q not known for %s", st.Msg, st.Op)
		}
		reg := &builderapiv1.ValidatorRegistration{GasLimit: uint64(30000000 + rnd.Intn(1000)),
			Timestamp: time.Unix(int64(1700000000+rnd.Intn(100000)), 0)}
		var fee bellatrix.ExecutionAddress
		rnd.Read(fee[:])
		reg.FeeRecipient = fee
		copy(reg.Pubkey[:], verKeys[0].Marshal())
		run.roots[0] = mustRoot(reg.HashTreeRoot())
		single(s.SignValidatorRegistration(ctx, accounts[0], &builderapi.VersionedValidatorRegistration{Version: builderspec.BuilderVersionV1, V1: reg}))
	default:
		t.Fatalf("unknown operation %q", st.Op)
	}

	ev := verifsupport.Ev{"sc": scID, "ev": "Return", "ok": callErr == nil, "n": len(sigs)}
	verifies := make([]bool, len(sigs))
	zero := make([]bool, len(sigs))
	if callErr == nil {
		for i := range sigs {
			zero[i] = sigs[i] == phase0.BLSSignature{}
			if zero[i] || i >= n {
				continue
			}
			sig, err := e2types.BLSSignatureFromBytes(sigs[i][:])
			if err != nil {
				continue
			}
			want, err := c06SigningRoot(run.roots[i][:], run.wantDomain[:])
			if err != nil {
				t.Fatalf("signing root: %v", err)
			}
			verifies[i] = sig.Verify(want, verKeys[i])
		}
	}
	ev["verifies"] = verifies
	ev["zero"] = zero
	tr.Emit(ev)
}
