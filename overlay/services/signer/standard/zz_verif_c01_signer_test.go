package standard

// C01 (family signer): histories of spec/SignerBatch.tla replayed on the real signer service.  The accounts are
// fakes of the three kinds the account managers hand out (a wallet account that signs by itself, a Dirk account that
// can sign in batches, a distributed Dirk account); every request that reaches them is written to the trace BEFORE it
// is answered (a request that comes back as an error has still reached the signer), the replies are scripted by the
// history in the order the requests arrive.  Injected with go test -overlay.

import (
	"context"
	"errors"
	"math/rand"
	"sort"
	"sync"
	"testing"

	"github.com/attestantio/go-eth2-client/spec/phase0"
	"github.com/attestantio/vouch/mock"
	nullmetrics "github.com/attestantio/vouch/services/metrics/null"
	"github.com/attestantio/vouch/verifsupport"
	"github.com/rs/zerolog"
	e2types "github.com/wealdtech/go-eth2-types/v2"
	e2wtypes "github.com/wealdtech/go-eth2-wallet-types/v2"
)

type c01sStep struct {
	Ev    string            `json:"ev"`
	Kinds map[string]string `json:"kinds"`
	Accts []string          `json:"accts"`
	A     string            `json:"a"`
	Ok    bool              `json:"ok"`
	Err   bool              `json:"err"`
}

type c01sScenario struct {
	Sc    int        `json:"sc"`
	Steps []c01sStep `json:"steps"`
}

type c01sSignature struct{}

func (c01sSignature) Verify(_ []byte, _ e2types.PublicKey) bool                  { return true }
func (c01sSignature) VerifyAggregate(_ [][]byte, _ []e2types.PublicKey) bool     { return true }
func (c01sSignature) VerifyAggregateCommon(_ []byte, _ []e2types.PublicKey) bool { return true }
func (c01sSignature) Marshal() []byte {
	res := make([]byte, 96)
	res[0] = 0xc0
	return res
}

// c01sRemote is the signer behind the accounts: it writes every request to the trace and answers as scripted.
type c01sRemote struct {
	mu     sync.Mutex
	tr     *verifsupport.Trace
	sc     int
	script []bool // reply of the n-th request of the call (true: signs); requests beyond the script are signed
	n      int
}

func (r *c01sRemote) reply() bool {
	ok := true
	if r.n < len(r.script) {
		ok = r.script[r.n]
	}
	r.n++
	return ok
}

func c01sName(a e2wtypes.Account) string {
	switch x := a.(type) {
	case *c01sPlain:
		return x.name
	case *c01sMulti:
		return x.name
	case *c01sDist:
		return x.name
	}
	return "?"
}

// c01sPlain signs by itself only (wallet account).  The embedded interface is nil: the signer service uses none of it.
type c01sPlain struct {
	e2wtypes.Account
	name   string
	remote *c01sRemote
}

func (a *c01sPlain) SignGeneric(_ context.Context, _ []byte, _ []byte) (e2types.Signature, error) {
	return c01sSignature{}, nil
}

func (a *c01sPlain) SignBeaconProposal(_ context.Context, _ uint64, _ uint64, _ []byte, _ []byte, _ []byte, _ []byte) (e2types.Signature, error) {
	return c01sSignature{}, nil
}

func (a *c01sPlain) SignBeaconAttestation(_ context.Context, _ uint64, _ uint64, _ []byte, _ uint64, _ []byte, _ uint64, _ []byte, _ []byte) (e2types.Signature, error) {
	r := a.remote
	r.mu.Lock()
	defer r.mu.Unlock()
	ok := r.reply()
	r.tr.Emit(verifsupport.Ev{"sc": r.sc, "ev": "AskOne", "a": a.name, "ok": ok})
	if !ok {
		return nil, errors.New("scripted: the signer refuses")
	}
	return c01sSignature{}, nil
}

// c01sMulti can sign in batches (Dirk account).
type c01sMulti struct{ c01sPlain }

func (a *c01sMulti) SignBeaconAttestations(_ context.Context, _ uint64, accounts []e2wtypes.Account, _ []uint64, _ []byte, _ uint64, _ []byte, _ uint64, _ []byte, _ []byte) ([]e2types.Signature, error) {
	r := a.remote
	r.mu.Lock()
	defer r.mu.Unlock()
	names := make([]string, 0, len(accounts))
	for _, acc := range accounts {
		names = append(names, c01sName(acc))
	}
	sort.Strings(names)
	ok := r.reply()
	r.tr.Emit(verifsupport.Ev{"sc": r.sc, "ev": "AskBatch", "accts": names, "ok": ok})
	if !ok {
		return nil, errors.New("scripted: the batch request fails")
	}
	sigs := make([]e2types.Signature, len(accounts))
	for i := range sigs {
		sigs[i] = c01sSignature{}
	}
	return sigs, nil
}

func (a *c01sMulti) SignGenericMulti(_ context.Context, accounts []e2wtypes.Account, _ [][]byte, _ []byte) ([]e2types.Signature, error) {
	return make([]e2types.Signature, len(accounts)), nil
}

// c01sDist is a distributed Dirk account.
type c01sDist struct{ c01sMulti }

func (a *c01sDist) CompositePublicKey() e2types.PublicKey { return nil }
func (a *c01sDist) SigningThreshold() uint32              { return 2 }
func (a *c01sDist) Participants() map[uint64]string       { return map[uint64]string{1: "p1", 2: "p2", 3: "p3"} }

func TestVerifC01Signer(t *testing.T) {
	var scenarios []c01sScenario
	verifsupport.Scenarios(t, &scenarios)
	tr := verifsupport.OpenTrace(t)
	defer tr.Close()
	ctx := context.Background()

	s, err := New(ctx,
		WithLogLevel(zerolog.Disabled),
		WithMonitor(nullmetrics.New()),
		WithClientMonitor(nullmetrics.New()),
		WithSpecProvider(mock.NewSpecProvider()),
		WithDomainProvider(mock.NewDomainProvider()),
	)
	if err != nil {
		t.Fatalf("signer service: %v", err)
	}

	for _, sc := range scenarios {
		rnd := rand.New(rand.NewSource(verifsupport.Seed()*1000003 + int64(sc.Sc)))
		remote := &c01sRemote{tr: tr, sc: sc.Sc}
		accts := map[string]e2wtypes.Account{}
		epoch := uint64(10)
		for i := 0; i < len(sc.Steps); i++ {
			st := sc.Steps[i]
			switch st.Ev {
			case "Reset":
				accts = map[string]e2wtypes.Account{}
				for name, kind := range st.Kinds {
					base := c01sPlain{name: name, remote: remote}
					switch kind {
					case "plain":
						accts[name] = &base
					case "multi":
						accts[name] = &c01sMulti{base}
					case "dist":
						accts[name] = &c01sDist{c01sMulti{base}}
					default:
						t.Fatalf("scenario %d: unknown kind %q", sc.Sc, kind)
					}
				}
				tr.Emit(verifsupport.Ev{"sc": sc.Sc, "ev": "Reset", "kinds": st.Kinds})
			case "Call":
				// the replies of the call's requests, in the order the history gives them
				script := []bool{}
				for j := i + 1; j < len(sc.Steps) && (sc.Steps[j].Ev == "AskBatch" || sc.Steps[j].Ev == "AskOne"); j++ {
					script = append(script, sc.Steps[j].Ok)
				}
				names := append([]string{}, st.Accts...)
				rnd.Shuffle(len(names), func(a, b int) { names[a], names[b] = names[b], names[a] })
				list := make([]e2wtypes.Account, 0, len(names))
				committees := make([]phase0.CommitteeIndex, 0, len(names))
				for k, n := range names {
					list = append(list, accts[n])
					committees = append(committees, phase0.CommitteeIndex(k))
				}
				remote.mu.Lock()
				remote.script, remote.n = script, 0
				remote.mu.Unlock()
				sorted := append([]string{}, st.Accts...)
				sort.Strings(sorted)
				tr.Emit(verifsupport.Ev{"sc": sc.Sc, "ev": "Call", "accts": sorted})
				epoch++
				sigs, err := s.SignBeaconAttestations(ctx, list, phase0.Slot(epoch*32+3), committees, phase0.Root{0x01},
					phase0.Epoch(epoch-1), phase0.Root{0x02}, phase0.Epoch(epoch), phase0.Root{0x03})
				zero := 0
				for _, sig := range sigs {
					if sig.IsZero() {
						zero++
					}
				}
				tr.Emit(verifsupport.Ev{"sc": sc.Sc, "ev": "Return", "err": err != nil, "sigs": len(sigs), "zero": zero})
			case "AskBatch", "AskOne", "Return":
				// what the real service does with the call decides these; the history only scripts the replies
			default:
				t.Fatalf("scenario %d: unknown step %q", sc.Sc, st.Ev)
			}
		}
	}
}
