//go:build verif

package standard

import "sort"

// VerifC20BeaconBlockRootSlots is a read-only projection for property C20 (injected by /verif with
// -overlay, never committed): the slots that have an entry in beaconBlockRoots.
func (s *Service) VerifC20BeaconBlockRootSlots() []uint64 {
	s.beaconBlockRootsMu.Lock()
	defer s.beaconBlockRootsMu.Unlock()
	res := make([]uint64, 0, len(s.beaconBlockRoots))
	for slot := range s.beaconBlockRoots {
		res = append(res, uint64(slot))
	}
	sort.Slice(res, func(i, j int) bool { return res[i] < res[j] })
	return res
}
