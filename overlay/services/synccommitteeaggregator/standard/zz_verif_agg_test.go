package standard

// Conformance driver for pipeline (B) of spec/Aggregation.tla (run by checks/C15.py).  Injected with
// -overlay by /verif/check.
//
// Binding: the REAL synccommitteeaggregator/standard.Service built with New.  Scripted fakes at every
// interface Aggregate uses: beacon block root provider, sync committee contribution provider,
// contribution-and-proof signer (its signature encodes the account and the hash tree root of the
// message it was handed), submitter.  Each fake writes its trace line when the real code calls it,
// with the arguments it received (decoded) and the answer it gave; BSetRoot and BDone carry the
// service's beaconBlockRoots map, read under its mutex.

import (
	"context"
	"encoding/binary"
	"errors"
	"fmt"
	"math/rand"
	"sort"
	"testing"
	"time"

	"github.com/attestantio/go-eth2-client/api"
	"github.com/attestantio/go-eth2-client/spec/altair"
	"github.com/attestantio/go-eth2-client/spec/phase0"
	nullmetrics "github.com/attestantio/vouch/services/metrics/null"
	"github.com/attestantio/vouch/services/synccommitteeaggregator"
	"github.com/attestantio/vouch/verifsupport"
	"github.com/prysmaticlabs/go-bitfield"
	"github.com/rs/zerolog"
	e2types "github.com/wealdtech/go-eth2-types/v2"
	e2wtypes "github.com/wealdtech/go-eth2-wallet-types/v2"
)

type aggPair struct {
	V   uint64 `json:"v"`
	Sub uint64 `json:"sub"`
}

type aggDuty struct {
	Slot   uint64    `json:"slot"`
	Sel    []aggPair `json:"sel"`
	NoAcct []uint64  `json:"noacct"`
}

type aggStep struct {
	Ev   string    `json:"ev"`
	Spe  uint64    `json:"spe"`
	Head uint64    `json:"head"`
	Slot uint64    `json:"slot"`
	Root uint64    `json:"root"`
	Duty *aggDuty  `json:"duty"`
	Sub  uint64    `json:"sub"`
	Err  bool      `json:"err"`
	N    uint64    `json:"n"`
	Zero []aggPair `json:"zero"`
	Ok   bool      `json:"ok"`
}

type aggScenario struct {
	Sc    int       `json:"sc"`
	Steps []aggStep `json:"steps"`
}

// ---- self-describing values ---------------------------------------------------------------------

func aggRoot(id uint64) phase0.Root {
	var r phase0.Root
	binary.LittleEndian.PutUint64(r[0:8], id)
	r[31] = 0xb4
	return r
}

func aggRootID(r phase0.Root) uint64 {
	if r[31] != 0xb4 {
		return 0
	}
	return binary.LittleEndian.Uint64(r[0:8])
}

func aggSelSig(v, sub, slot uint64) phase0.BLSSignature {
	var s phase0.BLSSignature
	s[0] = 0x5b
	binary.LittleEndian.PutUint64(s[1:9], v)
	binary.LittleEndian.PutUint64(s[9:17], sub)
	binary.LittleEndian.PutUint64(s[17:25], slot)
	return s
}

func aggSelSigEv(s phase0.BLSSignature) verifsupport.Ev {
	if s[0] != 0x5b {
		return verifsupport.Ev{"v": 0, "sub": 0, "slot": 0}
	}
	return verifsupport.Ev{"v": binary.LittleEndian.Uint64(s[1:9]), "sub": binary.LittleEndian.Uint64(s[9:17]),
		"slot": binary.LittleEndian.Uint64(s[17:25])}
}

// aggContribution is the n-th contribution the node has for (slot, subcommittee, root).
func aggContribution(slot phase0.Slot, sub uint64, root phase0.Root, n uint64) *altair.SyncCommitteeContribution {
	bits := bitfield.NewBitvector128()
	for i := uint64(0); i < n && i < 128; i++ {
		bits.SetBitAt(i, true)
	}
	c := &altair.SyncCommitteeContribution{Slot: slot, BeaconBlockRoot: root, SubcommitteeIndex: sub, AggregationBits: bits}
	c.Signature[0] = 0xb6
	binary.LittleEndian.PutUint64(c.Signature[1:9], n)
	return c
}

func aggNoContribEv() verifsupport.Ev { return verifsupport.Ev{"slot": 0, "sub": 0, "root": 0, "n": 0} }

func aggContributionEv(c *altair.SyncCommitteeContribution) verifsupport.Ev {
	if c == nil || c.Signature[0] != 0xb6 {
		return aggNoContribEv()
	}
	n := binary.LittleEndian.Uint64(c.Signature[1:9])
	if c.AggregationBits.Count() != n {
		return aggNoContribEv()
	}
	return verifsupport.Ev{"slot": uint64(c.Slot), "sub": c.SubcommitteeIndex, "root": aggRootID(c.BeaconBlockRoot), "n": n}
}

func aggNoMsgEv() verifsupport.Ev {
	return verifsupport.Ev{"v": 0, "contrib": aggNoContribEv(), "proof": verifsupport.Ev{"v": 0, "sub": 0, "slot": 0}}
}

func aggMsgEv(m *altair.ContributionAndProof) verifsupport.Ev {
	if m == nil {
		return aggNoMsgEv()
	}
	return verifsupport.Ev{"v": uint64(m.AggregatorIndex), "contrib": aggContributionEv(m.Contribution), "proof": aggSelSigEv(m.SelectionProof)}
}

// ---- accounts -------------------------------------------------------------------------------------

type aggPubKey struct{ b [48]byte }

func (p *aggPubKey) Marshal() []byte            { return p.b[:] }
func (*aggPubKey) Aggregate(_ e2types.PublicKey) {}
func (p *aggPubKey) Copy() e2types.PublicKey    { c := *p; return &c }

// aggAccount is an inert account: the scripted signer only needs to know whose it is (the embedded nil
// interface supplies ID, which nothing in the code under test calls).
type aggAccount struct {
	e2wtypes.Account
	index uint64
	pub   *aggPubKey
}

func (a *aggAccount) Name() string                 { return fmt.Sprintf("agg validator %d", a.index) }
func (a *aggAccount) PublicKey() e2types.PublicKey { return a.pub }

func aggNewAccount(v uint64) *aggAccount {
	a := &aggAccount{index: v, pub: &aggPubKey{}}
	binary.LittleEndian.PutUint64(a.pub.b[:8], v)
	return a
}

// ---- the world: scripted fakes that record -----------------------------------------------------

type aggScript struct {
	headErr  bool
	fetchErr map[uint64]bool   // by subcommittee
	fetchN   map[uint64]uint64 // by subcommittee
	signErr  bool
	zero     map[aggPair]bool
	submitOK bool
}

type aggWorld struct {
	sc         int
	tr         *verifsupport.Trace
	head       uint64
	script     aggScript
	signedOver map[phase0.Root]verifsupport.Ev
}

func (w *aggWorld) emit(ev verifsupport.Ev) {
	ev["sc"] = w.sc
	w.tr.Emit(ev)
}

func (w *aggWorld) BeaconBlockRoot(_ context.Context, opts *api.BeaconBlockRootOpts) (*api.Response[*phase0.Root], error) {
	ev := verifsupport.Ev{"ev": "BHeadRoot", "block": opts.Block}
	if w.script.headErr {
		ev["res"] = verifsupport.Ev{"err": true, "root": 0}
		w.emit(ev)
		return nil, errors.New("agg: scripted: no head root")
	}
	r := aggRoot(w.head)
	ev["res"] = verifsupport.Ev{"err": false, "root": w.head}
	w.emit(ev)
	return &api.Response[*phase0.Root]{Data: &r, Metadata: map[string]any{}}, nil
}

func (w *aggWorld) SyncCommitteeContribution(_ context.Context, opts *api.SyncCommitteeContributionOpts) (*api.Response[*altair.SyncCommitteeContribution], error) {
	ev := verifsupport.Ev{"ev": "BFetch", "slot": uint64(opts.Slot), "sub": opts.SubcommitteeIndex, "root": aggRootID(opts.BeaconBlockRoot)}
	if w.script.fetchErr[opts.SubcommitteeIndex] {
		ev["res"] = verifsupport.Ev{"err": true, "c": aggNoContribEv()}
		w.emit(ev)
		return nil, errors.New("agg: scripted: no contribution")
	}
	n, ok := w.script.fetchN[opts.SubcommitteeIndex]
	if !ok || n == 0 {
		n = 1
	}
	c := aggContribution(opts.Slot, opts.SubcommitteeIndex, opts.BeaconBlockRoot, n)
	ev["res"] = verifsupport.Ev{"err": false, "c": aggContributionEv(c)}
	w.emit(ev)
	return &api.Response[*altair.SyncCommitteeContribution]{Data: c, Metadata: map[string]any{}}, nil
}

func aggSig(acct uint64, root phase0.Root) phase0.BLSSignature {
	var s phase0.BLSSignature
	s[0] = 0xb5
	binary.LittleEndian.PutUint64(s[1:9], acct)
	copy(s[9:41], root[:])
	return s
}

func (w *aggWorld) sigEv(s phase0.BLSSignature) verifsupport.Ev {
	if s.IsZero() {
		return verifsupport.Ev{"z": true, "acct": 0, "over": aggNoMsgEv()}
	}
	if s[0] != 0xb5 {
		return verifsupport.Ev{"z": false, "acct": 0, "over": aggNoMsgEv()}
	}
	var root phase0.Root
	copy(root[:], s[9:41])
	over, ok := w.signedOver[root]
	if !ok {
		over = aggNoMsgEv()
	}
	return verifsupport.Ev{"z": false, "acct": binary.LittleEndian.Uint64(s[1:9]), "over": over}
}

func (w *aggWorld) SignContributionAndProofs(_ context.Context, accounts []e2wtypes.Account, msgs []*altair.ContributionAndProof) ([]phase0.BLSSignature, error) {
	n := len(accounts)
	if len(msgs) > n {
		n = len(msgs)
	}
	// Like the real signer: a request whose two lists do not match is refused as a whole.  The trace
	// still shows the request position by position (account 0 / empty message where a list is short).
	refuse := w.script.signErr || len(accounts) != len(msgs)
	sigs := make([]phase0.BLSSignature, len(msgs))
	reqs := make([]verifsupport.Ev, 0, n)
	for i := 0; i < n; i++ {
		acct := uint64(0)
		if i < len(accounts) {
			if a, ok := accounts[i].(*aggAccount); ok && a != nil {
				acct = a.index
			}
		}
		var m *altair.ContributionAndProof
		if i < len(msgs) {
			m = msgs[i]
		}
		mev := aggMsgEv(m)
		var sig phase0.BLSSignature
		if !refuse && m != nil {
			pair := aggPair{V: uint64(m.AggregatorIndex)}
			if m.Contribution != nil {
				pair.Sub = m.Contribution.SubcommitteeIndex
			}
			if !w.script.zero[pair] {
				root, err := m.HashTreeRoot()
				if err == nil {
					w.signedOver[phase0.Root(root)] = mev
					sig = aggSig(acct, phase0.Root(root))
				}
			}
			sigs[i] = sig
		}
		reqs = append(reqs, verifsupport.Ev{"acct": acct, "msg": mev, "sig": w.sigEv(sig)})
	}
	w.emit(verifsupport.Ev{"ev": "BSign", "reqs": reqs, "err": refuse, "naccts": len(accounts), "nmsgs": len(msgs)})
	if refuse {
		return []phase0.BLSSignature{}, errors.New("agg: scripted: signer unavailable")
	}
	return sigs, nil
}

func (w *aggWorld) SubmitSyncCommitteeContributions(_ context.Context, cps []*altair.SignedContributionAndProof) error {
	payload := make([]verifsupport.Ev, 0, len(cps))
	for _, c := range cps {
		if c == nil {
			payload = append(payload, verifsupport.Ev{"msg": aggNoMsgEv(), "sig": w.sigEv(phase0.BLSSignature{})})
			continue
		}
		// The message as it is NOW: if it was altered after signing, it is no longer what the signature is over.
		payload = append(payload, verifsupport.Ev{"msg": aggMsgEv(c.Message), "sig": w.sigEv(c.Signature)})
	}
	w.emit(verifsupport.Ev{"ev": "BSubmit", "payload": payload, "ok": w.script.submitOK})
	if !w.script.submitOK {
		return errors.New("agg: scripted: submission refused")
	}
	return nil
}

func (*aggWorld) ValidatingAccountsForEpoch(_ context.Context, _ phase0.Epoch) (map[phase0.ValidatorIndex]e2wtypes.Account, error) {
	return nil, errors.New("agg: not scripted")
}

func (*aggWorld) ValidatingAccountsForEpochByIndex(_ context.Context, _ phase0.Epoch, _ []phase0.ValidatorIndex) (map[phase0.ValidatorIndex]e2wtypes.Account, error) {
	return nil, errors.New("agg: not scripted")
}

func (*aggWorld) SyncCommitteeAccountsForEpoch(_ context.Context, _ phase0.Epoch) (map[phase0.ValidatorIndex]e2wtypes.Account, error) {
	return nil, errors.New("agg: not scripted")
}

func (*aggWorld) SyncCommitteeAccountsForEpochByIndex(_ context.Context, _ phase0.Epoch, _ []phase0.ValidatorIndex) (map[phase0.ValidatorIndex]e2wtypes.Account, error) {
	return nil, errors.New("agg: not scripted")
}

type aggSpec struct{ spe uint64 }

func (s *aggSpec) Spec(_ context.Context, _ *api.SpecOpts) (*api.Response[map[string]any], error) {
	return &api.Response[map[string]any]{
		Data: map[string]any{
			"SECONDS_PER_SLOT":                         12 * time.Second,
			"SLOTS_PER_EPOCH":                          s.spe,
			"SYNC_COMMITTEE_SIZE":                      uint64(512),
			"SYNC_COMMITTEE_SUBNET_COUNT":              uint64(4),
			"TARGET_AGGREGATORS_PER_SYNC_SUBCOMMITTEE": uint64(16),
		},
		Metadata: map[string]any{},
	}, nil
}

// aggRemembered is the projection of the service's remembered roots.
func aggRemembered(s *Service) []verifsupport.Ev {
	s.beaconBlockRootsMu.Lock()
	defer s.beaconBlockRootsMu.Unlock()
	res := make([]verifsupport.Ev, 0, len(s.beaconBlockRoots))
	slots := make([]uint64, 0, len(s.beaconBlockRoots))
	for slot := range s.beaconBlockRoots {
		slots = append(slots, uint64(slot))
	}
	sort.Slice(slots, func(i, j int) bool { return slots[i] < slots[j] })
	for _, slot := range slots {
		res = append(res, verifsupport.Ev{"slot": slot, "root": aggRootID(s.beaconBlockRoots[phase0.Slot(slot)])})
	}
	return res
}

// aggScriptFor collects the answers the fakes give during the job that starts at steps[i].
func aggScriptFor(steps []aggStep, i int, vOff uint64) aggScript {
	sc := aggScript{fetchErr: map[uint64]bool{}, fetchN: map[uint64]uint64{}, zero: map[aggPair]bool{}, submitOK: true}
	for _, st := range steps[i+1:] {
		switch st.Ev {
		case "BHeadRoot":
			sc.headErr = st.Err
		case "BFetch":
			sc.fetchErr[st.Sub] = st.Err
			sc.fetchN[st.Sub] = st.N
		case "BSign":
			sc.signErr = st.Err
			for _, p := range st.Zero {
				sc.zero[aggPair{V: p.V + vOff, Sub: p.Sub}] = true
			}
		case "BSubmit":
			sc.submitOK = st.Ok
		case "BDone", "BStart":
			return sc
		}
	}
	return sc
}

func TestVerifAggB(t *testing.T) {
	var scenarios []aggScenario
	verifsupport.Scenarios(t, &scenarios)
	tr := verifsupport.OpenTrace(t)
	defer tr.Close()
	ctx := context.Background()

	for _, sc := range scenarios {
		rng := rand.New(rand.NewSource(verifsupport.Seed()*7907 + int64(sc.Sc)))
		if len(sc.Steps) == 0 || sc.Steps[0].Ev != "Reset" {
			t.Fatalf("scenario %d does not start with Reset", sc.Sc)
		}
		spe := sc.Steps[0].Spe
		// The scenario's numbers are shifted to a seeded far-away slot, validator and root range.
		slotOff := spe * uint64(rng.Intn(200000))
		vOff := uint64(rng.Intn(1000000))
		rootOff := uint64(rng.Intn(1000000))

		w := &aggWorld{sc: sc.Sc, tr: tr, head: sc.Steps[0].Head + rootOff, signedOver: map[phase0.Root]verifsupport.Ev{}}
		ct := verifsupport.NewChainTime(spe, 12*time.Second)
		svc, err := New(ctx,
			WithLogLevel(zerolog.Disabled),
			WithMonitor(nullmetrics.New()),
			WithSpecProvider(&aggSpec{spe: spe}),
			WithBeaconBlockRootProvider(w),
			WithContributionAndProofSigner(w),
			WithValidatingAccountsProvider(w),
			WithSyncCommitteeContributionProvider(w),
			WithSyncCommitteeContributionsSubmitter(w),
			WithChainTime(ct),
		)
		if err != nil {
			t.Fatalf("scenario %d: New: %v", sc.Sc, err)
		}
		w.emit(verifsupport.Ev{"ev": "Reset", "pipeline": "B", "spe": spe, "head": w.head, "slotoff": slotOff, "voff": vOff})

		for i, st := range sc.Steps {
			switch st.Ev {
			case "BSetRoot":
				// What the messenger does when it has obtained the head root for the slot's messages.
				svc.SetBeaconBlockRoot(phase0.Slot(st.Slot+slotOff), aggRoot(st.Root+rootOff))
				w.emit(verifsupport.Ev{"ev": "BSetRoot", "slot": st.Slot + slotOff, "root": st.Root + rootOff, "rem": aggRemembered(svc)})
			case "BNewHead":
				w.head = st.Root + rootOff
				w.emit(verifsupport.Ev{"ev": "BNewHead", "root": w.head})
			case "BStart":
				slot := st.Duty.Slot + slotOff
				noacct := map[uint64]bool{}
				noacctEv := make([]uint64, 0)
				for _, v := range st.Duty.NoAcct {
					noacct[v+vOff] = true
					noacctEv = append(noacctEv, v+vOff)
				}
				// The duty the controller's aggregation job carries (synccommitteemessenger.go messageSyncCommittee):
				// the selected validators in ascending order (seeded: sometimes descending), their selection proofs
				// per subcommittee, and the accounts of the messenger's duty.
				pairs := append([]aggPair{}, st.Duty.Sel...)
				sort.Slice(pairs, func(a, b int) bool {
					if pairs[a].V != pairs[b].V {
						return pairs[a].V < pairs[b].V
					}
					return pairs[a].Sub < pairs[b].Sub
				})
				duty := &synccommitteeaggregator.Duty{
					Slot:             phase0.Slot(slot),
					ValidatorIndices: make([]phase0.ValidatorIndex, 0),
					SelectionProofs:  map[phase0.ValidatorIndex]map[uint64]phase0.BLSSignature{},
					Accounts:         map[phase0.ValidatorIndex]e2wtypes.Account{},
				}
				selEv := make([]verifsupport.Ev, 0, len(pairs))
				for _, p := range pairs {
					v := phase0.ValidatorIndex(p.V + vOff)
					if _, ok := duty.SelectionProofs[v]; !ok {
						duty.SelectionProofs[v] = map[uint64]phase0.BLSSignature{}
						duty.ValidatorIndices = append(duty.ValidatorIndices, v)
						if !noacct[uint64(v)] {
							duty.Accounts[v] = aggNewAccount(uint64(v))
						}
					}
					duty.SelectionProofs[v][p.Sub] = aggSelSig(uint64(v), p.Sub, slot)
					selEv = append(selEv, verifsupport.Ev{"v": uint64(v), "sub": p.Sub})
				}
				if rng.Intn(2) == 1 {
					for a, b := 0, len(duty.ValidatorIndices)-1; a < b; a, b = a+1, b-1 {
						duty.ValidatorIndices[a], duty.ValidatorIndices[b] = duty.ValidatorIndices[b], duty.ValidatorIndices[a]
					}
				}
				w.script = aggScriptFor(sc.Steps, i, vOff)
				ct.SetSlot(slot)
				w.emit(verifsupport.Ev{"ev": "BStart", "duty": verifsupport.Ev{"slot": slot, "sel": selEv, "noacct": noacctEv},
					"rem": aggRemembered(svc)})
				crashed := func() (crashed bool) {
					defer func() {
						if r := recover(); r != nil {
							crashed = true
							w.emit(verifsupport.Ev{"ev": "Crash", "what": fmt.Sprint(r)})
						}
					}()
					svc.Aggregate(ctx, duty)
					return false
				}()
				if !crashed {
					w.emit(verifsupport.Ev{"ev": "BDone", "rem": aggRemembered(svc)})
				}
			}
		}
	}
}
