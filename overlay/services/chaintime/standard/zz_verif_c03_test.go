package standard

// Conformance driver for property C03, chain-time part (spec/ChainTime.tla, Trace_ChainTime.tla).
// Injected with -overlay by /verif/check; builds the real chaintime service over a parameter sweep.

import (
	"context"
	"math/rand"
	"testing"
	"time"

	"github.com/attestantio/go-eth2-client/api"
	apiv1 "github.com/attestantio/go-eth2-client/api/v1"
	"github.com/attestantio/go-eth2-client/spec/phase0"
	"github.com/attestantio/vouch/verifsupport"
	"github.com/rs/zerolog"
)

type c03ctStep struct {
	Ev    string `json:"ev"`
	D     int64  `json:"d"`
	P     uint64 `json:"p"`
	GK    int64  `json:"gk"`
	N     uint64 `json:"n"`
	Count int    `json:"count"`
}

type c03ctScenario struct {
	Sc    int         `json:"sc"`
	Steps []c03ctStep `json:"steps"`
}

type c03ctGenesis struct{ t time.Time }

func (g *c03ctGenesis) Genesis(_ context.Context, _ *api.GenesisOpts) (*api.Response[*apiv1.Genesis], error) {
	return &api.Response[*apiv1.Genesis]{Data: &apiv1.Genesis{GenesisTime: g.t}, Metadata: map[string]any{}}, nil
}

type c03ctSpec struct {
	d time.Duration
	p uint64
}

func (s *c03ctSpec) Spec(_ context.Context, _ *api.SpecOpts) (*api.Response[map[string]any], error) {
	return &api.Response[map[string]any]{
		Data:     map[string]any{"SECONDS_PER_SLOT": s.d, "SLOTS_PER_EPOCH": s.p},
		Metadata: map[string]any{},
	}, nil
}

func TestVerifC03ChainTime(t *testing.T) {
	var scenarios []c03ctScenario
	verifsupport.Scenarios(t, &scenarios)
	tr := verifsupport.OpenTrace(t)
	defer tr.Close()
	ctx := context.Background()
	// Reference instant: every logged time is whole seconds relative to it.
	t0 := time.Now().Truncate(time.Second)
	rel := func(x time.Time) int64 {
		d := x.Sub(t0)
		s := int64(d / time.Second)
		if d < 0 && d%time.Second != 0 {
			s-- // floor
		}
		return s
	}

	for _, sc := range scenarios {
		var s *Service
		var d int64
		var p uint64
		rng := rand.New(rand.NewSource(verifsupport.Seed()*7919 + int64(sc.Sc)))
		conv := func(n uint64) {
			ev := verifsupport.Ev{"sc": sc.Sc, "ev": "Conv", "n": n,
				"sos": rel(s.StartOfSlot(phase0.Slot(n))),
				"ste": uint64(s.SlotToEpoch(phase0.Slot(n))),
			}
			// Epoch-side conversions only while the resulting numbers stay below 2^30.
			if n*p*uint64(d) < 1<<30 {
				ev["e"] = true
				ev["soe"] = rel(s.StartOfEpoch(phase0.Epoch(n)))
				ev["fsoe"] = uint64(s.FirstSlotOfEpoch(phase0.Epoch(n)))
				// Compositions computed by the real code.
				ev["ste_fsoe"] = uint64(s.SlotToEpoch(s.FirstSlotOfEpoch(phase0.Epoch(n))))
				ev["sos_fsoe"] = rel(s.StartOfSlot(s.FirstSlotOfEpoch(phase0.Epoch(n))))
			} else {
				ev["e"] = false
			}
			tr.Emit(ev)
		}
		for _, st := range sc.Steps {
			switch st.Ev {
			case "Reset":
				d, p = st.D, st.P
				// Genesis gk slots and half a slot before the reference instant (whole seconds);
				// negative gk: genesis in the future.
				g := t0.Add(-time.Duration(st.GK*d)*time.Second - time.Duration(d/2)*time.Second)
				var err error
				s, err = New(ctx,
					WithLogLevel(zerolog.Disabled),
					WithGenesisProvider(&c03ctGenesis{t: g}),
					WithSpecProvider(&c03ctSpec{d: time.Duration(d) * time.Second, p: p}),
				)
				if err != nil {
					t.Fatalf("chaintime New: %v", err)
				}
				if !s.GenesisTime().Equal(g) {
					t.Fatalf("genesis time not taken over")
				}
				tr.Emit(verifsupport.Ev{"sc": sc.Sc, "ev": "Reset", "d": d, "p": p, "g": rel(g)})
			case "Conv":
				conv(st.N)
			case "Random":
				for i := 0; i < st.Count; i++ {
					max := uint64(1<<30) / uint64(d)
					if i%2 == 0 {
						max = uint64(1<<30) / (uint64(d) * p)
					}
					conv(uint64(rng.Int63n(int64(max))))
				}
			case "Now":
				tb := rel(time.Now())
				slot := s.CurrentSlot()
				ta := rel(time.Now())
				tr.Emit(verifsupport.Ev{"sc": sc.Sc, "ev": "Now", "what": "slot", "v": uint64(slot), "tb": tb, "ta": ta})
				tb = rel(time.Now())
				epoch := s.CurrentEpoch()
				ta = rel(time.Now())
				tr.Emit(verifsupport.Ev{"sc": sc.Sc, "ev": "Now", "what": "epoch", "v": uint64(epoch), "tb": tb, "ta": ta})
			default:
				t.Fatalf("unknown step %q", st.Ev)
			}
		}
	}
}
