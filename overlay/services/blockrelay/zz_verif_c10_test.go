package blockrelay

// Conformance driver for property C10 (spec/ExecConfig.tla).  Injected with -overlay by /verif/check.
//
// A scenario is an abstract execution configuration document (optional fields at every level; values
// are tokens for the scenarios TLC enumerates, or generated here for the seeded random scenarios)
// followed by Lookup and RoundTrip steps.  The driver renders the document to real JSON, hands it
// to the real UnmarshalJSON (version dispatch), calls the real ProposerConfig and the real
// marshal/unmarshal round trip and logs what came back; TLC judges the log against ExecConfig.tla.

import (
	"context"
	"encoding/hex"
	"encoding/json"
	"fmt"
	"math/big"
	"math/rand"
	"regexp"
	"sort"
	"strconv"
	"strings"
	"testing"
	"time"

	"github.com/attestantio/go-eth2-client/spec/bellatrix"
	"github.com/attestantio/go-eth2-client/spec/phase0"
	"github.com/attestantio/vouch/services/beaconblockproposer"
	"github.com/attestantio/vouch/verifsupport"
	e2wtypes "github.com/wealdtech/go-eth2-wallet-types/v2"
)

type c10Obj = map[string]any

type c10Step struct {
	Ev  string            `json:"ev"`
	Cfg c10Obj            `json:"cfg"`
	Fb  map[string]string `json:"fb"`
	V   map[string]string `json:"v"`
	Idx int               `json:"idx"`
}

type c10Scenario struct {
	Sc    int       `json:"sc"`
	Steps []c10Step `json:"steps"`
}

// ---------------------------------------------------------------------------------------------
// fake wallet and account (ProposerConfig only asks for the names)

// The interfaces are embedded (nil) so that the fakes have the full method sets without this file
// importing modules the repository only requires indirectly; ProposerConfig calls Name() and Wallet() only.
type c10Wallet struct {
	e2wtypes.Wallet
	name string
}

func (w *c10Wallet) Name() string { return w.name }

type c10Account struct {
	e2wtypes.Account
	wallet *c10Wallet
	name   string
}

func (a *c10Account) Name() string            { return a.name }
func (a *c10Account) Wallet() e2wtypes.Wallet { return a.wallet }

type c10Validator struct {
	id      string
	pubkey  string // canonical: 0x + lower-case hex
	wallet  string
	account string
}

func (v *c10Validator) name() string { return v.wallet + "/" + v.account }

// ---------------------------------------------------------------------------------------------
// account patterns: a structured description from which both the regular expression text and an
// independent full-match decision are derived (the oracle for "which validators an entry matches"
// must not be the code under test)

type c10Piece struct {
	kind string // lit, any, class, opt
	s    string
}

type c10Pattern struct {
	pre, post bool // explicit ^ / $ in the text
	pieces    []c10Piece
}

func (p *c10Pattern) text() string {
	var b strings.Builder
	if p.pre {
		b.WriteString("^")
	}
	for _, pc := range p.pieces {
		switch pc.kind {
		case "lit":
			b.WriteString(regexp.QuoteMeta(pc.s))
		case "any":
			b.WriteString(".*")
		case "class":
			b.WriteString("[" + pc.s + "]")
		case "opt":
			b.WriteString(regexp.QuoteMeta(pc.s) + "?")
		}
	}
	if p.post {
		b.WriteString("$")
	}
	return b.String()
}

func c10Full(pieces []c10Piece, s string) bool {
	if len(pieces) == 0 {
		return s == ""
	}
	pc, rest := pieces[0], pieces[1:]
	switch pc.kind {
	case "lit":
		return strings.HasPrefix(s, pc.s) && c10Full(rest, s[len(pc.s):])
	case "any":
		for i := 0; i <= len(s); i++ {
			if c10Full(rest, s[i:]) {
				return true
			}
		}
		return false
	case "class":
		return len(s) > 0 && c10InClass(pc.s, s[0]) && c10Full(rest, s[1:])
	case "opt":
		if strings.HasPrefix(s, pc.s) && c10Full(rest, s[len(pc.s):]) {
			return true
		}
		return c10Full(rest, s)
	}
	return false
}

// c10InClass: members of a character class written as single characters and a-b ranges.
func c10InClass(class string, c byte) bool {
	for i := 0; i < len(class); i++ {
		if i+2 < len(class) && class[i+1] == '-' {
			if class[i] <= c && c <= class[i+2] {
				return true
			}
			i += 2
			continue
		}
		if class[i] == c {
			return true
		}
	}
	return false
}

func c10Alnum(c byte) bool {
	return c >= '0' && c <= '9' || c >= 'a' && c <= 'z' || c >= 'A' && c <= 'Z'
}

// the documented meaning: the pattern is implicitly anchored at both ends
func (p *c10Pattern) matches(name string) bool { return c10Full(p.pieces, name) }

func c10Lit(s string) c10Piece   { return c10Piece{"lit", s} }
func c10Any() c10Piece           { return c10Piece{"any", ""} }
func c10Class(s string) c10Piece { return c10Piece{"class", s} }
func c10Opt(s string) c10Piece   { return c10Piece{"opt", s} }

// ---------------------------------------------------------------------------------------------
// values: canonical string (what the specification sees) and JSON text (what the code parses)

type c10World struct {
	rnd    *rand.Rand
	text   map[string]map[string]string // field -> canonical -> text in the document
	tok    map[string]string            // field/token -> canonical
	vals   map[string]*c10Validator
	order  []string
	widen  bool // wide value shapes (18-decimal minimum values, huge gas limits, ...)
	relays map[string]string
}

func c10NewWorld(seed int64, widen bool) *c10World {
	return &c10World{
		rnd:    rand.New(rand.NewSource(seed)),
		text:   map[string]map[string]string{},
		tok:    map[string]string{},
		vals:   map[string]*c10Validator{},
		widen:  widen,
		relays: map[string]string{},
	}
}

func (w *c10World) hexBytes(n int) []byte {
	b := make([]byte, n)
	for i := range b {
		b[i] = byte(w.rnd.Intn(256))
	}
	if b[0] == 0 {
		b[0] = 1
	}
	return b
}

func (w *c10World) hexText(canon string) string {
	// hex digits in either case are the same value; the 0x prefix stays as documented
	if w.rnd.Intn(4) == 0 {
		return "0x" + strings.ToUpper(canon[2:])
	}
	return canon
}

var c10WeiPerEth = new(big.Int).Exp(big.NewInt(10), big.NewInt(18), nil)

// c10EthText renders a wei amount as the Ether decimal the configuration file uses.
func (w *c10World) ethText(wei *big.Int) string {
	q, r := new(big.Int).QuoRem(wei, c10WeiPerEth, new(big.Int))
	frac := fmt.Sprintf("%018d", r)
	keepZeros := w.rnd.Intn(4) == 0
	if !keepZeros {
		frac = strings.TrimRight(frac, "0")
	}
	if frac == "" {
		return q.String()
	}
	return q.String() + "." + frac
}

// fresh draws a new value of the field: canonical form and document text.
func (w *c10World) fresh(field string) (string, string) {
	r := w.rnd
	switch field {
	case "fr":
		c := "0x" + hex.EncodeToString(w.hexBytes(20))
		return c, w.hexText(c)
	case "pk":
		c := "0x" + hex.EncodeToString(w.hexBytes(48))
		return c, w.hexText(c)
	case "gl":
		var g uint64
		switch k := r.Intn(6); {
		case !w.widen || k < 2:
			g = 1_000_000 + uint64(r.Intn(99_000_000))
		case k == 2:
			g = uint64(1 + r.Intn(1000))
		case k == 3:
			g = uint64(1)<<32 + uint64(r.Int63n(1<<40))
		case k == 4:
			g = uint64(1)<<63 + uint64(r.Int63())
		default:
			g = ^uint64(0) - uint64(r.Intn(3))
		}
		c := strconv.FormatUint(g, 10)
		return c, c
	case "gr":
		ms := int64(1 + r.Intn(5000))
		if w.widen && r.Intn(5) == 0 {
			ms = int64(60_000 + r.Intn(3_600_000))
		}
		return (time.Duration(ms) * time.Millisecond).String(), strconv.FormatInt(ms, 10)
	case "mv":
		wei := new(big.Int)
		switch k := r.Intn(6); {
		case !w.widen || k == 0:
			// tenths / hundredths of an Ether, as in the documentation
			wei.Mul(big.NewInt(int64(1+r.Intn(500))), big.NewInt(1e16))
		case k == 1:
			// gwei granular
			wei.Mul(big.NewInt(1+r.Int63n(1e12)), big.NewInt(1e9))
		case k == 2:
			// wei granular: 18 decimals
			wei.SetInt64(1 + r.Int63n(4e18))
		case k == 3:
			// a few wei
			wei.SetInt64(int64(1 + r.Intn(99)))
		case k == 4:
			// large with wei granularity
			wei.Mul(big.NewInt(1+r.Int63n(1e9)), c10WeiPerEth)
			wei.Add(wei, big.NewInt(1+r.Int63n(999_999_999_999_999_999)))
		default:
			wei.Mul(big.NewInt(int64(1+r.Intn(50))), big.NewInt(1e17))
		}
		return wei.String(), w.ethText(wei)
	}
	panic("unknown field " + field)
}

func (w *c10World) remember(field, canon, text string) {
	if w.text[field] == nil {
		w.text[field] = map[string]string{}
	}
	w.text[field][canon] = text
}

// newValue returns a value of the field that no other value of this scenario equals.
func (w *c10World) newValue(field string) string {
	for {
		c, t := w.fresh(field)
		if _, dup := w.text[field][c]; dup || c == "0" || c == "0s" {
			continue
		}
		w.remember(field, c, t)
		return c
	}
}

// value maps a token of a TLC-generated scenario to a concrete value.
func (w *c10World) value(field, token string) string {
	if token == "0" {
		w.remember(field, "0", "0")
		return "0"
	}
	k := field + "/" + token
	if c, ok := w.tok[k]; ok {
		return c
	}
	c := w.newValue(field)
	w.tok[k] = c
	return c
}

func (w *c10World) txt(field, canon string) string {
	t, ok := w.text[field][canon]
	if !ok {
		panic("no text for " + field + " " + canon)
	}
	return t
}

var c10RelayURLs = []string{
	"https://relay1.example.com/", "https://relay2.example.com/", "https://relay3.example.com/",
	"https://relay4.example.com:8443/", "http://10.0.0.5:18550", "https://relay.six.example.org/path/",
	"https://builder-relay.example.net", "https://relay8.example.com/", "https://r9.example.io/",
}

func (w *c10World) relay(token string) string {
	if a, ok := w.relays[token]; ok {
		return a
	}
	n, err := strconv.Atoi(strings.TrimPrefix(token, "R"))
	if err != nil || n < 1 || n > len(c10RelayURLs) {
		panic("relay token " + token)
	}
	w.relays[token] = c10RelayURLs[n-1]
	return w.relays[token]
}

func (w *c10World) addValidator(id, wallet, account string) *c10Validator {
	v := &c10Validator{id: id, pubkey: "0x" + hex.EncodeToString(w.hexBytes(48)), wallet: wallet, account: account}
	w.vals[id] = v
	w.order = append(w.order, id)
	return v
}

// pubkey of a token: a validator's, or nobody's
func (w *c10World) pubkey(token string) string {
	if v, ok := w.vals[token]; ok {
		return v.pubkey
	}
	return w.value("pk", "key-"+token)
}

// ---------------------------------------------------------------------------------------------
// TLC-generated scenarios: tokens -> concrete values

var c10Fields = []string{"fr", "gl", "gr", "mv", "pk"}

func (w *c10World) concFields(o c10Obj) {
	for _, f := range c10Fields {
		if t, ok := o[f].(string); ok {
			o[f] = w.value(f, t)
		}
	}
}

func c10List(x any) []any {
	l, _ := x.([]any)
	return l
}

// patterns for the two validators of the TLC scenarios ("Wallet 1/Account 1", "Wallet 1/Account 12"):
// for every match set several patterns whose meaning depends on both anchors being in place
func (w *c10World) patternFor(m map[string]bool) *c10Pattern {
	l := func(s string) c10Piece { return c10Lit(s) }
	var opts []*c10Pattern
	switch {
	case m["V1"] && m["V2"]:
		opts = []*c10Pattern{
			{pieces: []c10Piece{l("Wallet 1/"), c10Any()}},
			{pieces: []c10Piece{l("Wallet 1/Account 1"), c10Any()}},
			{pre: true, post: true, pieces: []c10Piece{c10Any()}},
			{pieces: []c10Piece{l("Wallet 1/Account 1"), c10Opt("2")}},
			{pre: true, pieces: []c10Piece{l("Wallet "), c10Class("1-3"), l("/Account 1"), c10Any()}},
		}
	case m["V1"]:
		opts = []*c10Pattern{
			{pieces: []c10Piece{l("Wallet 1/Account 1")}},
			{pre: true, post: true, pieces: []c10Piece{l("Wallet 1/Account 1")}},
			{pre: true, pieces: []c10Piece{l("Wallet 1/Account 1")}},
			{post: true, pieces: []c10Piece{l("Wallet 1/Account 1")}},
			{pieces: []c10Piece{c10Any(), l("/Account "), c10Class("1")}},
		}
	case m["V2"]:
		opts = []*c10Pattern{
			{pieces: []c10Piece{l("Wallet 1/Account 12")}},
			{pieces: []c10Piece{l("Wallet 1/Account 1"), c10Class("0-9")}},
			{post: true, pieces: []c10Piece{c10Any(), l("12")}},
		}
	default:
		opts = []*c10Pattern{
			{pieces: []c10Piece{l("Account 1")}},
			{pieces: []c10Piece{l("Wallet 1/Account")}},
			{pieces: []c10Piece{l("allet 1/Account 1")}},
			{pieces: []c10Piece{l("Wallet 2/"), c10Any()}},
			{pre: true, pieces: []c10Piece{l("Wallet 1/Account 1"), c10Class("3-9")}},
			{post: true, pieces: []c10Piece{l("/Account 1"), c10Opt("2")}},
		}
	}
	return opts[w.rnd.Intn(len(opts))]
}

func (w *c10World) concWho(t *testing.T, e c10Obj) {
	switch e["kind"] {
	case "pubkey":
		e["key"] = w.pubkey(e["key"].(string))
	case "account":
		m := map[string]bool{}
		for _, id := range c10List(e["m"]) {
			m[id.(string)] = true
		}
		p := w.patternFor(m)
		for id, v := range w.vals {
			if p.matches(v.name()) != m[id] {
				t.Fatalf("driver: pattern %q does not stand for match set %v", p.text(), m)
			}
		}
		e["pat"] = p.text()
		if e["m"] == nil {
			e["m"] = []any{}
		}
	default:
		t.Fatalf("driver: entry kind %v", e["kind"])
	}
}

func (w *c10World) concretise(t *testing.T, cfg c10Obj, fb map[string]string) {
	w.addValidator("V1", "Wallet 1", "Account 1")
	w.addValidator("V2", "Wallet 1", "Account 12")
	fb["fr"] = w.value("fr", fb["fr"])
	fb["gl"] = w.value("gl", fb["gl"])
	relays := func(o c10Obj) {
		for _, r := range c10List(o["relays"]) {
			ro := r.(c10Obj)
			ro["addr"] = w.relay(ro["addr"].(string))
			w.concFields(ro)
		}
	}
	if cfg["version"].(float64) == 2 {
		w.concFields(cfg)
		relays(cfg)
		for _, p := range c10List(cfg["proposers"]) {
			po := p.(c10Obj)
			w.concWho(t, po)
			w.concFields(po)
			relays(po)
		}
		return
	}
	obj := func(o c10Obj) {
		w.concFields(o)
		if b, ok := o["builder"].(c10Obj); ok {
			w.concFields(b)
			rs := c10List(b["relays"])
			for i := range rs {
				rs[i] = w.relay(rs[i].(string))
			}
			b["relays"] = rs
		}
	}
	obj(cfg["default"].(c10Obj))
	for _, p := range c10List(cfg["proposers"]) {
		po := p.(c10Obj)
		w.concWho(t, po)
		obj(po)
	}
}

// ---------------------------------------------------------------------------------------------
// seeded random scenarios (Go side): all fields at all levels at once, wide values, many relays,
// regular-expression shaped wallet and account names

var c10Wallets = []string{"Wallet 1", "Wallet 2", "Wallet 12", "W.1", "Val(idators)", "a+b", "Wallet [1]", "mev|nomev"}
var c10Accounts = []string{"Account 1", "Account 12", "Account 2", "Account 21", "acc[1]", "x|y", "co$t", "a.c", "abc", "1"}

func (w *c10World) randomPattern(target *c10Validator) *c10Pattern {
	r := w.rnd
	p := &c10Pattern{pre: r.Intn(3) == 0, post: r.Intn(3) == 0}
	wl, ac := target.wallet, target.account
	switch r.Intn(3) {
	case 0:
		p.pieces = append(p.pieces, c10Lit(wl))
	case 1:
		if c10Alnum(wl[len(wl)-1]) {
			p.pieces = append(p.pieces, c10Lit(wl[:len(wl)-1]), c10Class(wl[len(wl)-1:]+"12"))
		} else {
			p.pieces = append(p.pieces, c10Lit(wl))
		}
	default:
		p.pieces = append(p.pieces, c10Lit(wl[:1+r.Intn(len(wl))]), c10Any())
	}
	p.pieces = append(p.pieces, c10Lit("/"))
	switch r.Intn(5) {
	case 0:
		p.pieces = append(p.pieces, c10Any())
	case 1:
		p.pieces = append(p.pieces, c10Lit(ac))
	case 2:
		if c10Alnum(ac[len(ac)-1]) {
			p.pieces = append(p.pieces, c10Lit(ac[:len(ac)-1]), c10Class(ac[len(ac)-1:]+"0-3"))
		} else {
			p.pieces = append(p.pieces, c10Lit(ac))
		}
	case 3:
		p.pieces = append(p.pieces, c10Lit(ac), c10Opt("2"))
	default:
		p.pieces = append(p.pieces, c10Lit(ac[:r.Intn(len(ac))]), c10Any())
	}
	if r.Intn(6) == 0 {
		// a fragment: only the implicit anchors keep it from matching
		k := 1 + r.Intn(len(p.pieces)-1)
		if r.Intn(2) == 0 {
			p.pieces = p.pieces[k:]
			p.pre = false
		} else {
			p.pieces = p.pieces[:k]
			p.post = false
		}
	}
	// the documentation describes the anchors as text added when missing; keep away from texts where
	// "ends with $" and "is anchored" are different things (an escaped dollar at the very end)
	if n := len(p.pieces); n > 0 && p.pieces[n-1].kind == "lit" && strings.HasSuffix(p.pieces[n-1].s, "$") {
		p.pieces = append(p.pieces, c10Any())
	}
	if len(p.pieces) > 0 && p.pieces[0].kind == "lit" && strings.HasPrefix(p.pieces[0].s, "^") {
		p.pieces = append([]c10Piece{c10Any()}, p.pieces...)
	}
	return p
}

func (w *c10World) maybeFields(o c10Obj, fields []string, p float64) {
	for _, f := range fields {
		if w.rnd.Float64() < p {
			o[f] = w.newValue(f)
		}
	}
}

func (w *c10World) random() (c10Obj, map[string]string, []c10Step) {
	r := w.rnd
	nv := 2 + r.Intn(3)
	seen := map[string]bool{}
	for i := 0; i < nv; i++ {
		var wl, ac string
		for {
			wl, ac = c10Wallets[r.Intn(len(c10Wallets))], c10Accounts[r.Intn(len(c10Accounts))]
			if !seen[wl+"/"+ac] {
				break
			}
		}
		seen[wl+"/"+ac] = true
		w.addValidator(fmt.Sprintf("V%d", i+1), wl, ac)
	}
	fb := map[string]string{"fr": w.newValue("fr"), "gl": w.newValue("gl")}
	someVal := func() *c10Validator { return w.vals[w.order[r.Intn(len(w.order))]] }
	var cfg c10Obj
	if r.Intn(7) == 0 {
		// legacy
		obj := func() c10Obj {
			o := c10Obj{"fr": w.newValue("fr")}
			switch r.Intn(3) {
			case 0:
				o["gl"] = w.newValue("gl")
			case 1:
				if r.Intn(3) == 0 {
					o["gl"] = w.value("gl", "0")
				}
			}
			if r.Intn(4) > 0 {
				b := c10Obj{"enabled": r.Intn(3) > 0}
				n := r.Intn(4)
				if b["enabled"].(bool) && n == 0 {
					n = 1
				}
				rs := []any{}
				for _, k := range r.Perm(len(c10RelayURLs))[:n] {
					rs = append(rs, c10RelayURLs[k])
				}
				b["relays"] = rs
				if r.Intn(2) == 0 {
					b["gr"] = w.newValue("gr")
				}
				o["builder"] = b
			}
			return o
		}
		ps := []any{}
		for _, id := range w.order {
			if r.Intn(2) == 0 {
				e := obj()
				e["kind"], e["key"] = "pubkey", w.vals[id].pubkey
				ps = append(ps, e)
			}
		}
		if r.Intn(2) == 0 {
			e := obj()
			e["kind"], e["key"] = "pubkey", w.newValue("pk")
			ps = append(ps, e)
		}
		cfg = c10Obj{"version": float64(1), "default": obj(), "proposers": ps}
	} else {
		top := []string{"fr", "gl", "gr", "mv"}
		cfg = c10Obj{"version": float64(2)}
		w.maybeFields(cfg, top, 0.5)
		nb := r.Intn(4)
		if w.widen && r.Intn(8) == 0 {
			nb = len(c10RelayURLs) - 2
		}
		perm := r.Perm(len(c10RelayURLs))
		base := []any{}
		for _, k := range perm[:nb] {
			ro := c10Obj{"addr": c10RelayURLs[k]}
			w.maybeFields(ro, c10Fields, 0.4)
			base = append(base, ro)
		}
		cfg["relays"] = base
		ps := []any{}
		for i, n := 0, r.Intn(5); i < n; i++ {
			e := c10Obj{}
			if r.Intn(2) == 0 {
				e["kind"] = "pubkey"
				if r.Intn(5) == 0 {
					e["key"] = w.newValue("pk")
				} else {
					e["key"] = someVal().pubkey
				}
			} else {
				e["kind"] = "account"
				p := w.randomPattern(someVal())
				m := []any{}
				for _, id := range w.order {
					if p.matches(w.vals[id].name()) {
						m = append(m, id)
					}
				}
				e["m"], e["pat"] = m, p.text()
			}
			w.maybeFields(e, top, 0.4)
			e["reset"] = r.Intn(4) == 0
			prs := []any{}
			used := map[int]bool{}
			for j, m := 0, r.Intn(4); j < m; j++ {
				// mostly relays that are also base relays, sometimes new ones
				var k int
				if nb > 0 && r.Intn(3) > 0 {
					k = perm[r.Intn(nb)]
				} else {
					k = perm[r.Intn(len(perm))]
				}
				if used[k] {
					continue
				}
				used[k] = true
				ro := c10Obj{"addr": c10RelayURLs[k], "disabled": r.Intn(10) < 3}
				w.maybeFields(ro, c10Fields, 0.4)
				prs = append(prs, ro)
			}
			e["relays"] = prs
			ps = append(ps, e)
		}
		cfg["proposers"] = ps
	}
	var steps []c10Step
	lookups := func() {
		for _, id := range w.order {
			steps = append(steps, c10Step{Ev: "Lookup", V: map[string]string{"id": id, "pubkey": id}})
		}
	}
	lookups()
	steps = append(steps, c10Step{Ev: "RoundTrip"})
	lookups()
	return cfg, fb, steps
}

// ---------------------------------------------------------------------------------------------
// abstract document -> JSON text of the execution configuration file

var c10JSONName = map[string]string{"fr": "fee_recipient", "gl": "gas_limit", "gr": "grace", "mv": "min_value", "pk": "public_key"}

func (w *c10World) renderFields(dst c10Obj, src c10Obj) {
	for _, f := range c10Fields {
		if c, ok := src[f].(string); ok {
			dst[c10JSONName[f]] = w.txt(f, c)
		}
	}
}

func (w *c10World) render(cfg c10Obj) []byte {
	doc := c10Obj{}
	if cfg["version"].(float64) == 2 {
		doc["version"] = 2
		w.renderFields(doc, cfg)
		relays := func(l []any, prel bool) c10Obj {
			m := c10Obj{}
			for _, r := range l {
				ro := r.(c10Obj)
				o := c10Obj{}
				w.renderFields(o, ro)
				if prel {
					if d, _ := ro["disabled"].(bool); d || w.rnd.Intn(4) == 0 {
						o["disabled"] = d
					}
				}
				m[ro["addr"].(string)] = o
			}
			return m
		}
		if l := c10List(cfg["relays"]); len(l) > 0 || w.rnd.Intn(2) == 0 {
			doc["relays"] = relays(l, false)
		}
		ps := []any{}
		for _, p := range c10List(cfg["proposers"]) {
			po := p.(c10Obj)
			o := c10Obj{}
			if po["kind"] == "pubkey" {
				o["proposer"] = w.hexText(po["key"].(string))
			} else {
				o["proposer"] = po["pat"]
			}
			w.renderFields(o, po)
			if rs, _ := po["reset"].(bool); rs || w.rnd.Intn(4) == 0 {
				o["reset_relays"] = rs
			}
			if l := c10List(po["relays"]); len(l) > 0 || w.rnd.Intn(2) == 0 {
				o["relays"] = relays(l, true)
			}
			ps = append(ps, o)
		}
		if len(ps) > 0 || w.rnd.Intn(2) == 0 {
			doc["proposers"] = ps
		}
	} else {
		obj := func(src c10Obj) c10Obj {
			o := c10Obj{}
			w.renderFields(o, src)
			if b, ok := src["builder"].(c10Obj); ok {
				bo := c10Obj{"enabled": b["enabled"]}
				if g, ok := b["gr"].(string); ok {
					bo["grace"] = w.txt("gr", g)
				}
				if l := c10List(b["relays"]); len(l) > 0 {
					bo["relays"] = l
				}
				o["builder"] = bo
			}
			return o
		}
		doc["default_config"] = obj(cfg["default"].(c10Obj))
		pc := c10Obj{}
		for _, p := range c10List(cfg["proposers"]) {
			po := p.(c10Obj)
			pc[w.hexText(po["key"].(string))] = obj(po)
		}
		if len(pc) > 0 || w.rnd.Intn(2) == 0 {
			doc["proposer_config"] = pc
		}
	}
	data, err := json.Marshal(doc)
	if err != nil {
		panic(err)
	}
	return data
}

// ---------------------------------------------------------------------------------------------
// what the real code answered, in the canonical form of the specification

func c10Canon(pc *beaconblockproposer.ProposerConfig) c10Obj {
	relays := make([]c10Obj, 0, len(pc.Relays))
	for _, r := range pc.Relays {
		pk := "none"
		if r.PublicKey != nil {
			pk = "0x" + hex.EncodeToString(r.PublicKey[:])
		}
		relays = append(relays, c10Obj{
			"addr": r.Address,
			"fr":   "0x" + hex.EncodeToString(r.FeeRecipient[:]),
			"gl":   strconv.FormatUint(r.GasLimit, 10),
			"gr":   r.Grace.String(),
			"mv":   r.MinValue.String(),
			"pk":   pk,
		})
	}
	sort.SliceStable(relays, func(i, j int) bool { return relays[i]["addr"].(string) < relays[j]["addr"].(string) })
	return c10Obj{"fr": "0x" + hex.EncodeToString(pc.FeeRecipient[:]), "relays": relays}
}

func c10Address(s string) bellatrix.ExecutionAddress {
	var a bellatrix.ExecutionAddress
	b, err := hex.DecodeString(s[2:])
	if err != nil || len(b) != len(a) {
		panic("address " + s)
	}
	copy(a[:], b)
	return a
}

func c10PubKey(s string) phase0.BLSPubKey {
	var k phase0.BLSPubKey
	b, err := hex.DecodeString(s[2:])
	if err != nil || len(b) != len(k) {
		panic("pubkey " + s)
	}
	copy(k[:], b)
	return k
}

func TestVerifC10(t *testing.T) {
	var scenarios []c10Scenario
	verifsupport.Scenarios(t, &scenarios)
	tr := verifsupport.OpenTrace(t)
	defer tr.Close()
	ctx := context.Background()
	seed := verifsupport.Seed()

	for _, sc := range scenarios {
		if len(sc.Steps) == 0 {
			t.Fatalf("scenario %d is empty", sc.Sc)
		}
		var w *c10World
		var cfg c10Obj
		var fb map[string]string
		steps := sc.Steps
		switch first := steps[0]; first.Ev {
		case "Random":
			w = c10NewWorld(seed*1_000_003+int64(first.Idx)*7919+17, true)
			var more []c10Step
			cfg, fb, more = w.random()
			steps = append([]c10Step{{Ev: "Reset"}}, more...)
		case "Reset":
			// values of the enumerated lattice: plain shapes for most, wide shapes for some
			w = c10NewWorld(seed*1_000_003+int64(sc.Sc)*104_729+5, (int64(sc.Sc)+seed)%3 == 0)
			cfg, fb = first.Cfg, first.Fb
			w.concretise(t, cfg, fb)
		default:
			t.Fatalf("scenario %d does not start with Reset", sc.Sc)
		}

		var configurator ExecutionConfigurator
		emit := func(ev verifsupport.Ev) {
			ev["sc"] = sc.Sc
			tr.Emit(ev)
		}
		guarded := func(name string, fn func() verifsupport.Ev) {
			defer func() {
				if r := recover(); r != nil {
					emit(verifsupport.Ev{"ev": "Crash", "in": name, "panic": fmt.Sprint(r)})
				}
			}()
			emit(fn())
		}

		for _, st := range steps {
			switch st.Ev {
			case "Reset":
				doc := w.render(cfg)
				guarded("Reset", func() verifsupport.Ev {
					ev := verifsupport.Ev{"ev": "Reset", "cfg": cfg, "fb": fb, "doc": string(doc)}
					c, err := UnmarshalJSON(doc)
					if err != nil {
						ev["ok"], ev["err"] = false, err.Error()
						configurator = nil
						return ev
					}
					configurator = c
					ev["ok"] = true
					return ev
				})
			case "Lookup":
				v := w.vals[st.V["id"]]
				if v == nil {
					t.Fatalf("scenario %d: unknown validator %v", sc.Sc, st.V)
				}
				guarded("Lookup", func() verifsupport.Ev {
					ev := verifsupport.Ev{"ev": "Lookup", "v": map[string]string{"id": v.id, "pubkey": v.pubkey}, "name": v.name()}
					if configurator == nil {
						ev["ok"], ev["err"] = false, "no configuration"
						return ev
					}
					gl, _ := strconv.ParseUint(fb["gl"], 10, 64)
					account := &c10Account{wallet: &c10Wallet{name: v.wallet}, name: v.account}
					pc, err := configurator.ProposerConfig(ctx, account, c10PubKey(v.pubkey), c10Address(fb["fr"]), gl)
					if err != nil {
						ev["ok"], ev["err"] = false, err.Error()
						return ev
					}
					ev["ok"], ev["res"] = true, c10Canon(pc)
					return ev
				})
			case "RoundTrip":
				guarded("RoundTrip", func() verifsupport.Ev {
					ev := verifsupport.Ev{"ev": "RoundTrip"}
					if configurator == nil {
						ev["ok"], ev["err"] = false, "no configuration"
						return ev
					}
					data, err := json.Marshal(configurator)
					if err != nil {
						ev["ok"], ev["err"] = false, "marshal: "+err.Error()
						return ev
					}
					ev["doc"] = string(data)
					c, err := UnmarshalJSON(data)
					if err != nil {
						ev["ok"], ev["err"] = false, "unmarshal: "+err.Error()
						return ev
					}
					configurator = c
					ev["ok"] = true
					return ev
				})
			default:
				t.Fatalf("unknown step %q", st.Ev)
			}
		}
	}
}
