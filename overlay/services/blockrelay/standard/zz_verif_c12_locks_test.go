package standard

// Conformance driver for the lock part of property C12 (spec/BlockRelayLocks.tla): every entry point of
// the block relay service as standard.New wires it - the scheduler's two jobs, ProposerConfig, AuctionBlock,
// the REST daemon's BuilderBid and ValidatorRegistrations - called on ONE real service per history, held at
// the gates of the fakes so that refreshes, immediate auctions (cached, uncached, queued on builderBidMu),
// lookups and registration rounds overlap as the TLC-generated history says.  Recorded: Start, Source, Bid,
// Return, TryLock() of every lock of the service at quiescence; a call that does not return although every
// gate is open is "Stuck" (watchdog), a panic "Crash".
//
// "wired" histories put the fakes one layer further out: BuilderBid requests travel over HTTP through a real
// go-block-relay REST daemon wired to the service exactly as New() wires its own, and the configuration is
// fetched through the real majordomo service (the gated source is a confidant behind it).

import (
	"context"
	"fmt"
	"net"
	"net/http"
	"net/url"
	"sync"
	"sync/atomic"
	"testing"
	"time"
	"unsafe"

	restdaemon "github.com/attestantio/go-block-relay/services/daemon/rest"
	"github.com/attestantio/go-block-relay/services/blockauctioneer"
	"github.com/attestantio/go-block-relay/types"
	"github.com/attestantio/go-eth2-client/spec/phase0"
	"github.com/attestantio/vouch/services/beaconblockproposer"
	"github.com/attestantio/vouch/services/blockrelay"
	nullmetrics "github.com/attestantio/vouch/services/metrics/null"
	"github.com/attestantio/vouch/verifsupport"
	"github.com/rs/zerolog"
	e2wtypes "github.com/wealdtech/go-eth2-wallet-types/v2"
	standardmajordomo "github.com/wealdtech/go-majordomo/standard"
)

type c12lStep struct {
	Ev    string   `json:"ev"`
	Op    int      `json:"op"`
	Kind  string   `json:"kind"`
	V     int      `json:"v"`
	I     string   `json:"i"`
	L     string   `json:"l"`
	C     string   `json:"c"`
	Out   string   `json:"out"`
	Doc   int      `json:"doc"`
	Init  int      `json:"init"`
	Fam   string   `json:"fam"`
	Wired bool     `json:"wired"`
	Docs  []c11Doc `json:"docs"`
}

type c12lScenario struct {
	Sc    int        `json:"sc"`
	Steps []c12lStep `json:"steps"`
}

const (
	c12lSlot       = phase0.Slot(100)
	c12lArriveWait = 100 * time.Millisecond // bounded waits that only steer the interleaving
	c12lReturnWait = 200 * time.Millisecond
)

// c12lBid is the builder-bid strategy: the c11 fake, but it also recognises the call it serves when the call
// arrived over HTTP (the request context carries nothing): at most one BuilderBid call per validator is in
// its immediate auction at any time (builderBidMu), so the first one that has not been answered is it.
type c12lBid struct {
	env  *c11Env
	mu   sync.Mutex
	http map[int][]*c11Op // validator -> BuilderBid calls sent over HTTP, in the order they were started
}

func (p *c12lBid) opFor(ctx context.Context, pubkey phase0.BLSPubKey) *c11Op {
	if op := c11OpFrom(ctx); op != nil {
		return op
	}
	p.mu.Lock()
	defer p.mu.Unlock()
	for _, op := range p.http[c11ValidatorID(pubkey)] {
		if !op.finished.Load() && op.bidSeen == "none" {
			return op
		}
	}
	return nil
}

func (p *c12lBid) BuilderBid(ctx context.Context, slot phase0.Slot, parentHash phase0.Hash32, pubkey phase0.BLSPubKey,
	proposerConfig *beaconblockproposer.ProposerConfig, builderConfigs map[phase0.BLSPubKey]*blockrelay.BuilderConfig,
) (*blockauctioneer.Results, error) {
	op := p.opFor(ctx, pubkey)
	if op == nil {
		return &blockauctioneer.Results{Participation: map[string]*blockauctioneer.Participation{}}, nil
	}
	return (&c11BidProvider{env: p.env}).BuilderBid(context.WithValue(ctx, c11OpKey{}, op), slot, parentHash, pubkey, proposerConfig, builderConfigs)
}

// c12lConfidant is the configuration source behind the real majordomo service.
type c12lConfidant struct{ env *c11Env }

func (c *c12lConfidant) SupportedURLSchemes(_ context.Context) ([]string, error) {
	return []string{"verif"}, nil
}

func (c *c12lConfidant) Fetch(ctx context.Context, _ *url.URL) ([]byte, error) {
	return (&c11Majordomo{env: c.env}).Fetch(ctx, "")
}

type c12lRun struct {
	t        *testing.T
	tr       *verifsupport.Trace
	sc       int
	sys      *c11System
	bid      *c12lBid
	ctx      context.Context
	ops      map[int]*c11Op
	order    []*c11Op
	inflight atomic.Int32
	returned atomic.Int32
	probed   int32
	retSeen  map[int]bool
	stepped  map[int]bool
	restURL  string // wired: base URL of the REST daemon
	dead     atomic.Bool
}

func (r *c12lRun) emit(ev verifsupport.Ev) {
	ev["sc"] = r.sc
	r.tr.Emit(ev)
}

func c12lParent(v int) phase0.Hash32 { return phase0.Hash32{0xc1, byte(v)} }

func (r *c12lRun) runOp(op *c11Op) {
	ctx := context.WithValue(r.ctx, c11OpKey{}, op)
	s := r.sys.svc
	ev := verifsupport.Ev{"sc": r.sc, "ev": "Return", "op": op.id, "kind": op.kind}
	finish := func(e verifsupport.Ev) {
		r.tr.Locked(func() verifsupport.Ev {
			op.finished.Store(true)
			r.inflight.Add(-1)
			r.returned.Add(1)
			if r.dead.Load() {
				return nil // the instance was abandoned by the watchdog: nothing it still does is recorded
			}
			return e
		})
		close(op.done)
	}
	defer func() {
		if p := recover(); p != nil {
			finish(verifsupport.Ev{"sc": r.sc, "ev": "Crash", "op": op.id, "kind": op.kind, "panic": fmt.Sprint(p)})
		}
	}()
	switch op.kind {
	case "fetch":
		r.sys.sched.Get(c11FetchJob).Func(ctx)
	case "lookup":
		var account e2wtypes.Account
		if op.v <= 2 {
			account = c11AccountFor(op, op.v)
		}
		op.pass("pre")
		pc, err := s.ProposerConfig(ctx, account, c11Pubkeys[op.v])
		ev["ok"] = err == nil && pc != nil
	case "auction":
		_, err := s.AuctionBlock(ctx, c12lSlot, c12lParent(op.v), c11Pubkeys[op.v])
		ev["ok"] = err == nil
		ev["bid"] = op.bidSeen
	case "bbid":
		op.pass("pre")
		if r.restURL != "" {
			// as a beacon node asks: GET /eth/v1/builder/header/{slot}/{parent_hash}/{pubkey}
			ph, pk := c12lParent(op.v), c11Pubkeys[op.v]
			u := fmt.Sprintf("%s/eth/v1/builder/header/%d/%#x/%#x", r.restURL, c12lSlot, ph[:], pk[:])
			resp, err := (&http.Client{}).Get(u)
			if err != nil {
				ev["ok"], ev["status"] = false, 0
			} else {
				resp.Body.Close()
				ev["ok"], ev["status"] = resp.StatusCode < 300, resp.StatusCode
			}
		} else {
			bid, err := s.BuilderBid(ctx, c12lSlot, c12lParent(op.v), c11Pubkeys[op.v])
			ev["ok"] = err == nil
			ev["got"] = bid != nil
		}
		ev["bid"] = op.bidSeen
	case "register":
		op.pass("pre")
		r.sys.sched.Get(c11RegisterJob).Func(ctx)
	case "vreg":
		op.pass("pre")
		var sig phase0.BLSSignature
		sig[0], sig[1] = byte(r.sc), byte(op.id)
		_, err := s.ValidatorRegistrations(ctx, []*types.SignedValidatorRegistration{{
			Message: &types.ValidatorRegistration{
				FeeRecipient: c11FeeAddr(1), GasLimit: c11Gas(1), Timestamp: time.Unix(1700000000+int64(op.id), 0), Pubkey: c11Pubkeys[op.v],
			},
			Signature: sig,
		}})
		ev["ok"] = err == nil
	}
	finish(ev)
}

// c12lMutexWaiters reads the number of goroutines blocked in Lock() of a sync.Mutex (only steers: a
// BuilderBid call that the history queues on builderBidMu is given the time to get there).
func c12lMutexWaiters(mu *sync.Mutex) int {
	state := atomic.LoadInt32((*int32)(unsafe.Pointer(mu)))
	return int(state >> 3)
}

func c12lTry(mu interface {
	TryLock() bool
	Unlock()
}) bool {
	if mu.TryLock() {
		mu.Unlock()
		return true
	}
	return false
}

// probe logs the state of every lock of the service when nothing is in flight; false = something is held.
func (r *c12lRun) probe() bool {
	s := r.sys.svc
	free := map[string]bool{
		"ec":     c12lTry(&s.executionConfigMu),
		"bb":     c12lTry(&s.builderBidMu),
		"cache":  c12lTry(&s.builderBidsCacheMu),
		"ctl":    c12lTry(&s.controlledValidatorsMu),
		"signed": c12lTry(&s.signedValidatorRegistrationsMu),
		"latest": c12lTry(&s.latestValidatorRegistrationsMu),
	}
	free["sem"] = s.activitySem.TryAcquire(1)
	if free["sem"] {
		s.activitySem.Release(1)
	}
	r.emit(verifsupport.Ev{"ev": "Quiesce", "free": free})
	for _, f := range free {
		if !f {
			return false
		}
	}
	return true
}

// somebodyHeld: an unfinished call waits at a gate the driver has not opened.
func (r *c12lRun) somebodyHeld() bool {
	for _, o := range r.order {
		if o.finished.Load() {
			continue
		}
		for _, g := range []string{"src", "name", "bid"} {
			if o.isArrived(g) && !o.isOpen(g) {
				return true
			}
		}
	}
	return false
}

// waitReturn waits (bounded; only steers) for a call the history lets return here.  While the driver itself
// holds somebody at a gate a shorter period is enough: on a tree that follows another permitted design the
// call may be waiting for the held one.
func (r *c12lRun) waitReturn(op *c11Op, d time.Duration) {
	if r.somebodyHeld() && d > c12lArriveWait {
		d = c12lArriveWait
	}
	select {
	case <-op.done:
	case <-time.After(d):
	}
}

func (r *c12lRun) waitWriterPendingOrDone(op *c11Op) {
	mu := &r.sys.svc.executionConfigMu
	deadline := time.Now().Add(c12lArriveWait)
	for time.Now().Before(deadline) {
		if op.finished.Load() {
			return
		}
		if !mu.TryRLock() {
			return
		}
		mu.RUnlock()
		time.Sleep(20 * time.Microsecond)
	}
}

var c12lStuck atomic.Int32

func c12lFreePort(t *testing.T) string {
	ln, err := net.Listen("tcp", "127.0.0.1:0")
	if err != nil {
		t.Fatalf("listen: %v", err)
	}
	addr := ln.Addr().String()
	ln.Close()
	return addr
}

// wire puts the real neighbours in place: the configuration travels through the real majordomo service, and
// BuilderBid requests through a real REST daemon wired to the service as New() wires its own.
func (r *c12lRun) wire() {
	ctx := r.ctx
	md, err := standardmajordomo.New(ctx, standardmajordomo.WithLogLevel(zerolog.Disabled))
	if err != nil {
		r.t.Fatalf("majordomo: %v", err)
	}
	if err := md.RegisterConfidant(ctx, &c12lConfidant{env: r.sys.env}); err != nil {
		r.t.Fatalf("confidant: %v", err)
	}
	s := r.sys.svc
	s.majordomo = md // nothing is running: New() has returned and its registration round is over
	var lastErr error
	for attempt := 0; attempt < 5; attempt++ {
		addr := c12lFreePort(r.t)
		_, lastErr = restdaemon.New(ctx,
			restdaemon.WithLogLevel(zerolog.Disabled),
			restdaemon.WithMonitor(nullmetrics.New()),
			restdaemon.WithListenAddress(addr),
			restdaemon.WithValidatorRegistrar(s),
			restdaemon.WithBlockAuctioneer(s),
			restdaemon.WithBlockUnblinder(s),
			restdaemon.WithBuilderBidProvider(s),
		)
		if lastErr != nil {
			continue
		}
		// the daemon listens on a goroutine of its own: wait until it answers
		deadline := time.Now().Add(5 * time.Second)
		for time.Now().Before(deadline) {
			resp, err := http.Get("http://" + addr + "/eth/v1/builder/status")
			if err == nil {
				resp.Body.Close()
				r.restURL = "http://" + addr
				return
			}
			time.Sleep(5 * time.Millisecond)
		}
	}
	r.t.Fatalf("REST daemon does not answer (%v)", lastErr)
}

func c12lRunScenario(t *testing.T, tr *verifsupport.Trace, sc c12lScenario, watchdog time.Duration) {
	if len(sc.Steps) == 0 || sc.Steps[0].Ev != "Reset" {
		t.Fatalf("scenario %d does not start with Reset", sc.Sc)
	}
	reset := sc.Steps[0]
	if c12lStuck.Load() >= c12StuckLimit {
		tr.Emit(verifsupport.Ev{"sc": sc.Sc, "ev": "Reset", "init": reset.Init, "skipped": true})
		return
	}
	env := c11NewEnv(t, tr, sc.Sc, reset.Docs)
	env.quiet = true
	initOut := "error"
	if reset.Init != 0 {
		initOut = "good"
	}
	sys := c11NewSystem(t, env, initOut, reset.Init, false)
	defer sys.close()
	r := &c12lRun{t: t, tr: tr, sc: sc.Sc, sys: sys, ctx: context.Background(), ops: map[int]*c11Op{},
		retSeen: map[int]bool{}, stepped: map[int]bool{}}
	r.bid = &c12lBid{env: env, http: map[int][]*c11Op{}}
	sys.svc.builderBidProvider = r.bid // nothing is running yet
	if reset.Wired {
		r.wire()
	}
	r.emit(verifsupport.Ev{"ev": "Reset", "init": reset.Init, "fam": reset.Fam, "wired": reset.Wired})

	aborted := false
	for _, st := range sc.Steps[1:] {
		if aborted {
			break
		}
		switch st.Ev {
		case "Start":
			if st.Kind == "fetch" {
				// Env_SingleFetcher is the driver's duty
				for _, prev := range r.order {
					if prev.kind == "fetch" && !prev.finished.Load() {
						for _, o := range r.order {
							o.openAll()
						}
						select {
						case <-prev.done:
						case <-time.After(watchdog):
							aborted = true
						}
					}
				}
				if aborted {
					continue
				}
			}
			for _, prev := range r.order {
				if r.retSeen[prev.id] && !prev.finished.Load() {
					r.waitReturn(prev, c12lReturnWait)
				}
			}
			op := c11NewOp(st.Op, st.Kind, st.V)
			r.ops[st.Op] = op
			r.order = append(r.order, op)
			if st.Kind == "bbid" {
				r.bid.mu.Lock()
				r.bid.http[st.V] = append(r.bid.http[st.V], op)
				r.bid.mu.Unlock()
			}
			r.inflight.Add(1)
			r.emit(verifsupport.Ev{"ev": "Start", "op": st.Op, "kind": st.Kind, "v": st.V})
			go r.runOp(op)
		case "Source":
			op := r.ops[st.Op]
			op.out, op.doc = st.Out, st.Doc
			op.open("src")
		case "Bid":
			op := r.ops[st.Op]
			op.bid = st.Out
			op.open("bid")
		case "Return":
			r.retSeen[st.Op] = true
			r.waitReturn(r.ops[st.Op], c12lReturnWait)
		case "Step":
			op := r.ops[st.Op]
			if !r.stepped[st.Op] {
				// the call is made when the history lets it take its first step (Start only announces it)
				r.stepped[st.Op] = true
				op.open("pre")
			}
			switch {
			case st.I == "R" && st.L == "ec" && (op.kind == "lookup" || op.kind == "auction") && op.v <= 2:
				op.waitArrived("name", c12lArriveWait)
			case st.I == "RU" && st.L == "ec":
				op.open("name")
			case st.I == "W" && st.L == "bb" && op.kind == "bbid":
				// the call queues on builderBidMu (or takes it, when it is free)
				mu := &r.sys.svc.builderBidMu
				if !mu.TryLock() {
					before := time.Now()
					for c12lMutexWaiters(mu) == 0 && !op.finished.Load() && time.Since(before) < c12lArriveWait {
						time.Sleep(50 * time.Microsecond)
					}
				} else {
					mu.Unlock()
				}
			case st.I == "E" && st.L == "bid":
				// never a Step (Bid is an event of its own)
			case st.I == "W" && st.L == "ec" && op.kind == "fetch":
				r.waitWriterPendingOrDone(op)
			case st.I == "D" && st.L == "relays" && op.kind != "lookup":
				// the call is on its way to the strategy: let it arrive there before anything else is started
				if st.C == "some" {
					op.waitArrived("bid", c12lArriveWait)
				}
			}
		default:
			t.Fatalf("unknown step %q", st.Ev)
		}
		if r.inflight.Load() == 0 && r.returned.Load() != r.probed {
			r.probed = r.returned.Load()
			if !r.probe() {
				aborted = true
			}
		}
	}
	for _, op := range r.order {
		op.openAll()
	}
	deadline := time.After(watchdog)
	stuck := false
	for _, op := range r.order {
		select {
		case <-op.done:
		case <-deadline:
			stuck = true
		}
		if stuck {
			break
		}
	}
	if stuck {
		c12lStuck.Add(1)
		env.dead.Store(true)
		r.dead.Store(true)
		for _, op := range r.order {
			if !op.finished.Load() {
				r.emit(verifsupport.Ev{"ev": "Stuck", "op": op.id, "kind": op.kind, "watchdog_ms": int(watchdog / time.Millisecond)})
			}
		}
		return
	}
	if !aborted && r.returned.Load() != r.probed {
		r.probe()
	}
}

func TestVerifC12Locks(t *testing.T) {
	var scenarios []c12lScenario
	verifsupport.Scenarios(t, &scenarios)
	tr := verifsupport.OpenTrace(t)
	defer tr.Close()
	watchdog := c12Watchdog()
	for _, sc := range scenarios {
		c12lRunScenario(t, tr, sc, watchdog)
	}
}
