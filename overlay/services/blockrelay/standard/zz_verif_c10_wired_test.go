package standard

// WIRED conformance driver for property C10, family "callers" of spec/Scen_ExecConfigSvc.tla (fifth round).
// Injected with -overlay by /verif/check.
//
// The property speaks of the settings Vouch USES for a validator, whoever resolves them.  This driver wires the
// neighbours of the block relay service the way main.go does and puts the fakes one layer further out:
//
//   REAL  services/blockrelay/standard.Service (New, its fetch and registration jobs run through the scheduler)
//   REAL  services/accountmanager/wallet.Service over a filesystem wallet store with real nd wallets/accounts
//         (account files are hidden from / shown to the store and the manager refreshed: "a wallet that could not
//         be read during a refresh takes its accounts away") - it is the accounts provider AND the validating
//         accounts provider of the block relay and of the preparer, behind a wrapper that only RECORDS what the
//         manager answered (and, where the scenario says so, answers with an error in its place)
//   REAL  services/validatorsmanager/standard.Service over a scripted beacon node (c13support)
//   REAL  services/signer/standard.Service (registrations are signed with the accounts' real keys)
//   REAL  services/proposalpreparer/standard.Service (asks the block relay for every listed account)
//   fake  configuration source (majordomo), bid strategy (records the proposer configuration it is handed),
//         relays (record the registrations they receive), beacon nodes (record the preparations)
//
// ONE wired instance per history.  Entry points driven: ProposerConfig ("direct"), the registration job ("reg"),
// UpdatePreparations ("prep"), AuctionBlock ("auction"), BuilderBid without a cached bid ("bid"), and the two calls
// commands.go makes for --proposer-config-check ("check": transcribed here, package main is not driven).

import (
	"context"
	"encoding/json"
	"errors"
	"fmt"
	"sort"
	"sync"
	"sync/atomic"
	"testing"
	"time"

	"github.com/attestantio/go-block-relay/services/blockauctioneer"
	builderclient "github.com/attestantio/go-builder-client"
	builderapi "github.com/attestantio/go-builder-client/api"
	consensusclient "github.com/attestantio/go-eth2-client"
	consensusapiv1 "github.com/attestantio/go-eth2-client/api/v1"
	"github.com/attestantio/go-eth2-client/spec/phase0"
	"github.com/attestantio/vouch/mock"
	walletam "github.com/attestantio/vouch/services/accountmanager/wallet"
	"github.com/attestantio/vouch/services/beaconblockproposer"
	"github.com/attestantio/vouch/services/blockrelay"
	nullmetrics "github.com/attestantio/vouch/services/metrics/null"
	standardpreparer "github.com/attestantio/vouch/services/proposalpreparer/standard"
	standardsigner "github.com/attestantio/vouch/services/signer/standard"
	"github.com/attestantio/vouch/util"
	"github.com/attestantio/vouch/verifdrivers/c13support"
	"github.com/attestantio/vouch/verifsupport"
	"github.com/rs/zerolog"
	filesystem "github.com/wealdtech/go-eth2-wallet-store-filesystem"
	e2wtypes "github.com/wealdtech/go-eth2-wallet-types/v2"
)

type c10wStep struct {
	Ev    string    `json:"ev"`
	Init  int       `json:"init"`
	Docs  []c10sObj `json:"docs"`
	Known []string  `json:"known"`
	Out   string    `json:"out"`
	Doc   int       `json:"doc"`
	Kind  string    `json:"kind"`
	V     string    `json:"v"`
	Acct  bool      `json:"acct"`
	Inj   string    `json:"inj"`
}

type c10wScenario struct {
	Sc    int        `json:"sc"`
	Steps []c10wStep `json:"steps"`
}

var c10wVs = []string{"V1", "V2"}

func c10wName(v string) c13support.Name {
	return c13support.Name{W: "Wallet", A: []string{fmt.Sprintf("validator%d", c10sVID(v))}}
}

// ---------------------------------------------------------------------------------------------
// legacy documents (ExecConfig.tla, Build1) rendered to the JSON the real parser reads

func c10wLegacyKey(k string) string {
	switch k {
	case "V1":
		return fmt.Sprintf("%#x", c11Pubkeys[1])
	case "V2":
		return fmt.Sprintf("%#x", c11Pubkeys[2])
	case "K1":
		return fmt.Sprintf("%#x", c10sKey(0x21))
	}
	return fmt.Sprintf("%#x", c10sKey(0x22))
}

func c10wLegacyObj(src c10sObj) c10sObj {
	o := c10sObj{}
	for _, f := range []string{"fr", "gl"} {
		if tok, ok := src[f].(string); ok {
			if f == "gl" && tok == "0" {
				o[c10sJSONName[f]] = "0"
				continue
			}
			o[c10sJSONName[f]] = c10sText(f, tok)
		}
	}
	if b, ok := src["builder"].(c10sObj); ok {
		bo := c10sObj{"enabled": b["enabled"]}
		if g, ok := b["gr"].(string); ok {
			bo["grace"] = c10sText("gr", g)
		}
		relays := []string{}
		if arr, ok := b["relays"].([]any); ok {
			for _, a := range arr {
				relays = append(relays, c10sRelayAddr(a.(string)))
			}
		}
		if len(relays) > 0 {
			bo["relays"] = relays
		}
		o["builder"] = bo
	}
	return o
}

func c10wRender(doc c10sObj) []byte {
	if v, _ := doc["version"].(float64); v == 2 {
		return c10sRender(doc)
	}
	out := c10sObj{"default_config": c10wLegacyObj(doc["default"].(c10sObj))}
	pc := c10sObj{}
	for _, p := range c10sList(doc["proposers"]) {
		pc[c10wLegacyKey(p["key"].(string))] = c10wLegacyObj(p)
	}
	if len(pc) > 0 {
		out["proposer_config"] = pc
	}
	data, err := json.Marshal(out)
	if err != nil {
		panic(err)
	}
	return data
}

// ---------------------------------------------------------------------------------------------
// the recording wrapper around the REAL account manager

type c10wCall struct {
	id   int
	kind string
	v    string
	inj  string
	look string // what the account manager answered ("" = it was not asked)
}

type c10wManager interface {
	ValidatingAccountsForEpoch(ctx context.Context, epoch phase0.Epoch) (map[phase0.ValidatorIndex]e2wtypes.Account, error)
	ValidatingAccountsForEpochByIndex(ctx context.Context, epoch phase0.Epoch, indices []phase0.ValidatorIndex) (map[phase0.ValidatorIndex]e2wtypes.Account, error)
	SyncCommitteeAccountsForEpoch(ctx context.Context, epoch phase0.Epoch) (map[phase0.ValidatorIndex]e2wtypes.Account, error)
	SyncCommitteeAccountsForEpochByIndex(ctx context.Context, epoch phase0.Epoch, indices []phase0.ValidatorIndex) (map[phase0.ValidatorIndex]e2wtypes.Account, error)
	AccountByPublicKey(ctx context.Context, pubkey phase0.BLSPubKey) (e2wtypes.Account, error)
}

type c10wAccounts struct {
	real c10wManager
	tr   *verifsupport.Trace
	sc   int
	keys map[phase0.BLSPubKey]string // public key -> "V1" / "V2"

	mu         sync.Mutex
	cur        *c10wCall   // the by-key entry point in progress
	round      []*c10wCall // the calls of the listing-based round in progress (one per validator of the store)
	listings   int
	failBehind bool // New()'s own registration round finds no accounts (as in c11NewSystem)
	cond       *sync.Cond
}

func (a *c10wAccounts) emit(ev verifsupport.Ev) {
	ev["sc"] = a.sc
	a.tr.Emit(ev)
}

func (a *c10wAccounts) AccountByPublicKey(ctx context.Context, pubkey phase0.BLSPubKey) (e2wtypes.Account, error) {
	a.mu.Lock()
	cur := a.cur
	a.mu.Unlock()
	if cur != nil && cur.inj == "error" {
		cur.look = "error"
		a.emit(verifsupport.Ev{"ev": "CallLookup", "i": cur.id, "out": "error"})
		return nil, errors.New("scripted account manager failure")
	}
	acc, err := a.real.AccountByPublicKey(ctx, pubkey)
	if cur != nil && a.keys[pubkey] == cur.v && cur.look == "" {
		cur.look = "found"
		if err != nil || acc == nil {
			cur.look = "notfound"
		}
		a.emit(verifsupport.Ev{"ev": "CallLookup", "i": cur.id, "out": cur.look})
	}
	return acc, err
}

func (a *c10wAccounts) ValidatingAccountsForEpoch(ctx context.Context, epoch phase0.Epoch) (map[phase0.ValidatorIndex]e2wtypes.Account, error) {
	a.mu.Lock()
	a.listings++
	a.cond.Broadcast()
	fail := a.failBehind && a.listings >= 2
	round := a.round
	a.round = nil
	a.mu.Unlock()
	if fail {
		return nil, errors.New("scripted accounts failure (start-up round)")
	}
	res, err := a.real.ValidatingAccountsForEpoch(ctx, epoch)
	listed := map[string]bool{}
	for _, acc := range res {
		listed[a.keys[util.ValidatorPubkey(acc)]] = true
	}
	for _, c := range round {
		c.look = "notfound"
		if err == nil && listed[c.v] {
			c.look = "found"
		}
		a.emit(verifsupport.Ev{"ev": "CallLookup", "i": c.id, "out": c.look})
	}
	return res, err
}

func (a *c10wAccounts) ValidatingAccountsForEpochByIndex(ctx context.Context, epoch phase0.Epoch, indices []phase0.ValidatorIndex) (map[phase0.ValidatorIndex]e2wtypes.Account, error) {
	return a.real.ValidatingAccountsForEpochByIndex(ctx, epoch, indices)
}

func (a *c10wAccounts) SyncCommitteeAccountsForEpoch(ctx context.Context, epoch phase0.Epoch) (map[phase0.ValidatorIndex]e2wtypes.Account, error) {
	return a.real.SyncCommitteeAccountsForEpoch(ctx, epoch)
}

func (a *c10wAccounts) SyncCommitteeAccountsForEpochByIndex(ctx context.Context, epoch phase0.Epoch, indices []phase0.ValidatorIndex) (map[phase0.ValidatorIndex]e2wtypes.Account, error) {
	return a.real.SyncCommitteeAccountsForEpochByIndex(ctx, epoch, indices)
}

func (a *c10wAccounts) waitListings(n int) {
	a.mu.Lock()
	for a.listings < n {
		a.cond.Wait()
	}
	a.mu.Unlock()
}

// ---------------------------------------------------------------------------------------------
// recorders one layer out: bid strategy, relays, beacon nodes

type c10wBids struct {
	mu   sync.Mutex
	seen []*beaconblockproposer.ProposerConfig
}

func (b *c10wBids) BuilderBid(_ context.Context, _ phase0.Slot, _ phase0.Hash32, _ phase0.BLSPubKey,
	proposerConfig *beaconblockproposer.ProposerConfig, _ map[phase0.BLSPubKey]*blockrelay.BuilderConfig,
) (*blockauctioneer.Results, error) {
	b.mu.Lock()
	b.seen = append(b.seen, proposerConfig)
	b.mu.Unlock()
	return &blockauctioneer.Results{
		Participation: map[string]*blockauctioneer.Participation{},
		AllProviders:  []builderclient.BuilderBidProvider{},
		Providers:     []builderclient.BuilderBidProvider{},
	}, nil
}

func (b *c10wBids) take() []*beaconblockproposer.ProposerConfig {
	b.mu.Lock()
	defer b.mu.Unlock()
	res := b.seen
	b.seen = nil
	return res
}

type c10wReg struct {
	relay string
	key   phase0.BLSPubKey
	fr    string
	gl    string
}

type c10wRelayBook struct {
	mu   sync.Mutex
	regs []c10wReg
}

func (b *c10wRelayBook) take() []c10wReg {
	b.mu.Lock()
	defer b.mu.Unlock()
	res := b.regs
	b.regs = nil
	return res
}

type c10wRelay struct {
	name string
	book atomic.Pointer[c10wRelayBook]
}

func (r *c10wRelay) Name() string              { return "verif recording relay" }
func (r *c10wRelay) Address() string           { return c10sRelayAddr(r.name) }
func (r *c10wRelay) Pubkey() *phase0.BLSPubKey { return nil }

func (r *c10wRelay) SubmitValidatorRegistrations(_ context.Context, opts *builderapi.SubmitValidatorRegistrationsOpts) error {
	book := r.book.Load()
	if book == nil {
		return errors.New("no history in progress")
	}
	book.mu.Lock()
	defer book.mu.Unlock()
	for _, reg := range opts.Registrations {
		if reg == nil || reg.V1 == nil || reg.V1.Message == nil {
			book.regs = append(book.regs, c10wReg{relay: r.name, fr: "?nil", gl: "?nil"})
			continue
		}
		msg := reg.V1.Message
		book.regs = append(book.regs, c10wReg{
			relay: r.name,
			key:   msg.Pubkey,
			fr:    c10sTok("fr", func(i int) bool { return c10sFee(i) == msg.FeeRecipient }, "", false),
			gl:    c10sTok("gl", func(i int) bool { return c10sGas(i) == msg.GasLimit }, "", false),
		})
	}
	return nil
}

var _ builderclient.ValidatorRegistrationsSubmitter = (*c10wRelay)(nil)

var (
	c10wRelaysOnce sync.Once
	c10wRelays     []*c10wRelay
)

func c10wInstallRelays(book *c10wRelayBook) {
	c10wRelaysOnce.Do(func() {
		for _, n := range []string{"R1", "R2", "R3"} {
			r := &c10wRelay{name: n}
			c10wRelays = append(c10wRelays, r)
			util.VerifSetBuilderClient(c10sRelayAddr(n), r)
		}
	})
	for _, r := range c10wRelays {
		r.book.Store(book)
	}
}

type c10wNode struct {
	mu    sync.Mutex
	preps map[phase0.ValidatorIndex]string
	calls chan struct{}
}

func (n *c10wNode) Name() string    { return "verif recording node" }
func (n *c10wNode) Address() string { return "node1" }
func (n *c10wNode) IsActive() bool  { return true }
func (n *c10wNode) IsSynced() bool  { return true }

func (n *c10wNode) SubmitProposalPreparations(_ context.Context, preparations []*consensusapiv1.ProposalPreparation) error {
	n.mu.Lock()
	for _, p := range preparations {
		if p != nil {
			fee := p.FeeRecipient
			n.preps[p.ValidatorIndex] = c10sTok("fr", func(i int) bool { return c10sFee(i) == fee }, "", false)
		}
	}
	n.mu.Unlock()
	n.calls <- struct{}{}
	return nil
}

// ---------------------------------------------------------------------------------------------
// one wired instance

type c10wWorld struct {
	t      *testing.T
	dir    string
	u      *c13support.Universe
	signer *standardsigner.Service
	index  map[string]phase0.ValidatorIndex
}

type c10wInstance struct {
	w     *c10wWorld
	run   *c10sRun
	am    *walletam.Service
	acc   *c10wAccounts
	prep  *standardpreparer.Service
	bids  *c10wBids
	book  *c10wRelayBook
	node  *c10wNode
	store []string // the validators whose accounts are in the wallet store in this history
	slot  uint64
}

func (in *c10wInstance) offer(known []string) {
	offer := make([]c13support.Name, 0, len(known))
	for _, v := range known {
		offer = append(offer, c10wName(v))
	}
	if err := in.w.u.ShowOnly(in.w.dir, offer); err != nil {
		in.w.t.Fatalf("offer: %v", err)
	}
}

// held reads, through the manager's own interface, which of the validators it holds an account for.
func (in *c10wInstance) held(ctx context.Context) []string {
	res := []string{}
	for _, v := range c10wVs {
		if acc, err := in.am.AccountByPublicKey(ctx, c11Pubkeys[c10sVID(v)]); err == nil && acc != nil {
			res = append(res, v)
		}
	}
	return res
}

func c10wNewInstance(ctx context.Context, w *c10wWorld, tr *verifsupport.Trace, sc int, reset c10wStep) *c10wInstance {
	t := w.t
	in := &c10wInstance{w: w, store: reset.Known, bids: &c10wBids{}, book: &c10wRelayBook{},
		node: &c10wNode{preps: map[phase0.ValidatorIndex]string{}, calls: make(chan struct{}, 16)}, slot: 1000}
	c10wInstallRelays(in.book)
	in.offer(reset.Known)

	node := c13support.NewNode(w.u)
	recs := make([]c13support.Rec, 0, 2)
	for _, v := range c10wVs {
		recs = append(recs, c13support.Rec{N: c10wName(v), Index: uint64(w.index[v]), Elig: 0, Act: 0,
			Exit: c13support.ModelFFE, Wd: c13support.ModelFFE})
	}
	node.Script("ok", recs)
	vm := c13support.NewValidatorsManager(ctx, t, node)
	ct := verifsupport.NewChainTime(32, 12*time.Second)
	ct.SetSlot(3 * 32)
	am, err := walletam.New(ctx,
		walletam.WithLogLevel(zerolog.Disabled),
		walletam.WithMonitor(nullmetrics.New()),
		walletam.WithProcessConcurrency(2),
		walletam.WithLocations([]string{w.dir}),
		walletam.WithAccountPaths([]string{"Wallet"}),
		walletam.WithPassphrases([][]byte{[]byte(c13support.Passphrase)}),
		walletam.WithValidatorsManager(vm),
		walletam.WithSpecProvider(mock.NewSpecProvider()),
		walletam.WithFarFutureEpochProvider(mock.NewFarFutureEpochProvider(c13support.FarFutureEpoch)),
		walletam.WithDomainProvider(mock.NewDomainProvider()),
		walletam.WithCurrentEpochProvider(ct),
	)
	if err != nil {
		t.Fatalf("wallet account manager New: %v", err)
	}
	in.am = am
	acc := &c10wAccounts{real: am, tr: tr, sc: sc, keys: map[phase0.BLSPubKey]string{}, failBehind: true}
	acc.cond = sync.NewCond(&acc.mu)
	for _, v := range c10wVs {
		acc.keys[c11Pubkeys[c10sVID(v)]] = v
	}
	in.acc = acc

	env := c11NewEnv(t, tr, sc, nil)
	env.quiet = true
	env.rawDocs = map[int][]byte{}
	for i, d := range reset.Docs {
		env.rawDocs[i+1] = c10wRender(d)
	}
	env.srcOut, env.srcDoc = "error", 0
	if reset.Init != 0 {
		env.srcOut, env.srcDoc = "good", reset.Init
	}
	sched := verifsupport.NewScheduler()
	sctx, cancel := context.WithCancel(ctx)
	svc, err := New(sctx,
		WithLogLevel(zerolog.Disabled),
		WithMonitor(nullmetrics.New()),
		WithMajordomo(&c11Majordomo{env: env}),
		WithScheduler(sched),
		WithListenAddress("127.0.0.1:0"),
		WithChainTime(ct),
		WithConfigURL("verif://execution-config"),
		WithFallbackFeeRecipient(c11FeeAddr(0)),
		WithFallbackGasLimit(c11FallbackGas),
		WithAccountsProvider(acc),
		WithValidatorsProvider(mock.NewValidatorsProvider()),
		WithValidatingAccountsProvider(acc),
		WithValidatorRegistrationSigner(w.signer),
		WithSecondaryValidatorRegistrationsSubmitters([]consensusclient.ValidatorRegistrationsSubmitter{}),
		WithReleaseVersion("verif"),
		WithBuilderBidProvider(in.bids),
	)
	if err != nil {
		t.Fatalf("blockrelay New: %v", err)
	}
	// the registration round New() starts behind the caller's back finds no accounts; wait until it is over
	acc.waitListings(2)
	if err := svc.activitySem.Acquire(ctx, 1); err != nil {
		t.Fatalf("semaphore: %v", err)
	}
	svc.activitySem.Release(1)
	acc.mu.Lock()
	acc.failBehind = false
	acc.mu.Unlock()
	for _, name := range []string{c11FetchJob, c11RegisterJob} {
		if sched.Get(name) == nil {
			t.Fatalf("block relay did not register job %q", name)
		}
	}
	prep, err := standardpreparer.New(ctx,
		standardpreparer.WithLogLevel(zerolog.Disabled),
		standardpreparer.WithMonitor(nullmetrics.New()),
		standardpreparer.WithChainTimeService(ct),
		standardpreparer.WithValidatingAccountsProvider(acc),
		standardpreparer.WithProposalPreparationsSubmitters([]consensusclient.ProposalPreparationsSubmitter{in.node}),
		standardpreparer.WithExecutionConfigProvider(svc),
	)
	if err != nil {
		t.Fatalf("proposal preparer New: %v", err)
	}
	in.prep = prep
	sys := &c11System{ct: ct, env: env, svc: svc, sched: sched, cancel: cancel}
	in.run = &c10sRun{tr: tr, sc: sc, sys: sys, ctx: sctx, wd: c10sWatchdog()}
	return in
}

func (in *c10wInstance) emit(ev verifsupport.Ev) { in.run.emit(ev) }

func (in *c10wInstance) newCall(kind, v, inj string, acct bool) *c10wCall {
	in.run.n++
	c := &c10wCall{id: in.run.n, kind: kind, v: v, inj: inj}
	in.emit(verifsupport.Ev{"ev": "CallStart", "i": c.id, "kind": kind, "v": v, "acct": acct})
	return c
}

func (in *c10wInstance) gaveUp(c *c10wCall) {
	in.emit(verifsupport.Ev{"ev": "CallReturn", "i": c.id, "v": c.v, "ok": false, "gaveup": true,
		"res": c10sObj{"fr": "none", "relays": []c10sObj{}}})
}

func (in *c10wInstance) used(c *c10wCall, res c10sObj) {
	in.emit(verifsupport.Ev{"ev": "CallReturn", "i": c.id, "v": c.v, "ok": true, "res": res})
}

// guarded runs fn on a goroutine of its own: a panic is a Crash line, no return within the watchdog a Hung line.
func (in *c10wInstance) guarded(what string, id int, fn func()) bool {
	done := make(chan struct{})
	var crashed atomic.Bool
	go func() {
		defer close(done)
		defer func() {
			if p := recover(); p != nil {
				crashed.Store(true)
				in.emit(verifsupport.Ev{"ev": "Crash", "what": what, "i": id, "panic": fmt.Sprint(p)})
			}
		}()
		fn()
	}()
	if !in.run.wait(done, what, id) {
		return false
	}
	if crashed.Load() {
		in.run.hung = true // the history ends here
		return false
	}
	return true
}

// a call of an entry point that finds the account out by public key, or is handed it
func (in *c10wInstance) call(st c10wStep) {
	r := in.run
	c := in.newCall(st.Kind, st.V, st.Inj, st.Acct)
	key := c11Pubkeys[c10sVID(st.V)]
	in.acc.mu.Lock()
	in.acc.cur = c
	in.acc.mu.Unlock()
	defer func() {
		in.acc.mu.Lock()
		in.acc.cur = nil
		in.acc.mu.Unlock()
	}()
	in.slot++
	slot := phase0.Slot(in.slot)
	var parent phase0.Hash32
	parent[0], parent[1] = byte(in.slot), byte(in.slot>>8)
	switch st.Kind {
	case "direct":
		// the caller holds the account object itself (a scheduled duty keeps it whatever the manager does later)
		var account e2wtypes.Account
		if st.Acct {
			account = in.w.u.Accounts[c10wName(st.V).Text()]
		}
		var pc *beaconblockproposer.ProposerConfig
		var err error
		if !in.guarded("call", c.id, func() { pc, err = r.sys.svc.ProposerConfig(r.ctx, account, key) }) {
			return
		}
		if err != nil || pc == nil {
			in.emit(verifsupport.Ev{"ev": "CallReturn", "i": c.id, "v": c.v, "ok": false, "res": c10sObj{"fr": "none", "relays": []c10sObj{}}})
			return
		}
		in.used(c, c10sAnswer(pc))
	case "check":
		// commands.go, proposerConfigCheck: AccountByPublicKey on the account manager, then ProposerConfig
		var pc *beaconblockproposer.ProposerConfig
		var err error
		if !in.guarded("call", c.id, func() {
			var account e2wtypes.Account
			account, err = in.acc.AccountByPublicKey(r.ctx, key)
			if err != nil {
				return
			}
			pc, err = r.sys.svc.ProposerConfig(r.ctx, account, key)
		}) {
			return
		}
		if err != nil || pc == nil {
			in.gaveUp(c)
			return
		}
		in.used(c, c10sAnswer(pc))
	case "auction", "bid":
		in.bids.take()
		var err error
		if !in.guarded("call", c.id, func() {
			if st.Kind == "auction" {
				_, err = r.sys.svc.AuctionBlock(r.ctx, slot, parent, key)
			} else {
				_, err = r.sys.svc.BuilderBid(r.ctx, slot, parent, key)
			}
		}) {
			return
		}
		seen := in.bids.take()
		switch {
		case len(seen) == 1 && seen[0] != nil:
			in.used(c, c10sAnswer(seen[0]))
		case len(seen) == 0 && err == nil:
			// no relay to ask: the strategy was not called
			in.used(c, c10sObj{"fr": "none", "relays": []c10sObj{}})
		case len(seen) == 0:
			in.gaveUp(c)
		default:
			in.emit(verifsupport.Ev{"ev": "CallReturn", "i": c.id, "v": c.v, "ok": false, "auctions": len(seen),
				"res": c10sObj{"fr": "none", "relays": []c10sObj{}}})
		}
	default:
		in.w.t.Fatalf("unknown kind %q", st.Kind)
	}
}

// a registration round / a run of the preparer: one call per validator whose account is in the wallet store
func (in *c10wInstance) round(st c10wStep) {
	r := in.run
	calls := make([]*c10wCall, 0, len(in.store))
	for _, v := range in.store {
		calls = append(calls, in.newCall(st.Kind, v, "none", true))
	}
	in.acc.mu.Lock()
	in.acc.round = calls
	in.acc.mu.Unlock()
	switch st.Kind {
	case "reg":
		in.book.take()
		if !in.guarded("round", 0, func() { r.sys.sched.Get(c11RegisterJob).Func(r.ctx) }) {
			return
		}
		regs := in.book.take()
		for _, c := range calls {
			relays := []c10sObj{}
			for _, g := range regs {
				if g.key == c11Pubkeys[c10sVID(c.v)] {
					relays = append(relays, c10sObj{"addr": g.relay, "fr": g.fr, "gl": g.gl})
				}
			}
			sort.Slice(relays, func(i, j int) bool { return relays[i]["addr"].(string) < relays[j]["addr"].(string) })
			if len(relays) == 0 && c.look != "found" {
				in.gaveUp(c)
				continue
			}
			in.used(c, c10sObj{"fr": "none", "relays": relays})
		}
	case "prep":
		in.node.mu.Lock()
		in.node.preps = map[phase0.ValidatorIndex]string{}
		in.node.mu.Unlock()
		var err error
		if !in.guarded("round", 0, func() { err = in.prep.UpdatePreparations(r.ctx) }) {
			return
		}
		anyListed := false
		for _, c := range calls {
			anyListed = anyListed || c.look == "found"
		}
		if err == nil && anyListed {
			// the submission runs on a goroutine of the preparer's own
			if !r.wait(in.node.calls, "prep", 0) {
				return
			}
		}
		in.node.mu.Lock()
		preps := in.node.preps
		in.node.mu.Unlock()
		for _, c := range calls {
			fr, ok := preps[in.w.index[c.v]]
			if !ok && c.look != "found" {
				in.gaveUp(c)
				continue
			}
			if !ok {
				fr = "none"
			}
			in.used(c, c10sObj{"fr": fr, "relays": []c10sObj{}})
		}
	default:
		in.w.t.Fatalf("unknown round %q", st.Kind)
	}
	in.acc.mu.Lock()
	in.acc.round = nil
	in.acc.mu.Unlock()
}

func c10wRunScenario(ctx context.Context, w *c10wWorld, tr *verifsupport.Trace, sc c10wScenario) {
	t := w.t
	if len(sc.Steps) == 0 || sc.Steps[0].Ev != "Reset" {
		t.Fatalf("scenario %d does not start with Reset", sc.Sc)
	}
	reset := sc.Steps[0]
	if c10sHung.Load() >= 3 {
		tr.Emit(verifsupport.Ev{"sc": sc.Sc, "ev": "Reset", "init": reset.Init, "known": reset.Known, "skipped": true})
		return
	}
	in := c10wNewInstance(ctx, w, tr, sc.Sc, reset)
	defer in.run.sys.close()
	in.emit(verifsupport.Ev{"ev": "Reset", "init": reset.Init, "known": in.held(ctx)})
	for _, st := range sc.Steps[1:] {
		if in.run.hung {
			break
		}
		switch st.Ev {
		case "Call":
			in.call(st)
		case "Round":
			in.round(st)
		case "Fetch":
			in.run.fetch(st.Out, st.Doc, false)
		case "Refresh":
			in.offer(st.Known)
			if !in.guarded("refresh", 0, func() { in.am.Refresh(ctx) }) {
				break
			}
			in.emit(verifsupport.Ev{"ev": "AcctRefresh", "known": in.held(ctx)})
		default:
			t.Fatalf("unknown step %q", st.Ev)
		}
	}
	// leave the store as it was found
	in.offer(c10wVs)
}

func TestVerifC10Wired(t *testing.T) {
	var scenarios []c10wScenario
	verifsupport.Scenarios(t, &scenarios)
	tr := verifsupport.OpenTrace(t)
	defer tr.Close()
	ctx := context.Background()
	c11InitKeys(t)

	dir := t.TempDir()
	store := filesystem.New(filesystem.WithLocation(dir))
	u := c13support.BuildUniverse(ctx, t, store, map[string][][]string{"Wallet": {{"validator1"}, {"validator2"}}})
	w := &c10wWorld{t: t, dir: dir, u: u, index: map[string]phase0.ValidatorIndex{"V1": 101, "V2": 102}}
	// the documents name the validators by the public keys of the REAL accounts
	for _, v := range c10wVs {
		c11Pubkeys[c10sVID(v)] = util.ValidatorPubkey(u.Accounts[c10wName(v).Text()])
	}
	sg, err := standardsigner.New(ctx,
		standardsigner.WithLogLevel(zerolog.Disabled),
		standardsigner.WithMonitor(nullmetrics.New()),
		standardsigner.WithClientMonitor(nullmetrics.New()),
		standardsigner.WithSpecProvider(mock.NewSpecProvider()),
		standardsigner.WithDomainProvider(mock.NewDomainProvider()),
	)
	if err != nil {
		t.Fatalf("signer New: %v", err)
	}
	w.signer = sg
	for _, sc := range scenarios {
		c10wRunScenario(ctx, w, tr, sc)
	}
}
