package standard

// Conformance driver for property C09 (spec/Auction.tla).  Injected with -overlay by /verif/check.
//
// One scenario = one HISTORY on ONE instance: a real builderbid/best or builderbid/deadline strategy
// service below a real block relay service (AuctionBlock / BuilderBid), both created for the history
// and used for all of its auctions (as main.go creates them once per process).  The same relay
// addresses (and builder public keys) recur in every auction of the history with that auction's own
// relay configurations (minimum value, public key, grace), builder catalogue and bids; auctions are run
// one after the other or overlapping (the next AuctionBlock is called while the previous one is in
// progress), BuilderBid is asked in between.  Nothing is shared between scenarios but the process.
//
// Two families (field `family` of the Reset step).  "fake": relays are in-process fakes registered through the
// overlay seam util.VerifSetBuilderClient (one fake per spelling of a relay's address: no key, K1 or K2 in the
// user-information part), the execution configuration is a fake, a wrapper substitutes the builder catalogue per
// auction.  "wired" (zz_verif_c09_wired_test.go): nothing between the block relay service and the relay servers is
// replaced - real execution configuration V2 parsed from a generated document, the real strategy handed to the
// service as main.go does, real util.FetchBuilderClient and go-builder-client HTTP clients, httptest relay
// servers that sign with chosen keys; other users of the client cache (registration submission) run in between.
// In both families the answers are real VersionedSignedBuilderBid objects signed
// with harness BLS keys under the application-builder domain, so the strategies' own eligibility
// and signature checks run.  Time is the observed quantity: every delivery and return instant is
// classified against the strategy's time-outs as before / ambiguous / after (DESIGN 2.2) and the
// trace specification lets TLC choose for ambiguous instants.

import (
	"context"
	"crypto/sha256"
	"errors"
	"fmt"
	"math/big"
	"math/rand"
	"net/url"
	"os"
	"sort"
	"sync"
	"testing"
	"time"

	"github.com/attestantio/go-block-relay/services/blockauctioneer"
	builderclient "github.com/attestantio/go-builder-client"
	builderapi "github.com/attestantio/go-builder-client/api"
	builderbellatrix "github.com/attestantio/go-builder-client/api/bellatrix"
	buildercapella "github.com/attestantio/go-builder-client/api/capella"
	builderdeneb "github.com/attestantio/go-builder-client/api/deneb"
	builderspec "github.com/attestantio/go-builder-client/spec"
	consensusclient "github.com/attestantio/go-eth2-client"
	consensusapi "github.com/attestantio/go-eth2-client/api"
	consensusspec "github.com/attestantio/go-eth2-client/spec"
	"github.com/attestantio/go-eth2-client/spec/bellatrix"
	"github.com/attestantio/go-eth2-client/spec/capella"
	"github.com/attestantio/go-eth2-client/spec/deneb"
	"github.com/attestantio/go-eth2-client/spec/phase0"
	"github.com/attestantio/vouch/mock"
	mockaccountmanager "github.com/attestantio/vouch/services/accountmanager/mock"
	"github.com/attestantio/vouch/services/beaconblockproposer"
	"github.com/attestantio/vouch/services/blockrelay"
	nullmetrics "github.com/attestantio/vouch/services/metrics/null"
	mocksigner "github.com/attestantio/vouch/services/signer/mock"
	"github.com/attestantio/vouch/strategies/builderbid"
	bestbuilderbid "github.com/attestantio/vouch/strategies/builderbid/best"
	deadlinebuilderbid "github.com/attestantio/vouch/strategies/builderbid/deadline"
	"github.com/attestantio/vouch/util"
	"github.com/attestantio/vouch/verifsupport"
	"github.com/holiman/uint256"
	"github.com/rs/zerolog"
	"github.com/shopspring/decimal"
	"github.com/spf13/viper"
	e2types "github.com/wealdtech/go-eth2-types/v2"
	e2wtypes "github.com/wealdtech/go-eth2-wallet-types/v2"
	"github.com/wealdtech/go-majordomo"
	standardmajordomo "github.com/wealdtech/go-majordomo/standard"
)

// ---------------------------------------------------------------------------------------------
// scenario input (a behaviour of Scen_Auction: only the environment's part is used)

type c09Answer struct {
	Kind    string `json:"kind"`
	Val     int64  `json:"val"`
	Bld     string `json:"bld"`
	Hdr     int    `json:"hdr"`
	FeeZero bool   `json:"feeZero"`
	TsOk    bool   `json:"tsOk"`
	Sig     string `json:"sig"`
}

type c09RelayCfg struct {
	Min   int64  `json:"min"`
	Key   string `json:"key"` // public_key of the relay configuration: "none", "config" (K1), "config2" (K2)
	Grace int    `json:"grace"`
	Sp    string `json:"sp"` // the key spelled in the user-information part of the relay address: "none", "K1", "K2"
}

type c09BuilderCfg struct {
	HasOff bool  `json:"hasOff"`
	Off    int64 `json:"off"`
	HasFac bool  `json:"hasFac"`
	Fac    int64 `json:"fac"`
}

// c09KeyID is a (slot, parent, pubkey) key of the specification: small numbers per component.
type c09KeyID struct {
	S int `json:"s"`
	P int `json:"p"`
	V int `json:"v"`
}

type c09Step struct {
	Ev       string                   `json:"ev"`
	Variant  string                   `json:"variant"`
	Family   string                   `json:"family"`
	Cfgv     int                      `json:"cfgv"` // wired family: version of the execution configuration document (1 | 2)
	Mode     string                   `json:"mode"`
	Sp       string                   `json:"sp"`
	Via      string                   `json:"via"`
	I        int                      `json:"i"`
	Key      c09KeyID                 `json:"key"`
	Cfg      []c09RelayCfg            `json:"cfg"`
	Tab      string                   `json:"tab"`
	Builders map[string]c09BuilderCfg `json:"builders"`
	R        int                      `json:"r"`
	N        int                      `json:"n"`
	A        c09Answer                `json:"a"`
	Ph       int                      `json:"ph"`
}

type c09Scenario struct {
	Sc    int       `json:"sc"`
	Steps []c09Step `json:"steps"`
}

// ---------------------------------------------------------------------------------------------
// timing

const (
	c09Timeout   = 400 * time.Millisecond // best: hard time-out (soft = half); deadline: deadline into the slot
	c09Eps       = 100 * time.Millisecond // 25 % of the time-out
	c09BidGap    = 25 * time.Millisecond
	c09GraceDur  = 30 * time.Millisecond
	c09Noise     = 25 * time.Millisecond // scheduling lateness above which a run is repeated
	c09Window    = 50 * time.Millisecond // a delivered bid is taken from the channel within this time (trace spec)
	c09HangAfter = 5 * time.Second       // an AuctionBlock / BuilderBid call that has not returned by then is recorded as Hung
)

// c09Phases returns the clock phases (0 before the soft time-out, 1 between soft and hard, 2 after
// the hard time-out / deadline) compatible with instant d (relative to the start of the auction).
func c09Phases(variant string, d time.Duration, widen bool) []int {
	if widen {
		if variant == "deadline" {
			return []int{0, 2}
		}
		return []int{0, 1, 2}
	}
	if variant == "deadline" {
		switch {
		case d < c09Timeout-c09Eps:
			return []int{0}
		case d <= c09Timeout+c09Eps:
			return []int{0, 2}
		default:
			return []int{2}
		}
	}
	soft := c09Timeout / 2
	switch {
	case d < soft-c09Eps:
		return []int{0}
	case d <= soft+c09Eps:
		return []int{0, 1}
	case d < c09Timeout-c09Eps:
		return []int{1}
	case d <= c09Timeout+c09Eps:
		return []int{1, 2}
	default:
		return []int{2}
	}
}

// c09ReturnPhases is c09Phases for the return instant: returning later than time-out + eps is not a
// phase of the specification at all (the strategy must return by its deadline).
func c09ReturnPhases(variant string, d time.Duration, widen bool) []int {
	if d > c09Timeout+c09Eps && !widen {
		return []int{}
	}
	return c09Phases(variant, d, widen)
}

// c09Watch measures scheduling lateness: a goroutine that sleeps 2 ms at a time and records when it
// overslept by more than c09Noise; a scenario during which the machine stalled is repeated, and
// finally widened (every instant ambiguous) instead of being judged.
type c09Watch struct {
	mu     sync.Mutex
	stalls []time.Time
	stop   chan struct{}
}

func c09StartWatch() *c09Watch {
	w := &c09Watch{stop: make(chan struct{})}
	go func() {
		for {
			select {
			case <-w.stop:
				return
			default:
			}
			t := time.Now()
			time.Sleep(2 * time.Millisecond)
			if late := time.Since(t) - 2*time.Millisecond; late > c09Noise {
				w.mu.Lock()
				w.stalls = append(w.stalls, time.Now())
				w.mu.Unlock()
			}
		}
	}()
	return w
}

// stalledSince reports whether a stall was observed after from (minus the length of a stall).
func (w *c09Watch) stalledSince(from time.Time) bool {
	w.mu.Lock()
	defer w.mu.Unlock()
	for i := len(w.stalls) - 1; i >= 0; i-- {
		if w.stalls[i].After(from) {
			return true
		}
	}
	return false
}

// ---------------------------------------------------------------------------------------------
// chain time: verifsupport.ChainTime with per-slot start instants (the deadline strategy derives its
// deadline from StartOfSlot(slot), so every auction gets a slot that starts when the auction starts)

type c09ChainTime struct {
	*verifsupport.ChainTime
	mu     sync.RWMutex
	starts map[phase0.Slot]time.Time
}

func (c *c09ChainTime) StartOfSlot(slot phase0.Slot) time.Time {
	c.mu.RLock()
	t, ok := c.starts[slot]
	c.mu.RUnlock()
	if ok {
		return t
	}
	return c.ChainTime.StartOfSlot(slot)
}

func (c *c09ChainTime) setStart(slot phase0.Slot, t time.Time) {
	c.mu.Lock()
	c.starts[slot] = t
	c.mu.Unlock()
}

// ---------------------------------------------------------------------------------------------
// execution configuration: proposer config per validator public key, as of now (the driver puts
// the relay configurations of an auction in place right before it calls AuctionBlock and waits until
// the service has fetched them)

type c09ExecConfig struct {
	mu      sync.RWMutex
	configs map[phase0.BLSPubKey]*beaconblockproposer.ProposerConfig
	fetched map[phase0.BLSPubKey]chan struct{}
}

func (c *c09ExecConfig) ProposerConfig(_ context.Context, _ e2wtypes.Account, pubkey phase0.BLSPubKey,
	fallbackFeeRecipient bellatrix.ExecutionAddress, _ uint64,
) (*beaconblockproposer.ProposerConfig, error) {
	c.mu.RLock()
	defer c.mu.RUnlock()
	if pc, ok := c.configs[pubkey]; ok {
		select {
		case c.fetched[pubkey] <- struct{}{}:
		default:
		}
		return pc, nil
	}
	return &beaconblockproposer.ProposerConfig{FeeRecipient: fallbackFeeRecipient, Relays: []*beaconblockproposer.RelayConfig{}}, nil
}

func (c *c09ExecConfig) set(pubkey phase0.BLSPubKey, pc *beaconblockproposer.ProposerConfig) chan struct{} {
	ch := make(chan struct{}, 1)
	c.mu.Lock()
	c.configs[pubkey] = pc
	c.fetched[pubkey] = ch
	c.mu.Unlock()
	return ch
}

// ---------------------------------------------------------------------------------------------
// relay fakes

type c09Key struct {
	slot   phase0.Slot
	parent phase0.Hash32
	pubkey phase0.BLSPubKey
}

type c09Delivery struct {
	r, n int
	a    c09Answer
	d    time.Duration // since the origin of the auction
	at   time.Time
	id   string // wired family: the content of the bid (message root and signature), by which it is recognised in the Results
}

type c09BidID struct{ i, r, n int }

type c09Scripted struct {
	a      c09Answer
	target time.Duration // earliest instant (relative to the origin of the auction) of the reply
}

// c09Auction is one AuctionBlock call of a history.
type c09Auction struct {
	i              int
	id             c09KeyID
	key            c09Key
	cfg            []c09RelayCfg
	tab            string
	version        consensusspec.DataVersion
	builderConfigs map[phase0.BLSPubKey]*blockrelay.BuilderConfig
	scripts        map[int][]c09Scripted

	mu         sync.Mutex
	origin     time.Time // the instant the time-outs of the auction count from
	called     time.Time // the instant AuctionBlock was called
	closed     bool
	stop       chan struct{}
	calls      map[int]int
	deliveries []c09Delivery

	done    chan struct{} // closed when AuctionBlock has returned (or panicked)
	ret     time.Duration // since origin
	retAt   time.Time
	results *c09Results
	crash   string
	joined  bool
	line    verifsupport.Ev // the Auction line of the trace
}

// c09Relay is the in-process client of ONE spelling of a relay's address (fake family).
type c09Relay struct {
	in     *c09Instance
	id     int // the relay's location
	addr   string
	pubkey *phase0.BLSPubKey // what Pubkey() reports: the key spelled in the address (nil if none)
}

func (r *c09Relay) Name() string              { return "c09" }
func (r *c09Relay) Address() string           { return r.addr }
func (r *c09Relay) Pubkey() *phase0.BLSPubKey { return r.pubkey }
func (r *c09Relay) UnblindProposal(_ context.Context, _ *builderapi.UnblindProposalOpts) (*builderapi.Response[*consensusapi.VersionedSignedProposal], error) {
	return nil, errors.New("not scripted")
}

func (r *c09Relay) BuilderBid(ctx context.Context, opts *builderapi.BuilderBidOpts) (*builderapi.Response[*builderspec.VersionedSignedBuilderBid], error) {
	if opts == nil {
		r.in.noteBad(fmt.Sprintf("relay %d: nil opts", r.id))
		return nil, errors.New("nil opts")
	}
	kind, bid, err := r.in.answer(ctx, r.id, c09Key{slot: opts.Slot, parent: opts.ParentHash, pubkey: opts.PubKey}, nil)
	switch {
	case err != nil:
		return nil, err
	case kind == "nobid":
		return &builderapi.Response[*builderspec.VersionedSignedBuilderBid]{Metadata: map[string]any{}}, nil
	default:
		return &builderapi.Response[*builderspec.VersionedSignedBuilderBid]{Data: bid, Metadata: map[string]any{}}, nil
	}
}

// answer is the relay at location rid answering a request for a bid for key: it follows the script of the auction
// (waits for the scripted instant, stays silent when the script is exhausted), builds the reply and records the
// delivery.  prepare (wired family: the encoding of the reply) runs before the delivery instant is taken.
func (in *c09Instance) answer(ctx context.Context, rid int, key c09Key, prepare func(*builderspec.VersionedSignedBuilderBid) (string, error),
) (string, *builderspec.VersionedSignedBuilderBid, error) {
	in.mu.Lock()
	au := in.auctions[key]
	in.mu.Unlock()
	if au == nil {
		in.noteBad(fmt.Sprintf("relay %d: request for a key that is not being auctioned (slot %d)", rid, key.slot))
		return "", nil, errors.New("unknown request")
	}
	au.mu.Lock()
	au.calls[rid]++
	n := au.calls[rid]
	script := au.scripts[rid]
	origin := au.origin
	stop := au.stop
	closed := au.closed
	au.mu.Unlock()
	if closed {
		return "", nil, errors.New("auction over")
	}
	if n > len(script) {
		// Silence: nothing until the caller gives up or the auction is over.
		select {
		case <-ctx.Done():
			return "", nil, ctx.Err()
		case <-stop:
			return "", nil, errors.New("auction over")
		}
	}
	item := script[n-1]
	if wait := time.Until(origin.Add(item.target)); wait > 0 {
		timer := time.NewTimer(wait)
		select {
		case <-timer.C:
		case <-stop:
			timer.Stop()
			return "", nil, errors.New("auction over")
		}
	}
	// Build the reply before taking the delivery instant (signing takes a while).
	var err error
	var bid *builderspec.VersionedSignedBuilderBid
	ident := ""
	switch item.a.Kind {
	case "error":
		err = errors.New("scripted relay error")
	case "nobid":
	default:
		bid = in.makeBid(rid, au, item.a)
		if prepare != nil {
			var perr error
			if ident, perr = prepare(bid); perr != nil {
				in.noteBad(fmt.Sprintf("relay %d: cannot encode the reply: %v", rid, perr))
				return "", nil, perr
			}
		}
	}
	au.mu.Lock()
	if au.closed {
		au.mu.Unlock()
		return "", nil, errors.New("auction over")
	}
	if bid != nil && !in.wired {
		in.mu.Lock()
		in.bids[bid] = c09BidID{i: au.i, r: rid, n: n}
		in.mu.Unlock()
	}
	now := time.Now()
	au.deliveries = append(au.deliveries, c09Delivery{r: rid, n: n, a: item.a, d: now.Sub(origin), at: now, id: ident})
	au.mu.Unlock()
	return item.a.Kind, bid, err
}

// ---------------------------------------------------------------------------------------------
// what all histories share: keys and providers that are not part of the instance under test

type c09Env struct {
	t              *testing.T
	ctx            context.Context
	specProvider   consensusclient.SpecProvider
	domainProvider consensusclient.DomainProvider
	majordomo      majordomo.Service
	domain         phase0.Domain
	badSigs        []phase0.BLSSignature    // per relay location: bytes that do not deserialise as a signature
	relayKeys      []*e2types.BLSPrivateKey // per relay location: K1
	altKeys        []*e2types.BLSPrivateKey // per relay location: K2
	slotMu         sync.Mutex
	nextSlot       uint64
}

func c09BuilderPubkey(name string) phase0.BLSPubKey {
	var pk phase0.BLSPubKey
	h := sha256.Sum256([]byte("c09 builder " + name))
	copy(pk[:], h[:])
	copy(pk[32:], h[:16])
	return pk
}

func c09PrivateKey(t *testing.T, tag string) *e2types.BLSPrivateKey {
	h := sha256.Sum256([]byte("c09 key " + tag))
	h[0] &= 0x3f // below the curve order
	sk, err := e2types.BLSPrivateKeyFromBytes(h[:])
	if err != nil {
		t.Fatalf("private key: %v", err)
	}
	return sk
}

func c09NewEnv(t *testing.T, ctx context.Context) *c09Env {
	e := &c09Env{t: t, ctx: ctx, nextSlot: 1000}
	e.specProvider = mock.NewSpecProvider()
	e.domainProvider = mock.NewDomainProvider()
	d, err := e.domainProvider.GenesisDomain(ctx, phase0.DomainType{0x00, 0x00, 0x00, 0x01})
	if err != nil {
		t.Fatalf("domain: %v", err)
	}
	e.domain = d
	for i := 1; i <= 4; i++ {
		e.relayKeys = append(e.relayKeys, c09PrivateKey(t, fmt.Sprintf("relay %d", i)))
		e.altKeys = append(e.altKeys, c09PrivateKey(t, fmt.Sprintf("relay %d other", i)))
		// A signature that does not deserialise (one per relay, so that a bid is recognised by its content).
		found := false
		for b := 0; b < 256 && !found; b++ {
			var sig phase0.BLSSignature
			for k := range sig {
				sig[k] = byte(b)
			}
			sig[95] = byte(i)
			if _, err := e2types.BLSSignatureFromBytes(sig[:]); err != nil {
				e.badSigs = append(e.badSigs, sig)
				found = true
			}
		}
		if !found {
			t.Fatalf("no undeserialisable signature found")
		}
	}
	majordomoSvc, err := standardmajordomo.New(ctx)
	if err != nil {
		t.Fatalf("majordomo: %v", err)
	}
	e.majordomo = majordomoSvc
	return e
}

// slots hands out the base slot of a history (histories never share slots).
func (e *c09Env) slots() phase0.Slot {
	e.slotMu.Lock()
	defer e.slotMu.Unlock()
	e.nextSlot += 8
	return phase0.Slot(e.nextSlot)
}

// ---------------------------------------------------------------------------------------------
// the instance under test: ONE strategy service and ONE block relay service per history

// c09Provider sits between the block relay service and the real strategy: the builder catalogue is a
// parameter of the strategy call (the block relay service passes the catalogue it was created with);
// every auction of a history is run with its own.
type c09Provider struct {
	real builderbid.Provider
	in   *c09Instance
}

func (p *c09Provider) BuilderBid(ctx context.Context, slot phase0.Slot, parentHash phase0.Hash32, pubkey phase0.BLSPubKey,
	proposerConfig *beaconblockproposer.ProposerConfig, builderConfigs map[phase0.BLSPubKey]*blockrelay.BuilderConfig,
) (*blockauctioneer.Results, error) {
	p.in.mu.Lock()
	au := p.in.auctions[c09Key{slot: slot, parent: parentHash, pubkey: pubkey}]
	p.in.mu.Unlock()
	if au != nil {
		builderConfigs = au.builderConfigs
	}
	return p.real.BuilderBid(ctx, slot, parentHash, pubkey, proposerConfig, builderConfigs)
}

// c09LogResults decides blockrelay.log-results for an instance from its name: on for about half of the histories.
func c09LogResults(uniq string) bool {
	h := 0
	for _, c := range uniq {
		h = h*31 + int(c)
	}
	return h%2 == 0
}

type c09Instance struct {
	env        *c09Env
	ctx        context.Context
	cancel     context.CancelFunc
	variant    string
	wired      bool
	cfgv       int // wired family: version of the execution configuration documents of the history
	chainTime  *c09ChainTime
	execConfig *c09ExecConfig // fake family
	svc        *Service
	nrel       int
	addrs      []map[string]string // per relay location: spelling ("none", "K1", "K2") -> address
	hosts      map[string]int      // host part of a relay address -> relay location
	baseSlot   phase0.Slot
	uniq       string
	wiredState *c09Wired // wired family: relay servers, current execution configuration

	mu       sync.Mutex
	auctions map[c09Key]*c09Auction
	bids     map[*builderspec.VersionedSignedBuilderBid]c09BidID
	bad      []string
}

func (in *c09Instance) noteBad(what string) {
	in.mu.Lock()
	in.bad = append(in.bad, what)
	in.mu.Unlock()
}

var c09Spellings = []string{"none", "K1", "K2"}

// relayKey is the private key named name ("K1", "K2") of the relay at location r.
func (in *c09Instance) relayKey(r int, name string) *e2types.BLSPrivateKey {
	if name == "K2" {
		return in.env.altKeys[r-1]
	}
	return in.env.relayKeys[r-1]
}

// relayPub is the public key named name of the relay at location r (nil for "none").
func (in *c09Instance) relayPub(r int, name string) *phase0.BLSPubKey {
	if name != "K1" && name != "K2" {
		return nil
	}
	var pub phase0.BLSPubKey
	copy(pub[:], in.relayKey(r, name).PublicKey().Marshal())
	return &pub
}

// setAddrs fixes the addresses of the relay at location r, reachable at host: http://host,
// http://0x<K1>@host, http://0x<K2>@host.
func (in *c09Instance) setAddrs(r int, host string) {
	m := map[string]string{}
	for _, sp := range c09Spellings {
		if pub := in.relayPub(r, sp); pub != nil {
			m[sp] = fmt.Sprintf("http://%#x@%s", pub[:], host)
		} else {
			m[sp] = fmt.Sprintf("http://%s", host)
		}
	}
	in.addrs[r-1] = m
	in.hosts[host] = r
}

// locOf is the relay location of a relay address as a client reports it (0 if unknown).
func (in *c09Instance) locOf(address string) int {
	u, err := url.Parse(address)
	if err != nil {
		return 0
	}
	return in.hosts[u.Host]
}

func (e *c09Env) newInstance(variant string, family string, nrel int, builderConfigs map[phase0.BLSPubKey]*blockrelay.BuilderConfig, uniq string) *c09Instance {
	t := e.t
	ctx, cancel := context.WithCancel(e.ctx)
	in := &c09Instance{
		env: e, ctx: ctx, cancel: cancel, variant: variant, uniq: uniq, wired: family == "wired", nrel: nrel,
		chainTime:  &c09ChainTime{ChainTime: verifsupport.NewChainTime(32, 12*time.Second), starts: map[phase0.Slot]time.Time{}},
		execConfig: &c09ExecConfig{configs: map[phase0.BLSPubKey]*beaconblockproposer.ProposerConfig{}, fetched: map[phase0.BLSPubKey]chan struct{}{}},
		addrs:      make([]map[string]string, nrel),
		hosts:      map[string]int{},
		baseSlot:   e.slots(),
		auctions:   map[c09Key]*c09Auction{},
		bids:       map[*builderspec.VersionedSignedBuilderBid]c09BidID{},
	}
	var strategy builderbid.Provider
	var err error
	if variant == "deadline" {
		strategy, err = deadlinebuilderbid.New(ctx,
			deadlinebuilderbid.WithLogLevel(zerolog.Disabled),
			deadlinebuilderbid.WithMonitor(nullmetrics.New()),
			deadlinebuilderbid.WithSpecProvider(e.specProvider),
			deadlinebuilderbid.WithDomainProvider(e.domainProvider),
			deadlinebuilderbid.WithChainTime(in.chainTime),
			deadlinebuilderbid.WithDeadline(c09Timeout),
			deadlinebuilderbid.WithBidGap(c09BidGap),
			deadlinebuilderbid.WithReleaseVersion("verif"),
		)
	} else {
		strategy, err = bestbuilderbid.New(ctx,
			bestbuilderbid.WithLogLevel(zerolog.Disabled),
			bestbuilderbid.WithMonitor(nullmetrics.New()),
			bestbuilderbid.WithSpecProvider(e.specProvider),
			bestbuilderbid.WithDomainProvider(e.domainProvider),
			bestbuilderbid.WithChainTime(in.chainTime),
			bestbuilderbid.WithTimeout(c09Timeout),
			bestbuilderbid.WithReleaseVersion("verif"),
		)
	}
	if err != nil {
		t.Fatalf("%s strategy: %v", variant, err)
	}
	// fake family: a wrapper substitutes the builder catalogue of the auction being run; wired family: the strategy
	// is handed to the service as main.go does and the service passes the (one) catalogue it was created with
	var bidProvider builderbid.Provider = &c09Provider{real: strategy, in: in}
	serviceBuilderConfigs := map[phase0.BLSPubKey]*blockrelay.BuilderConfig{}
	if in.wired {
		bidProvider = strategy
		serviceBuilderConfigs = builderConfigs
	}
	s, err := New(ctx,
		WithLogLevel(zerolog.Disabled),
		WithMonitor(nullmetrics.New()),
		WithMajordomo(e.majordomo),
		WithScheduler(verifsupport.NewScheduler()),
		WithListenAddress("127.0.0.1:0"),
		WithChainTime(in.chainTime),
		WithFallbackFeeRecipient(bellatrix.ExecutionAddress{0x01}),
		WithFallbackGasLimit(30000000),
		WithAccountsProvider(mockaccountmanager.NewAccountsProvider()),
		WithValidatorsProvider(mock.NewValidatorsProvider()),
		WithValidatingAccountsProvider(mockaccountmanager.NewValidatingAccountsProvider()),
		WithValidatorRegistrationSigner(mocksigner.New()),
		WithReleaseVersion("verif"),
		WithBuilderBidProvider(bidProvider),
		WithBuilderConfigs(serviceBuilderConfigs),
		// blockrelay.log-results (main.go: startBlockRelay) is part of the configuration the histories range over:
		// the participation report at the end of an auction runs with and without it
		WithLogResults(c09LogResults(uniq)),
	)
	if err != nil {
		t.Fatalf("block relay service: %v", err)
	}
	in.svc = s
	if in.wired {
		in.startWired()
		return in
	}
	s.executionConfigMu.Lock()
	s.executionConfig = in.execConfig
	s.executionConfigMu.Unlock()

	// The relays of this instance: the SAME locations in every auction of the history, every spelling of a relay's
	// address with its own client (as util.FetchBuilderClient creates them), which reports the key spelled in it.
	for r := 1; r <= nrel; r++ {
		in.setAddrs(r, fmt.Sprintf("relay%d.%s.verif", r, uniq))
		for _, sp := range c09Spellings {
			rel := &c09Relay{in: in, id: r, addr: in.addrs[r-1][sp], pubkey: in.relayPub(r, sp)}
			util.VerifSetBuilderClient(rel.addr, rel)
		}
	}
	return in
}

// close releases what the instance holds outside the process-wide client cache.
func (in *c09Instance) close() {
	in.cancel()
	if in.wiredState != nil {
		in.wiredState.close()
	}
}

// fetch is another user of util.FetchBuilderClient obtaining the client of address (r, sp).
func (in *c09Instance) fetch(r int, sp string, via string) error {
	if r < 1 || r > in.nrel {
		return fmt.Errorf("no relay %d", r)
	}
	address := in.addrs[r-1][sp]
	if in.wired && via == "registrations" {
		// the submission of validator registrations (start-up, every epoch): the real function, which fetches the
		// client of every relay address it has registrations for and posts them to the relay
		in.svc.submitRelayRegistrations(in.ctx, map[string][]*builderapi.VersionedSignedValidatorRegistration{address: {}})
		return nil
	}
	_, err := util.FetchBuilderClient(in.ctx, address, nullmetrics.New(), "verif")
	return err
}

func c09Hash(tag string, i int) (res [32]byte) {
	return sha256.Sum256([]byte(fmt.Sprintf("c09 %s %d", tag, i)))
}

// keyOf maps a key of the specification to a real (slot, parent, pubkey) of this instance: keys that
// agree in a component agree in the real component.
func (in *c09Instance) keyOf(id c09KeyID) c09Key {
	key := c09Key{slot: in.baseSlot + phase0.Slot(id.S), parent: phase0.Hash32(c09Hash("parent "+in.uniq, id.P))}
	pk := c09Hash("validator "+in.uniq, id.V)
	copy(key.pubkey[:], pk[:])
	return key
}

func c09BuilderConfigs(table map[string]c09BuilderCfg) map[phase0.BLSPubKey]*blockrelay.BuilderConfig {
	res := map[phase0.BLSPubKey]*blockrelay.BuilderConfig{}
	for name, bc := range table {
		if !bc.HasOff && !bc.HasFac {
			continue // absent from the configuration
		}
		cfg := &blockrelay.BuilderConfig{Category: name}
		if bc.HasOff {
			cfg.Offset = big.NewInt(bc.Off)
		}
		if bc.HasFac {
			cfg.Factor = big.NewInt(bc.Fac)
		}
		res[c09BuilderPubkey(name)] = cfg
	}
	return res
}

// c09ConfigKey names the key that the public_key of a relay configuration carries.
func c09ConfigKey(key string) string {
	switch key {
	case "config":
		return "K1"
	case "config2":
		return "K2"
	}
	return "none"
}

// relayConfigs generates the relay configurations of one auction (new objects for every auction, as the
// execution configuration does).
func (in *c09Instance) relayConfigs(cfg []c09RelayCfg) []*beaconblockproposer.RelayConfig {
	res := make([]*beaconblockproposer.RelayConfig, len(cfg))
	for i, c := range cfg {
		rc := &beaconblockproposer.RelayConfig{
			Address:      in.addrs[i][c.Sp],
			FeeRecipient: bellatrix.ExecutionAddress{0x01},
			GasLimit:     30000000,
			MinValue:     decimal.NewFromInt(c.Min),
		}
		rc.PublicKey = in.relayPub(i+1, c09ConfigKey(c.Key))
		if c.Grace > 0 {
			rc.Grace = c09GraceDur
		}
		res[i] = rc
	}
	return res
}

// makeBid builds and signs a real bid for answer a of relay r in auction au.
func (in *c09Instance) makeBid(r int, au *c09Auction, a c09Answer) *builderspec.VersionedSignedBuilderBid {
	feeRecipient := bellatrix.ExecutionAddress{}
	if !a.FeeZero {
		feeRecipient = bellatrix.ExecutionAddress{0x11, 0x22, 0x33}
	}
	timestamp := uint64(in.chainTime.StartOfSlot(au.key.slot).Unix())
	if !a.TsOk {
		timestamp += 12 // the start of the next slot
	}
	// The header depends on the header id (and fee recipient, timestamp) only: relays that offer the
	// same header id offer the same payload.
	blockHash := phase0.Hash32(c09Hash("block", a.Hdr))
	stateRoot := c09Hash("state", a.Hdr)
	txRoot := phase0.Root(c09Hash("tx", a.Hdr))
	value := uint256.NewInt(uint64(a.Val))
	builder := c09BuilderPubkey(a.Bld)

	bid := &builderspec.VersionedSignedBuilderBid{Version: au.version}
	switch au.version {
	case consensusspec.DataVersionBellatrix:
		bid.Bellatrix = &builderbellatrix.SignedBuilderBid{Message: &builderbellatrix.BuilderBid{
			Header: &bellatrix.ExecutionPayloadHeader{
				ParentHash: au.key.parent, FeeRecipient: feeRecipient, StateRoot: stateRoot, BlockNumber: 100,
				GasLimit: 30000000, GasUsed: 21000, Timestamp: timestamp, ExtraData: []byte{}, BlockHash: blockHash,
				TransactionsRoot: txRoot,
			},
			Value: value, Pubkey: builder,
		}}
	case consensusspec.DataVersionCapella:
		bid.Capella = &buildercapella.SignedBuilderBid{Message: &buildercapella.BuilderBid{
			Header: &capella.ExecutionPayloadHeader{
				ParentHash: au.key.parent, FeeRecipient: feeRecipient, StateRoot: stateRoot, BlockNumber: 100,
				GasLimit: 30000000, GasUsed: 21000, Timestamp: timestamp, ExtraData: []byte{}, BlockHash: blockHash,
				TransactionsRoot: txRoot,
			},
			Value: value, Pubkey: builder,
		}}
	default:
		bid.Deneb = &builderdeneb.SignedBuilderBid{Message: &builderdeneb.BuilderBid{
			Header: &deneb.ExecutionPayloadHeader{
				ParentHash: au.key.parent, FeeRecipient: feeRecipient, StateRoot: phase0.Root(stateRoot), BlockNumber: 100,
				GasLimit: 30000000, GasUsed: 21000, Timestamp: timestamp, ExtraData: []byte{}, BaseFeePerGas: uint256.NewInt(7),
				BlockHash: blockHash, TransactionsRoot: txRoot,
			},
			BlobKZGCommitments: []deneb.KZGCommitment{},
			Value:              value, Pubkey: builder,
		}}
	}

	var sig phase0.BLSSignature
	switch a.Sig {
	case "unverifiable":
		sig = in.env.badSigs[r-1]
	default:
		root, err := bid.MessageHashTreeRoot()
		if err != nil {
			panic(fmt.Sprintf("c09: message root: %v", err))
		}
		signingRoot, err := (&phase0.SigningData{ObjectRoot: root, Domain: in.env.domain}).HashTreeRoot()
		if err != nil {
			panic(fmt.Sprintf("c09: signing root: %v", err))
		}
		// "valid" = signed with the relay's key K1, "invalid" = signed with its other key K2
		sk := in.relayKey(r, "K1")
		if a.Sig == "invalid" {
			sk = in.relayKey(r, "K2")
		}
		copy(sig[:], sk.Sign(signingRoot[:]).Marshal())
	}
	switch au.version {
	case consensusspec.DataVersionBellatrix:
		bid.Bellatrix.Signature = sig
	case consensusspec.DataVersionCapella:
		bid.Capella.Signature = sig
	default:
		bid.Deneb.Signature = sig
	}
	return bid
}

// ---------------------------------------------------------------------------------------------
// one history

// c09Target is the intended reply instant of an answer delivered in clock phase ph.
func c09Target(rng *rand.Rand, variant string, ph int) time.Duration {
	ms := func(lo, hi int) time.Duration { return time.Duration(lo+rng.Intn(hi-lo+1)) * time.Millisecond }
	if rng.Intn(12) == 0 {
		// Now and then right at the time-out: exercises the ambiguous classification.
		return c09Timeout + ms(-20, 20)
	}
	if ph == 2 {
		return c09Timeout + c09Eps + 40*time.Millisecond
	}
	if variant == "deadline" {
		return ms(0, 15) // as soon as polled (the polls are paced by the strategy's bid gap)
	}
	if ph == 0 {
		return ms(0, 50)
	}
	return ms(200, 280)
}

// c09Timed is a group of trace lines with the instant that orders it among the others.
type c09Timed struct {
	at  time.Time
	evs []verifsupport.Ev
}

// start calls AuctionBlock for au on its own goroutine and returns once the service has fetched the
// relay configurations of this auction.
func (in *c09Instance) start(au *c09Auction) {
	var fetched chan struct{}
	if in.wired {
		fetched = in.installConfig(au)
	} else {
		fetched = in.execConfig.set(au.key.pubkey, &beaconblockproposer.ProposerConfig{
			FeeRecipient: bellatrix.ExecutionAddress{0x01}, Relays: in.relayConfigs(au.cfg)})
	}
	// The slot of an auction starts when the (first) auction for it starts: the deadline strategy counts its
	// deadline from the slot start, the best strategy its time-outs from the call.  Two auctions of one slot
	// that overlap share the slot start.
	now := time.Now()
	slotStart := now
	in.mu.Lock()
	for _, other := range in.auctions {
		other.mu.Lock()
		if other.key.slot == au.key.slot && !other.closed {
			slotStart = in.chainTime.StartOfSlot(au.key.slot)
		}
		other.mu.Unlock()
	}
	in.mu.Unlock()
	if slotStart.Equal(now) {
		in.chainTime.setStart(au.key.slot, now)
	}
	au.mu.Lock()
	au.called = now
	au.origin = now
	if in.variant == "deadline" {
		au.origin = slotStart
	}
	au.mu.Unlock()
	in.mu.Lock()
	in.auctions[au.key] = au
	in.mu.Unlock()

	go func() {
		defer close(au.done)
		defer func() {
			if p := recover(); p != nil {
				au.mu.Lock()
				au.crash = fmt.Sprint(p)
				if !au.closed {
					au.closed = true
					close(au.stop)
				}
				au.mu.Unlock()
			}
		}()
		r, err := in.svc.AuctionBlock(in.ctx, au.key.slot, au.key.parent, au.key.pubkey)
		au.mu.Lock()
		au.retAt = time.Now()
		au.ret = au.retAt.Sub(au.origin)
		if !au.closed { // (a call recorded as Hung has been closed by the history loop)
			au.closed = true
			close(au.stop)
		}
		au.mu.Unlock()
		res := &c09Results{err: err}
		if r != nil {
			res.fill(r, in, au)
		}
		au.mu.Lock()
		au.results = res
		au.mu.Unlock()
	}()
	select {
	case <-fetched:
	case <-au.done:
	case <-time.After(c09HangAfter):
	}
}

func (e *c09Env) runHistory(sc c09Scenario, w *c09Watch, attempt int) (events []verifsupport.Ev, noisy bool) {
	began := time.Now()
	reset := sc.Steps[0]
	variant := reset.Variant
	rng := rand.New(rand.NewSource(verifsupport.Seed()*1000003 + int64(sc.Sc)*7919 + int64(attempt)))
	widen := attempt >= 3
	uniq := fmt.Sprintf("s%d-a%d-%d", sc.Sc, attempt, rng.Int63())
	nrel := 0
	var table map[string]c09BuilderCfg
	for _, st := range sc.Steps {
		if st.Ev == "Auction" {
			nrel, table = len(st.Cfg), st.Builders
			break
		}
	}
	in := e.newInstance(variant, reset.Family, nrel, c09BuilderConfigs(table), uniq)
	in.cfgv = reset.Cfgv
	defer in.close()
	version := []consensusspec.DataVersion{consensusspec.DataVersionBellatrix, consensusspec.DataVersionCapella, consensusspec.DataVersionDeneb}[rng.Intn(3)]

	// The auctions of the history, with the answers of every relay in order.
	aucs := map[int]*c09Auction{}
	for _, st := range sc.Steps {
		switch st.Ev {
		case "Auction":
			aucs[st.I] = &c09Auction{i: st.I, id: st.Key, key: in.keyOf(st.Key), cfg: st.Cfg, tab: st.Tab, version: version,
				builderConfigs: c09BuilderConfigs(st.Builders), scripts: map[int][]c09Scripted{},
				stop: make(chan struct{}), calls: map[int]int{}, done: make(chan struct{})}
		case "Deliver":
			au := aucs[st.I]
			if au == nil {
				continue
			}
			tg := c09Target(rng, variant, st.Ph)
			if sl := au.scripts[st.R]; len(sl) > 0 && tg < sl[len(sl)-1].target {
				tg = sl[len(sl)-1].target
			}
			au.scripts[st.R] = append(au.scripts[st.R], c09Scripted{a: st.A, target: tg})
		}
	}
	if variant == "deadline" {
		// A relay that is polled again usually answers with the same bid again: now and then the last
		// answer is repeated (a new, identical object) once or twice before the relay goes silent.
		for i := 1; i <= len(aucs); i++ {
			au := aucs[i]
			for r := 1; au != nil && r <= in.nrel; r++ {
				if len(au.scripts[r]) > 0 && rng.Intn(2) == 0 {
					lastItem := au.scripts[r][len(au.scripts[r])-1]
					for k := 1 + rng.Intn(2); k > 0; k-- {
						au.scripts[r] = append(au.scripts[r], lastItem)
					}
				}
			}
		}
	}

	// The lines of one auction (Auction, Deliver..., Return) form a block that is placed at the instant the
	// auction returned; the blocks and the Serve lines are written in the order of their instants.  Auctions
	// that overlapped in real time (flag `overlapping` of the Auction line) therefore appear one after the other:
	// the specification's auctions only interact through the cache, so the steps of different auctions commute
	// and every interleaving has the same per-auction projections as this one (a reduction that keeps TLC from
	// carrying the undecided silent steps of one auction through the lines of the other).
	var timed []c09Timed
	var block *c09Timed
	note := func(at time.Time, ev verifsupport.Ev) {
		ev["sc"] = sc.Sc
		if block != nil {
			block.at = at
			block.evs = append(block.evs, ev)
			return
		}
		timed = append(timed, c09Timed{at: at, evs: []verifsupport.Ev{ev}})
	}
	if in.wired {
		// a bid is recognised in the Results by its content: a relay does not repeat an earlier answer of the auction
		// after a different one (repeats in a row are the same bid to the strategy as well)
		for _, au := range aucs {
			for r, script := range au.scripts {
				var kept []c09Scripted
				for _, item := range script {
					seen := false
					for k := 0; k+1 < len(kept); k++ {
						if kept[k].a == item.a {
							seen = true
						}
					}
					if !seen {
						kept = append(kept, item)
					}
				}
				au.scripts[r] = kept
			}
		}
	}
	note(time.Time{}, verifsupport.Ev{"ev": "Reset", "variant": variant, "family": reset.Family, "cfgv": reset.Cfgv, "mode": reset.Mode, "version": version.String(), "attempt": attempt})

	window := int64(c09Window / time.Millisecond)
	hangAfter := c09HangAfter
	if widen {
		window = 1000000
		hangAfter = 4 * c09HangAfter
	}
	hung := false // a call did not return in time: under load the history is run again like a stalled one
	open := map[int]*c09Auction{}
	failed := false
	late := false // an AuctionBlock call returned later than time-out + eps

	// join waits for AuctionBlock of au to return and records what the auction did.
	join := func(au *c09Auction) {
		if au.joined {
			return
		}
		au.joined = true
		delete(open, au.i)
		block = &c09Timed{}
		defer func() {
			timed = append(timed, *block)
			block = nil
		}()
		note(au.called, au.line)
		select {
		case <-au.done:
		case <-time.After(hangAfter):
			hung = true
			// an event no action of the specification allows; the call is abandoned
			au.mu.Lock()
			dels := len(au.deliveries)
			if !au.closed {
				au.closed = true
				close(au.stop)
			}
			au.mu.Unlock()
			note(time.Now(), verifsupport.Ev{"ev": "Hung", "i": au.i, "what": "AuctionBlock has not returned", "deliveries": dels})
			failed = true
			return
		}
		au.mu.Lock()
		dels := append([]c09Delivery{}, au.deliveries...)
		ret, retAt, results, crash := au.ret, au.retAt, au.results, au.crash
		au.mu.Unlock()
		for _, d := range dels {
			note(d.at, verifsupport.Ev{"ev": "Deliver", "i": au.i, "r": d.r, "n": d.n,
				"a":   map[string]interface{}{"kind": d.a.Kind, "val": d.a.Val, "bld": d.a.Bld, "hdr": d.a.Hdr, "feeZero": d.a.FeeZero, "tsOk": d.a.TsOk, "sig": d.a.Sig},
				"phs": c09Phases(variant, d.d, widen), "d_ms": d.d.Milliseconds(), "w_ms": window})
		}
		if crash != "" || results == nil {
			note(time.Now(), verifsupport.Ev{"ev": "Crash", "i": au.i, "what": crash})
			failed = true
			return
		}
		if ret > c09Timeout+c09Eps {
			late = true
		}
		note(retAt, verifsupport.Ev{"ev": "Return", "i": au.i, "clks": c09ReturnPhases(variant, ret, widen), "ret_ms": ret.Milliseconds(),
			"win": results.win, "prov": results.prov, "allprov": results.allprov, "part": results.part, "err": results.err != nil})
		if results.err != nil {
			note(time.Now(), verifsupport.Ev{"ev": "Crash", "i": au.i, "what": "AuctionBlock error: " + results.err.Error()})
			failed = true
		}
	}

	for _, st := range sc.Steps {
		if failed {
			break
		}
		switch st.Ev {
		case "Auction":
			au := aucs[st.I]
			if len(open) > 0 {
				// The previous auction is in progress: let it get under way (mostly a little, now and then
				// until its relays have answered), then call AuctionBlock again.
				d := time.Duration(rng.Intn(40)) * time.Millisecond
				if rng.Intn(3) == 0 {
					d = time.Duration(40+rng.Intn(180)) * time.Millisecond
				}
				time.Sleep(d)
			}
			cfgOut := make([]map[string]interface{}, len(au.cfg))
			for i, c := range au.cfg {
				cfgOut[i] = map[string]interface{}{"min": c.Min, "key": c.Key, "grace": c.Grace, "sp": c.Sp}
			}
			// does AuctionBlock of another auction really have not returned yet?
			overlapping := false
			for _, other := range open {
				other.mu.Lock()
				if !other.closed {
					overlapping = true
				}
				other.mu.Unlock()
			}
			open[au.i] = au
			in.start(au)
			au.line = verifsupport.Ev{"ev": "Auction", "i": au.i, "key": map[string]interface{}{"s": au.id.S, "p": au.id.P, "v": au.id.V},
				"cfg": cfgOut, "tab": au.tab, "overlapping": overlapping}
		case "Return":
			if au := aucs[st.I]; au != nil {
				join(au)
			}
		case "Fetch":
			// another user of the client cache; a panic in it is an event no action of the specification allows
			at := time.Now()
			var ferr error
			func() {
				defer func() {
					if p := recover(); p != nil {
						note(time.Now(), verifsupport.Ev{"ev": "Crash", "what": fmt.Sprint(p)})
						failed = true
					}
				}()
				ferr = in.fetch(st.R, st.Sp, st.Via)
			}()
			if !failed {
				note(at, verifsupport.Ev{"ev": "Fetch", "r": st.R, "sp": st.Sp, "via": st.Via, "err": ferr != nil})
			}
		case "Serve":
			var target *c09Auction
			for _, au := range aucs {
				if au.id == st.Key {
					target = au
				}
			}
			if target == nil {
				continue
			}
			join(target)
			if failed {
				break
			}
			type served struct {
				bid *builderspec.VersionedSignedBuilderBid
				err error
				p   interface{}
			}
			ch := make(chan served, 1)
			at := time.Now()
			go func() {
				var sv served
				defer func() {
					if p := recover(); p != nil {
						sv.p = p
					}
					ch <- sv
				}()
				sv.bid, sv.err = in.svc.BuilderBid(in.ctx, target.key.slot, target.key.parent, target.key.pubkey)
			}()
			var sv served
			select {
			case sv = <-ch:
			case <-time.After(hangAfter):
				hung = true
				note(time.Now(), verifsupport.Ev{"ev": "Hung", "what": "BuilderBid has not returned"})
				failed = true
			}
			if failed {
				break
			}
			if sv.p != nil {
				note(time.Now(), verifsupport.Ev{"ev": "Crash", "what": fmt.Sprint(sv.p)})
				failed = true
				break
			}
			var bidOut map[string]interface{}
			switch {
			case sv.err != nil:
				bidOut = map[string]interface{}{"i": -3, "r": -3, "n": -3}
			case sv.bid == nil:
				bidOut = map[string]interface{}{"i": 0, "r": 0, "n": 0}
			default:
				in.mu.Lock()
				id, known := in.bids[sv.bid]
				in.mu.Unlock()
				if known {
					bidOut = map[string]interface{}{"i": id.i, "r": id.r, "n": id.n}
				} else {
					bidOut = map[string]interface{}{"i": -2, "r": -2, "n": -2}
				}
			}
			stillOpen := false // was AuctionBlock of some auction in progress when BuilderBid was called?
			for _, other := range open {
				other.mu.Lock()
				if !other.closed || other.retAt.After(at) {
					stillOpen = true
				}
				other.mu.Unlock()
			}
			note(at, verifsupport.Ev{"ev": "Serve", "key": map[string]interface{}{"s": st.Key.S, "p": st.Key.P, "v": st.Key.V}, "bid": bidOut, "others_open": stillOpen})
		}
	}
	// whatever is still in progress (a history that was cut short)
	for i := 1; i <= len(aucs); i++ {
		if au := aucs[i]; au != nil && !au.joined {
			if _, isOpen := open[au.i]; isOpen {
				join(au)
			}
		}
	}
	in.mu.Lock()
	bad := append([]string{}, in.bad...)
	in.mu.Unlock()
	for _, b := range bad {
		note(time.Now(), verifsupport.Ev{"ev": "BadRequest", "what": b})
	}
	sort.SliceStable(timed, func(i, j int) bool { return timed[i].at.Before(timed[j].at) })
	for _, te := range timed {
		events = append(events, te.evs...)
	}
	// A return later than time-out + eps has no admissible phase.  Under load the goroutines of an auction can be
	// starved for longer than the watchdog notices: the first two times the history is run again (on a new
	// instance) like a stalled one; a strategy that really returns late does so every time and is judged then.
	// The same holds for a call that has not returned after 5 s on a machine whose scheduler is starved: the history is
	// run again; on the last attempt (widened, 20 s) a call that still has not returned is recorded as Hung.
	return events, w.stalledSince(began) || (late && attempt < 2) || (hung && attempt < 3)
}

// c09Results is the projection of blockauctioneer.Results that the trace carries.
type c09Results struct {
	err     error
	win     map[string]interface{}
	prov    []int
	allprov []int
	part    []map[string]interface{}
}

func c09Score(s *big.Int) int64 {
	if s == nil {
		return -999999
	}
	if !s.IsInt64() || s.Int64() > 1<<30 || s.Int64() < -(1<<30) {
		return 999999
	}
	return s.Int64()
}

func (cr *c09Results) fill(res *blockauctioneer.Results, in *c09Instance, au *c09Auction) {
	cr.win = map[string]interface{}{"r": 0, "n": 0, "score": 0}
	cr.prov, cr.allprov, cr.part = []int{}, []int{}, []map[string]interface{}{}
	if res == nil {
		return
	}
	// relays are identified by location (which spelling's client a result names is not the property's business)
	idOf := func(p builderclient.BuilderBidProvider) int {
		if p == nil {
			return -1
		}
		if id := in.locOf(p.Address()); id > 0 {
			return id
		}
		return -1
	}
	if wp := res.WinningParticipation; wp != nil {
		var id c09BidID
		var known bool
		if in.wired {
			// the bid came over HTTP: recognised by its content among the answers given to THIS auction (the keys and
			// the unverifiable signatures differ per relay, so the content names the relay); remembered by pointer
			// for what BuilderBid serves later
			id, known = au.bidByContent(wp.Bid, 0)
			if known {
				in.mu.Lock()
				in.bids[wp.Bid] = id
				in.mu.Unlock()
			}
		} else {
			in.mu.Lock()
			id, known = in.bids[wp.Bid]
			in.mu.Unlock()
		}
		if !known || id.i != au.i {
			// not a bid that a relay gave to THIS auction
			id = c09BidID{r: -2, n: -2}
		}
		cr.win = map[string]interface{}{"r": id.r, "n": id.n, "score": c09Score(wp.Score)}
	}
	for _, p := range res.Providers {
		cr.prov = append(cr.prov, idOf(p))
	}
	for _, p := range res.AllProviders {
		cr.allprov = append(cr.allprov, idOf(p))
	}
	addrs := make([]string, 0, len(res.Participation))
	for a := range res.Participation {
		addrs = append(addrs, a)
	}
	sort.Strings(addrs)
	for _, a := range addrs {
		p := res.Participation[a]
		rid := in.locOf(a)
		if rid == 0 {
			rid = -1
		}
		n := -2
		if p != nil {
			var id c09BidID
			var known bool
			if in.wired {
				id, known = au.bidByContent(p.Bid, rid)
			} else {
				in.mu.Lock()
				id, known = in.bids[p.Bid]
				in.mu.Unlock()
			}
			if known && id.r == rid && id.i == au.i {
				n = id.n
			}
			cr.part = append(cr.part, map[string]interface{}{"r": rid, "n": n, "score": c09Score(p.Score)})
		}
	}
}

func TestVerifC09(t *testing.T) {
	var scenarios []c09Scenario
	verifsupport.Scenarios(t, &scenarios)
	tr := verifsupport.OpenTrace(t)
	defer tr.Close()
	if err := e2types.InitBLS(); err != nil {
		t.Fatalf("bls: %v", err)
	}
	zerolog.SetGlobalLevel(zerolog.Disabled)
	// wired family: the time-out of the relay HTTP clients that util.FetchBuilderClient creates (set once, before
	// any history runs)
	viper.Set("timeout", 2*time.Second)
	ctx, cancel := context.WithCancel(context.Background())
	defer cancel()
	if len(scenarios) == 0 {
		return
	}
	env := c09NewEnv(t, ctx)

	w := c09StartWatch()
	defer close(w.stop)
	workers := 16
	if len(scenarios) < workers {
		workers = len(scenarios)
	}
	results := make([][]verifsupport.Ev, len(scenarios))
	var wg sync.WaitGroup
	next := make(chan int)
	go func() {
		for i := range scenarios {
			next <- i
		}
		close(next)
	}()
	var noisyMu sync.Mutex
	noisyRuns := 0
	for wk := 0; wk < workers; wk++ {
		wg.Add(1)
		go func() {
			defer wg.Done()
			for i := range next {
				sc := scenarios[i]
				if len(sc.Steps) == 0 || sc.Steps[0].Ev != "Reset" {
					t.Errorf("scenario %d does not start with Reset", sc.Sc)
					continue
				}
				for attempt := 0; ; attempt++ {
					// every attempt runs on an instance of its own
					evs, noisy := env.runHistory(sc, w, attempt)
					if noisy && attempt < 3 {
						noisyMu.Lock()
						noisyRuns++
						noisyMu.Unlock()
						continue
					}
					results[i] = evs
					break
				}
			}
		}()
	}
	wg.Wait()
	for _, evs := range results {
		for _, ev := range evs {
			tr.Emit(ev)
		}
	}
	widened := 0
	for _, evs := range results {
		if len(evs) > 0 && evs[0]["attempt"] == 3 {
			widened++
		}
	}
	stats := fmt.Sprintf("{\"scenarios\":%d,\"repeated_for_noise\":%d,\"widened\":%d}\n", len(scenarios), noisyRuns, widened)
	_ = os.WriteFile(os.Getenv("VERIF_TRACE_OUT")+".stats.json", []byte(stats), 0o644)
}
