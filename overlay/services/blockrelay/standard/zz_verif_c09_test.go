package standard

// Conformance driver for property C09 (spec/Auction.tla).  Injected with -overlay by /verif/check.
//
// The real builderbid/best and builderbid/deadline strategies run below the real block relay
// service (AuctionBlock / BuilderBid).  Relays are in-process fakes registered through the overlay
// seam util.VerifSetBuilderClient; their answers are real VersionedSignedBuilderBid objects signed
// with harness BLS keys under the application-builder domain, so the strategies' own eligibility
// and signature checks run.  Time is the observed quantity: every delivery and return instant is
// classified against the strategy's time-outs as before / ambiguous / after (DESIGN 2.2) and the
// trace specification lets TLC choose for ambiguous instants.

import (
	"context"
	"crypto/sha256"
	"errors"
	"fmt"
	"math/big"
	"math/rand"
	"os"
	"sort"
	"sync"
	"testing"
	"time"

	"github.com/attestantio/go-block-relay/services/blockauctioneer"
	builderclient "github.com/attestantio/go-builder-client"
	builderapi "github.com/attestantio/go-builder-client/api"
	builderbellatrix "github.com/attestantio/go-builder-client/api/bellatrix"
	buildercapella "github.com/attestantio/go-builder-client/api/capella"
	builderdeneb "github.com/attestantio/go-builder-client/api/deneb"
	builderspec "github.com/attestantio/go-builder-client/spec"
	consensusapi "github.com/attestantio/go-eth2-client/api"
	consensusspec "github.com/attestantio/go-eth2-client/spec"
	"github.com/attestantio/go-eth2-client/spec/bellatrix"
	"github.com/attestantio/go-eth2-client/spec/capella"
	"github.com/attestantio/go-eth2-client/spec/deneb"
	"github.com/attestantio/go-eth2-client/spec/phase0"
	"github.com/attestantio/vouch/mock"
	mockaccountmanager "github.com/attestantio/vouch/services/accountmanager/mock"
	"github.com/attestantio/vouch/services/beaconblockproposer"
	"github.com/attestantio/vouch/services/blockrelay"
	nullmetrics "github.com/attestantio/vouch/services/metrics/null"
	mocksigner "github.com/attestantio/vouch/services/signer/mock"
	"github.com/attestantio/vouch/strategies/builderbid"
	bestbuilderbid "github.com/attestantio/vouch/strategies/builderbid/best"
	deadlinebuilderbid "github.com/attestantio/vouch/strategies/builderbid/deadline"
	"github.com/attestantio/vouch/util"
	"github.com/attestantio/vouch/verifsupport"
	"github.com/holiman/uint256"
	"github.com/rs/zerolog"
	"github.com/shopspring/decimal"
	e2types "github.com/wealdtech/go-eth2-types/v2"
	e2wtypes "github.com/wealdtech/go-eth2-wallet-types/v2"
	standardmajordomo "github.com/wealdtech/go-majordomo/standard"
)

// ---------------------------------------------------------------------------------------------
// scenario input (a behaviour of Scen_Auction: only the environment's part is used)

type c09Answer struct {
	Kind    string `json:"kind"`
	Val     int64  `json:"val"`
	Bld     string `json:"bld"`
	Hdr     int    `json:"hdr"`
	FeeZero bool   `json:"feeZero"`
	TsOk    bool   `json:"tsOk"`
	Sig     string `json:"sig"`
}

type c09RelayCfg struct {
	Min   int64  `json:"min"`
	Key   string `json:"key"`
	Grace int    `json:"grace"`
}

type c09BuilderCfg struct {
	HasOff bool  `json:"hasOff"`
	Off    int64 `json:"off"`
	HasFac bool  `json:"hasFac"`
	Fac    int64 `json:"fac"`
}

type c09Step struct {
	Ev       string                   `json:"ev"`
	Variant  string                   `json:"variant"`
	Key      int                      `json:"key"`
	Cfg      []c09RelayCfg            `json:"cfg"`
	Builders map[string]c09BuilderCfg `json:"builders"`
	R        int                      `json:"r"`
	N        int                      `json:"n"`
	A        c09Answer                `json:"a"`
	Ph       int                      `json:"ph"`
}

type c09Scenario struct {
	Sc    int       `json:"sc"`
	Steps []c09Step `json:"steps"`
}

// ---------------------------------------------------------------------------------------------
// timing

const (
	c09Timeout  = 400 * time.Millisecond // best: hard time-out (soft = half); deadline: deadline into the slot
	c09Eps      = 100 * time.Millisecond // 25 % of the time-out
	c09BidGap   = 25 * time.Millisecond
	c09GraceDur = 30 * time.Millisecond
	c09Noise    = 25 * time.Millisecond // scheduling lateness above which a run is repeated
	c09Window   = 50 * time.Millisecond // a delivered bid is taken from the channel within this time (trace spec)
)

// c09Phases returns the clock phases (0 before the soft time-out, 1 between soft and hard, 2 after
// the hard time-out / deadline) compatible with instant d (relative to the start of the auction).
func c09Phases(variant string, d time.Duration, widen bool) []int {
	if widen {
		if variant == "deadline" {
			return []int{0, 2}
		}
		return []int{0, 1, 2}
	}
	if variant == "deadline" {
		switch {
		case d < c09Timeout-c09Eps:
			return []int{0}
		case d <= c09Timeout+c09Eps:
			return []int{0, 2}
		default:
			return []int{2}
		}
	}
	soft := c09Timeout / 2
	switch {
	case d < soft-c09Eps:
		return []int{0}
	case d <= soft+c09Eps:
		return []int{0, 1}
	case d < c09Timeout-c09Eps:
		return []int{1}
	case d <= c09Timeout+c09Eps:
		return []int{1, 2}
	default:
		return []int{2}
	}
}

// c09ReturnPhases is c09Phases for the return instant: returning later than time-out + eps is not a
// phase of the specification at all (the strategy must return by its deadline).
func c09ReturnPhases(variant string, d time.Duration, widen bool) []int {
	if d > c09Timeout+c09Eps && !widen {
		return []int{}
	}
	return c09Phases(variant, d, widen)
}

// c09Watch measures scheduling lateness: a goroutine that sleeps 2 ms at a time and records when it
// overslept by more than c09Noise; a scenario during which the machine stalled is repeated, and
// finally widened (every instant ambiguous) instead of being judged.
type c09Watch struct {
	mu     sync.Mutex
	stalls []time.Time
	stop   chan struct{}
}

func c09StartWatch() *c09Watch {
	w := &c09Watch{stop: make(chan struct{})}
	go func() {
		for {
			select {
			case <-w.stop:
				return
			default:
			}
			t := time.Now()
			time.Sleep(2 * time.Millisecond)
			if late := time.Since(t) - 2*time.Millisecond; late > c09Noise {
				w.mu.Lock()
				w.stalls = append(w.stalls, time.Now())
				w.mu.Unlock()
			}
		}
	}()
	return w
}

// stalledSince reports whether a stall was observed after from (minus the length of a stall).
func (w *c09Watch) stalledSince(from time.Time) bool {
	w.mu.Lock()
	defer w.mu.Unlock()
	for i := len(w.stalls) - 1; i >= 0; i-- {
		if w.stalls[i].After(from) {
			return true
		}
	}
	return false
}

// ---------------------------------------------------------------------------------------------
// chain time: verifsupport.ChainTime with per-slot start instants (the deadline strategy derives its
// deadline from StartOfSlot(slot), so every auction gets a slot that starts when the auction starts)

type c09ChainTime struct {
	*verifsupport.ChainTime
	mu     sync.RWMutex
	starts map[phase0.Slot]time.Time
}

func (c *c09ChainTime) StartOfSlot(slot phase0.Slot) time.Time {
	c.mu.RLock()
	t, ok := c.starts[slot]
	c.mu.RUnlock()
	if ok {
		return t
	}
	return c.ChainTime.StartOfSlot(slot)
}

func (c *c09ChainTime) setStart(slot phase0.Slot, t time.Time) {
	c.mu.Lock()
	c.starts[slot] = t
	c.mu.Unlock()
}

// ---------------------------------------------------------------------------------------------
// execution configuration: proposer config per validator public key

type c09ExecConfig struct {
	mu      sync.RWMutex
	configs map[phase0.BLSPubKey]*beaconblockproposer.ProposerConfig
}

func (c *c09ExecConfig) ProposerConfig(_ context.Context, _ e2wtypes.Account, pubkey phase0.BLSPubKey,
	fallbackFeeRecipient bellatrix.ExecutionAddress, _ uint64,
) (*beaconblockproposer.ProposerConfig, error) {
	c.mu.RLock()
	defer c.mu.RUnlock()
	if pc, ok := c.configs[pubkey]; ok {
		return pc, nil
	}
	return &beaconblockproposer.ProposerConfig{FeeRecipient: fallbackFeeRecipient, Relays: []*beaconblockproposer.RelayConfig{}}, nil
}

func (c *c09ExecConfig) set(pubkey phase0.BLSPubKey, pc *beaconblockproposer.ProposerConfig) {
	c.mu.Lock()
	c.configs[pubkey] = pc
	c.mu.Unlock()
}

// ---------------------------------------------------------------------------------------------
// relay fakes

type c09Key struct {
	slot   phase0.Slot
	parent phase0.Hash32
	pubkey phase0.BLSPubKey
}

type c09Delivery struct {
	r, n int
	a    c09Answer
	d    time.Duration
}

type c09BidID struct{ r, n, k int }

type c09Scripted struct {
	a      c09Answer
	target time.Duration // earliest instant (relative to the start of the auction) of the reply
}

// c09Auction is one AuctionBlock call of a scenario.
type c09Auction struct {
	k       int
	key     c09Key
	version consensusspec.DataVersion
	scripts map[int][]c09Scripted

	mu         sync.Mutex
	t0         time.Time
	closed     bool
	stop       chan struct{}
	calls      map[int]int
	deliveries []c09Delivery
	bad        []string
}

// c09Run is the state shared by the fakes of one scenario.
type c09Run struct {
	h        *c09Harness
	mu       sync.Mutex
	auctions map[c09Key]*c09Auction
	bids     map[*builderspec.VersionedSignedBuilderBid]c09BidID
	bad      []string
}

type c09Relay struct {
	run    *c09Run
	id     int
	addr   string
	pubkey *phase0.BLSPubKey // what Pubkey() reports (nil unless the key source is "provider")
	sk     *e2types.BLSPrivateKey
}

func (r *c09Relay) Name() string               { return "c09" }
func (r *c09Relay) Address() string            { return r.addr }
func (r *c09Relay) Pubkey() *phase0.BLSPubKey  { return r.pubkey }
func (r *c09Relay) UnblindProposal(_ context.Context, _ *builderapi.UnblindProposalOpts) (*builderapi.Response[*consensusapi.VersionedSignedProposal], error) {
	return nil, errors.New("not scripted")
}

func (r *c09Relay) BuilderBid(ctx context.Context, opts *builderapi.BuilderBidOpts) (*builderapi.Response[*builderspec.VersionedSignedBuilderBid], error) {
	if opts == nil {
		r.run.noteBad(fmt.Sprintf("relay %d: nil opts", r.id))
		return nil, errors.New("nil opts")
	}
	r.run.mu.Lock()
	au := r.run.auctions[c09Key{slot: opts.Slot, parent: opts.ParentHash, pubkey: opts.PubKey}]
	r.run.mu.Unlock()
	if au == nil {
		r.run.noteBad(fmt.Sprintf("relay %d: request for a key that is not being auctioned (slot %d)", r.id, opts.Slot))
		return nil, errors.New("unknown request")
	}
	au.mu.Lock()
	au.calls[r.id]++
	n := au.calls[r.id]
	script := au.scripts[r.id]
	t0 := au.t0
	stop := au.stop
	closed := au.closed
	au.mu.Unlock()
	if closed {
		return nil, errors.New("auction over")
	}
	if n > len(script) {
		// Silence: nothing until the caller gives up or the auction is over.
		select {
		case <-ctx.Done():
			return nil, ctx.Err()
		case <-stop:
			return nil, errors.New("auction over")
		}
	}
	item := script[n-1]
	if wait := time.Until(t0.Add(item.target)); wait > 0 {
		timer := time.NewTimer(wait)
		select {
		case <-timer.C:
		case <-stop:
			timer.Stop()
			return nil, errors.New("auction over")
		}
	}
	// Build the reply before taking the delivery instant (signing takes a while).
	var resp *builderapi.Response[*builderspec.VersionedSignedBuilderBid]
	var err error
	var bid *builderspec.VersionedSignedBuilderBid
	switch item.a.Kind {
	case "error":
		err = errors.New("scripted relay error")
	case "nobid":
		resp = &builderapi.Response[*builderspec.VersionedSignedBuilderBid]{Metadata: map[string]any{}}
	default:
		bid = r.run.h.makeBid(r, au, item.a)
		resp = &builderapi.Response[*builderspec.VersionedSignedBuilderBid]{Data: bid, Metadata: map[string]any{}}
	}
	au.mu.Lock()
	if au.closed {
		au.mu.Unlock()
		return nil, errors.New("auction over")
	}
	if bid != nil {
		r.run.mu.Lock()
		r.run.bids[bid] = c09BidID{r: r.id, n: n, k: au.k}
		r.run.mu.Unlock()
	}
	au.deliveries = append(au.deliveries, c09Delivery{r: r.id, n: n, a: item.a, d: time.Since(t0)})
	au.mu.Unlock()
	return resp, err
}

func (run *c09Run) noteBad(what string) {
	run.mu.Lock()
	run.bad = append(run.bad, what)
	run.mu.Unlock()
}

// ---------------------------------------------------------------------------------------------
// harness: the real services, built once per builder table

type c09Harness struct {
	t          *testing.T
	ctx        context.Context
	chainTime  *c09ChainTime
	execConfig *c09ExecConfig
	services   map[string]*Service // by variant
	domain     phase0.Domain
	builders   map[string]phase0.BLSPubKey
	badSig     phase0.BLSSignature
	otherKey   *e2types.BLSPrivateKey
	nextSlot   uint64
	slotMu     sync.Mutex
}

func c09BuilderPubkey(name string) phase0.BLSPubKey {
	var pk phase0.BLSPubKey
	h := sha256.Sum256([]byte("c09 builder " + name))
	copy(pk[:], h[:])
	copy(pk[32:], h[:16])
	return pk
}

func c09PrivateKey(t *testing.T, tag string) *e2types.BLSPrivateKey {
	h := sha256.Sum256([]byte("c09 key " + tag))
	h[0] &= 0x3f // below the curve order
	sk, err := e2types.BLSPrivateKeyFromBytes(h[:])
	if err != nil {
		t.Fatalf("private key: %v", err)
	}
	return sk
}

func c09NewHarness(t *testing.T, ctx context.Context, table map[string]c09BuilderCfg) *c09Harness {
	h := &c09Harness{
		t:          t,
		ctx:        ctx,
		chainTime:  &c09ChainTime{ChainTime: verifsupport.NewChainTime(32, 12*time.Second), starts: map[phase0.Slot]time.Time{}},
		execConfig: &c09ExecConfig{configs: map[phase0.BLSPubKey]*beaconblockproposer.ProposerConfig{}},
		services:   map[string]*Service{},
		builders:   map[string]phase0.BLSPubKey{},
		nextSlot:   1000,
	}
	specProvider := mock.NewSpecProvider()
	domainProvider := mock.NewDomainProvider()
	d, err := domainProvider.GenesisDomain(ctx, phase0.DomainType{0x00, 0x00, 0x00, 0x01})
	if err != nil {
		t.Fatalf("domain: %v", err)
	}
	h.domain = d
	h.otherKey = c09PrivateKey(t, "other")
	// A signature that does not deserialise.
	found := false
	for b := 0; b < 256 && !found; b++ {
		var sig phase0.BLSSignature
		for i := range sig {
			sig[i] = byte(b)
		}
		if _, err := e2types.BLSSignatureFromBytes(sig[:]); err != nil {
			h.badSig = sig
			found = true
		}
	}
	if !found {
		t.Fatalf("no undeserialisable signature found")
	}

	builderConfigs := map[phase0.BLSPubKey]*blockrelay.BuilderConfig{}
	for name, bc := range table {
		pk := c09BuilderPubkey(name)
		h.builders[name] = pk
		if !bc.HasOff && !bc.HasFac {
			continue // absent from the configuration
		}
		cfg := &blockrelay.BuilderConfig{Category: name}
		if bc.HasOff {
			cfg.Offset = big.NewInt(bc.Off)
		}
		if bc.HasFac {
			cfg.Factor = big.NewInt(bc.Fac)
		}
		builderConfigs[pk] = cfg
	}

	best, err := bestbuilderbid.New(ctx,
		bestbuilderbid.WithLogLevel(zerolog.Disabled),
		bestbuilderbid.WithMonitor(nullmetrics.New()),
		bestbuilderbid.WithSpecProvider(specProvider),
		bestbuilderbid.WithDomainProvider(domainProvider),
		bestbuilderbid.WithChainTime(h.chainTime),
		bestbuilderbid.WithTimeout(c09Timeout),
		bestbuilderbid.WithReleaseVersion("verif"),
	)
	if err != nil {
		t.Fatalf("best strategy: %v", err)
	}
	dl, err := deadlinebuilderbid.New(ctx,
		deadlinebuilderbid.WithLogLevel(zerolog.Disabled),
		deadlinebuilderbid.WithMonitor(nullmetrics.New()),
		deadlinebuilderbid.WithSpecProvider(specProvider),
		deadlinebuilderbid.WithDomainProvider(domainProvider),
		deadlinebuilderbid.WithChainTime(h.chainTime),
		deadlinebuilderbid.WithDeadline(c09Timeout),
		deadlinebuilderbid.WithBidGap(c09BidGap),
		deadlinebuilderbid.WithReleaseVersion("verif"),
	)
	if err != nil {
		t.Fatalf("deadline strategy: %v", err)
	}
	majordomoSvc, err := standardmajordomo.New(ctx)
	if err != nil {
		t.Fatalf("majordomo: %v", err)
	}
	for variant, provider := range map[string]builderbid.Provider{"best": best, "deadline": dl} {
		s, err := New(ctx,
			WithLogLevel(zerolog.Disabled),
			WithMonitor(nullmetrics.New()),
			WithMajordomo(majordomoSvc),
			WithScheduler(verifsupport.NewScheduler()),
			WithListenAddress("127.0.0.1:0"),
			WithChainTime(h.chainTime),
			WithFallbackFeeRecipient(bellatrix.ExecutionAddress{0x01}),
			WithFallbackGasLimit(30000000),
			WithAccountsProvider(mockaccountmanager.NewAccountsProvider()),
			WithValidatorsProvider(mock.NewValidatorsProvider()),
			WithValidatingAccountsProvider(mockaccountmanager.NewValidatingAccountsProvider()),
			WithValidatorRegistrationSigner(mocksigner.New()),
			WithReleaseVersion("verif"),
			WithBuilderBidProvider(provider),
			WithBuilderConfigs(builderConfigs),
		)
		if err != nil {
			t.Fatalf("block relay service: %v", err)
		}
		s.executionConfigMu.Lock()
		s.executionConfig = h.execConfig
		s.executionConfigMu.Unlock()
		h.services[variant] = s
	}
	return h
}

func (h *c09Harness) slot() phase0.Slot {
	h.slotMu.Lock()
	defer h.slotMu.Unlock()
	h.nextSlot += 3
	return phase0.Slot(h.nextSlot)
}

func c09Hash(tag string, i int) (res [32]byte) {
	return sha256.Sum256([]byte(fmt.Sprintf("c09 %s %d", tag, i)))
}

// makeBid builds and signs a real bid for answer a of relay r in auction au.
func (h *c09Harness) makeBid(r *c09Relay, au *c09Auction, a c09Answer) *builderspec.VersionedSignedBuilderBid {
	feeRecipient := bellatrix.ExecutionAddress{}
	if !a.FeeZero {
		feeRecipient = bellatrix.ExecutionAddress{0x11, 0x22, 0x33}
	}
	timestamp := uint64(h.chainTime.StartOfSlot(au.key.slot).Unix())
	if !a.TsOk {
		timestamp += 12 // the start of the next slot
	}
	// The header depends on the header id (and fee recipient, timestamp) only: relays that offer the
	// same header id offer the same payload.
	blockHash := phase0.Hash32(c09Hash("block", a.Hdr))
	stateRoot := c09Hash("state", a.Hdr)
	txRoot := phase0.Root(c09Hash("tx", a.Hdr))
	value := uint256.NewInt(uint64(a.Val))
	builder := h.builders[a.Bld]

	bid := &builderspec.VersionedSignedBuilderBid{Version: au.version}
	switch au.version {
	case consensusspec.DataVersionBellatrix:
		bid.Bellatrix = &builderbellatrix.SignedBuilderBid{Message: &builderbellatrix.BuilderBid{
			Header: &bellatrix.ExecutionPayloadHeader{
				ParentHash: au.key.parent, FeeRecipient: feeRecipient, StateRoot: stateRoot, BlockNumber: 100,
				GasLimit: 30000000, GasUsed: 21000, Timestamp: timestamp, ExtraData: []byte{}, BlockHash: blockHash,
				TransactionsRoot: txRoot,
			},
			Value: value, Pubkey: builder,
		}}
	case consensusspec.DataVersionCapella:
		bid.Capella = &buildercapella.SignedBuilderBid{Message: &buildercapella.BuilderBid{
			Header: &capella.ExecutionPayloadHeader{
				ParentHash: au.key.parent, FeeRecipient: feeRecipient, StateRoot: stateRoot, BlockNumber: 100,
				GasLimit: 30000000, GasUsed: 21000, Timestamp: timestamp, ExtraData: []byte{}, BlockHash: blockHash,
				TransactionsRoot: txRoot,
			},
			Value: value, Pubkey: builder,
		}}
	default:
		bid.Deneb = &builderdeneb.SignedBuilderBid{Message: &builderdeneb.BuilderBid{
			Header: &deneb.ExecutionPayloadHeader{
				ParentHash: au.key.parent, FeeRecipient: feeRecipient, StateRoot: phase0.Root(stateRoot), BlockNumber: 100,
				GasLimit: 30000000, GasUsed: 21000, Timestamp: timestamp, ExtraData: []byte{}, BaseFeePerGas: uint256.NewInt(7),
				BlockHash: blockHash, TransactionsRoot: txRoot,
			},
			BlobKZGCommitments: []deneb.KZGCommitment{},
			Value:              value, Pubkey: builder,
		}}
	}

	var sig phase0.BLSSignature
	switch a.Sig {
	case "unverifiable":
		sig = h.badSig
	default:
		root, err := bid.MessageHashTreeRoot()
		if err != nil {
			panic(fmt.Sprintf("c09: message root: %v", err))
		}
		signingRoot, err := (&phase0.SigningData{ObjectRoot: root, Domain: h.domain}).HashTreeRoot()
		if err != nil {
			panic(fmt.Sprintf("c09: signing root: %v", err))
		}
		sk := r.sk
		if a.Sig == "invalid" {
			sk = h.otherKey
		}
		copy(sig[:], sk.Sign(signingRoot[:]).Marshal())
	}
	switch au.version {
	case consensusspec.DataVersionBellatrix:
		bid.Bellatrix.Signature = sig
	case consensusspec.DataVersionCapella:
		bid.Capella.Signature = sig
	default:
		bid.Deneb.Signature = sig
	}
	return bid
}

// ---------------------------------------------------------------------------------------------
// one scenario

type c09AuctionPlan struct {
	k       int
	scripts map[int][]c09Step // relay -> Deliver steps in order
}

func c09Plan(sc c09Scenario) (variant string, cfg []c09RelayCfg, plans []*c09AuctionPlan, serves []int) {
	var cur *c09AuctionPlan
	for _, st := range sc.Steps {
		switch st.Ev {
		case "Reset":
			variant, cfg = st.Variant, st.Cfg
			cur = &c09AuctionPlan{k: st.Key, scripts: map[int][]c09Step{}}
			plans = append(plans, cur)
		case "Auction":
			cur = &c09AuctionPlan{k: st.Key, scripts: map[int][]c09Step{}}
			plans = append(plans, cur)
		case "Deliver":
			cur.scripts[st.R] = append(cur.scripts[st.R], st)
		case "Serve":
			serves = append(serves, st.Key)
		}
	}
	return
}

// c09Target is the intended reply instant of an answer delivered in clock phase ph.
func c09Target(rng *rand.Rand, variant string, ph int) time.Duration {
	ms := func(lo, hi int) time.Duration { return time.Duration(lo+rng.Intn(hi-lo+1)) * time.Millisecond }
	if rng.Intn(12) == 0 {
		// Now and then right at the time-out: exercises the ambiguous classification.
		return c09Timeout + ms(-20, 20)
	}
	if ph == 2 {
		return c09Timeout + c09Eps + 40*time.Millisecond
	}
	if variant == "deadline" {
		return ms(0, 15) // as soon as polled (the polls are paced by the strategy's bid gap)
	}
	if ph == 0 {
		return ms(0, 50)
	}
	return ms(200, 280)
}

func (h *c09Harness) runScenario(sc c09Scenario, w *c09Watch, attempt int) (events []verifsupport.Ev, noisy bool) {
	began := time.Now()
	variant, cfg, plans, serves := c09Plan(sc)
	rng := rand.New(rand.NewSource(verifsupport.Seed()*1000003 + int64(sc.Sc)*7919 + int64(attempt)))
	widen := attempt >= 3
	svc := h.services[variant]
	run := &c09Run{h: h, auctions: map[c09Key]*c09Auction{}, bids: map[*builderspec.VersionedSignedBuilderBid]c09BidID{}}
	uniq := fmt.Sprintf("s%d-a%d-%d", sc.Sc, attempt, rng.Int63())

	// Relays of this scenario.
	relays := make([]*c09Relay, len(cfg))
	relayCfgs := make([]*beaconblockproposer.RelayConfig, len(cfg))
	addrToID := map[string]int{}
	for i, c := range cfg {
		sk := c09PrivateKey(h.t, fmt.Sprintf("relay %d", i+1))
		var pub phase0.BLSPubKey
		copy(pub[:], sk.PublicKey().Marshal())
		rel := &c09Relay{run: run, id: i + 1, addr: fmt.Sprintf("http://relay%d.%s.verif", i+1, uniq), sk: sk}
		rc := &beaconblockproposer.RelayConfig{
			Address:      rel.addr,
			FeeRecipient: bellatrix.ExecutionAddress{0x01},
			GasLimit:     30000000,
			MinValue:     decimal.NewFromInt(c.Min),
		}
		switch c.Key {
		case "config":
			k := pub
			rc.PublicKey = &k
		case "provider":
			k := pub
			rel.pubkey = &k
		}
		if c.Grace > 0 {
			rc.Grace = c09GraceDur
		}
		relays[i], relayCfgs[i] = rel, rc
		addrToID[rel.addr] = rel.id
		util.VerifSetBuilderClient(rel.addr, rel)
	}

	// Keys: key 1 is the base (slot, parent, pubkey); every other key differs from it in exactly one
	// component, so that a cache keyed on less than all three serves the wrong auction's bid.
	version := []consensusspec.DataVersion{consensusspec.DataVersionBellatrix, consensusspec.DataVersionCapella, consensusspec.DataVersionDeneb}[rng.Intn(3)]
	baseSlot := h.slot()
	diff := []string{"slot", "parent", "pubkey"}[rng.Intn(3)]
	keyOf := func(k int) c09Key {
		key := c09Key{slot: baseSlot, parent: phase0.Hash32(c09Hash("parent "+uniq, 1)), pubkey: phase0.BLSPubKey{}}
		pk := c09Hash("validator "+uniq, 1)
		copy(key.pubkey[:], pk[:])
		if k != 1 {
			switch diff {
			case "slot":
				key.slot = baseSlot + phase0.Slot(k-1)
			case "parent":
				key.parent = phase0.Hash32(c09Hash("parent "+uniq, k))
			default:
				pk := c09Hash("validator "+uniq, k)
				copy(key.pubkey[:], pk[:])
			}
		}
		return key
	}
	keys := map[int]c09Key{}
	byKey := map[int]*c09Auction{}

	emit := func(ev verifsupport.Ev) {
		ev["sc"] = sc.Sc
		events = append(events, ev)
	}
	first := true
	crashed := false

	for _, plan := range plans {
		key := keyOf(plan.k)
		keys[plan.k] = key
		au := &c09Auction{k: plan.k, key: key, version: version, scripts: map[int][]c09Scripted{}, stop: make(chan struct{}), calls: map[int]int{}}
		for r, steps := range plan.scripts {
			last := time.Duration(0)
			for _, st := range steps {
				tg := c09Target(rng, variant, st.Ph)
				if tg < last {
					tg = last
				}
				last = tg
				au.scripts[r] = append(au.scripts[r], c09Scripted{a: st.A, target: tg})
			}
			// A relay that is polled again usually answers with the same bid again: now and then the
			// last answer is repeated (a new, identical object) once or twice before the relay goes silent.
			if variant == "deadline" && len(au.scripts[r]) > 0 && rng.Intn(2) == 0 {
				lastItem := au.scripts[r][len(au.scripts[r])-1]
				for k := 1 + rng.Intn(2); k > 0; k-- {
					au.scripts[r] = append(au.scripts[r], lastItem)
				}
			}
		}
		run.mu.Lock()
		run.auctions[key] = au
		run.mu.Unlock()
		byKey[plan.k] = au
		h.execConfig.set(key.pubkey, &beaconblockproposer.ProposerConfig{FeeRecipient: bellatrix.ExecutionAddress{0x01}, Relays: relayCfgs})

		if first {
			cfgOut := make([]map[string]interface{}, len(cfg))
			for i, c := range cfg {
				cfgOut[i] = map[string]interface{}{"min": c.Min, "key": c.Key, "grace": c.Grace}
			}
			emit(verifsupport.Ev{"ev": "Reset", "variant": variant, "key": plan.k, "cfg": cfgOut, "version": version.String(), "diff": diff, "attempt": attempt})
			first = false
		} else {
			emit(verifsupport.Ev{"ev": "Auction", "key": plan.k})
		}

		t0 := time.Now()
		h.chainTime.setStart(key.slot, t0)
		au.mu.Lock()
		au.t0 = t0
		au.mu.Unlock()

		var ret time.Duration
		var results *c09Results
		func() {
			defer func() {
				if p := recover(); p != nil {
					crashed = true
					emit(verifsupport.Ev{"ev": "Crash", "what": fmt.Sprint(p)})
				}
			}()
			r, err := svc.AuctionBlock(h.ctx, key.slot, key.parent, key.pubkey)
			au.mu.Lock()
			ret = time.Since(t0)
			au.closed = true
			close(au.stop)
			au.mu.Unlock()
			results = &c09Results{err: err}
			if r != nil {
				results.fill(r, run, addrToID)
			}
		}()
		if crashed {
			au.mu.Lock()
			if !au.closed {
				au.closed = true
				close(au.stop)
			}
			au.mu.Unlock()
			return events, false
		}

		au.mu.Lock()
		dels := append([]c09Delivery{}, au.deliveries...)
		au.mu.Unlock()
		sort.SliceStable(dels, func(i, j int) bool {
			if dels[i].r == dels[j].r {
				return dels[i].n < dels[j].n
			}
			return dels[i].d < dels[j].d
		})
		// per-relay order is the order of the calls; across relays the order of the instants
		sort.SliceStable(dels, func(i, j int) bool { return dels[i].d < dels[j].d })
		window := int64(c09Window / time.Millisecond)
		if widen {
			window = 1000000
		}
		for _, d := range dels {
			emit(verifsupport.Ev{"ev": "Deliver", "r": d.r, "n": d.n,
				"a":   map[string]interface{}{"kind": d.a.Kind, "val": d.a.Val, "bld": d.a.Bld, "hdr": d.a.Hdr, "feeZero": d.a.FeeZero, "tsOk": d.a.TsOk, "sig": d.a.Sig},
				"phs": c09Phases(variant, d.d, widen), "d_ms": d.d.Milliseconds(), "w_ms": window})
		}
		ev := verifsupport.Ev{"ev": "Return", "clks": c09ReturnPhases(variant, ret, widen), "ret_ms": ret.Milliseconds(),
			"win": results.win, "prov": results.prov, "allprov": results.allprov, "part": results.part, "err": results.err != nil}
		emit(ev)
		if results.err != nil {
			emit(verifsupport.Ev{"ev": "Crash", "what": "AuctionBlock error: " + results.err.Error()})
			return events, false
		}
	}

	for _, k := range serves {
		key, ok := keys[k]
		if !ok {
			continue
		}
		var bidOut map[string]interface{}
		func() {
			defer func() {
				if p := recover(); p != nil {
					crashed = true
					emit(verifsupport.Ev{"ev": "Crash", "what": fmt.Sprint(p)})
				}
			}()
			bid, err := svc.BuilderBid(h.ctx, key.slot, key.parent, key.pubkey)
			switch {
			case err != nil:
				bidOut = map[string]interface{}{"r": -3, "n": -3, "k": -3}
			case bid == nil:
				bidOut = map[string]interface{}{"r": 0, "n": 0, "k": 0}
			default:
				run.mu.Lock()
				id, known := run.bids[bid]
				run.mu.Unlock()
				if known {
					bidOut = map[string]interface{}{"r": id.r, "n": id.n, "k": id.k}
				} else {
					bidOut = map[string]interface{}{"r": -2, "n": -2, "k": -2}
				}
			}
		}()
		if crashed {
			return events, false
		}
		emit(verifsupport.Ev{"ev": "Serve", "key": k, "bid": bidOut})
	}
	run.mu.Lock()
	bad := append([]string{}, run.bad...)
	run.mu.Unlock()
	for _, b := range bad {
		emit(verifsupport.Ev{"ev": "BadRequest", "what": b})
	}
	return events, w.stalledSince(began)
}

// c09Results is the projection of blockauctioneer.Results that the trace carries.
type c09Results struct {
	err     error
	win     map[string]interface{}
	prov    []int
	allprov []int
	part    []map[string]interface{}
}

func c09Score(s *big.Int) int64 {
	if s == nil {
		return -999999
	}
	if !s.IsInt64() || s.Int64() > 1<<30 || s.Int64() < -(1<<30) {
		return 999999
	}
	return s.Int64()
}

func (cr *c09Results) fill(res *blockauctioneer.Results, run *c09Run, addrToID map[string]int) {
	cr.win = map[string]interface{}{"r": 0, "n": 0, "score": 0}
	cr.prov, cr.allprov, cr.part = []int{}, []int{}, []map[string]interface{}{}
	if res == nil {
		return
	}
	idOf := func(p builderclient.BuilderBidProvider) int {
		if p == nil {
			return -1
		}
		if id, ok := addrToID[p.Address()]; ok {
			return id
		}
		return -1
	}
	if wp := res.WinningParticipation; wp != nil {
		run.mu.Lock()
		id, known := run.bids[wp.Bid]
		run.mu.Unlock()
		if !known {
			id = c09BidID{r: -2, n: -2}
		}
		cr.win = map[string]interface{}{"r": id.r, "n": id.n, "score": c09Score(wp.Score)}
	}
	for _, p := range res.Providers {
		cr.prov = append(cr.prov, idOf(p))
	}
	for _, p := range res.AllProviders {
		cr.allprov = append(cr.allprov, idOf(p))
	}
	addrs := make([]string, 0, len(res.Participation))
	for a := range res.Participation {
		addrs = append(addrs, a)
	}
	sort.Strings(addrs)
	for _, a := range addrs {
		p := res.Participation[a]
		rid, ok := addrToID[a]
		if !ok {
			rid = -1
		}
		n := -2
		if p != nil {
			run.mu.Lock()
			id, known := run.bids[p.Bid]
			run.mu.Unlock()
			if known && id.r == rid {
				n = id.n
			}
			cr.part = append(cr.part, map[string]interface{}{"r": rid, "n": n, "score": c09Score(p.Score)})
		}
	}
}

func TestVerifC09(t *testing.T) {
	var scenarios []c09Scenario
	verifsupport.Scenarios(t, &scenarios)
	tr := verifsupport.OpenTrace(t)
	defer tr.Close()
	if err := e2types.InitBLS(); err != nil {
		t.Fatalf("bls: %v", err)
	}
	zerolog.SetGlobalLevel(zerolog.Disabled)
	ctx, cancel := context.WithCancel(context.Background())
	defer cancel()
	if len(scenarios) == 0 {
		return
	}

	// One set of real services per builder table (the table is part of every scenario's Reset step).
	harnesses := map[string]*c09Harness{}
	var hmu sync.Mutex
	harnessFor := func(table map[string]c09BuilderCfg) *c09Harness {
		names := make([]string, 0, len(table))
		for n := range table {
			names = append(names, n)
		}
		sort.Strings(names)
		k := ""
		for _, n := range names {
			k += fmt.Sprintf("%s:%+v;", n, table[n])
		}
		hmu.Lock()
		defer hmu.Unlock()
		if h, ok := harnesses[k]; ok {
			return h
		}
		h := c09NewHarness(t, ctx, table)
		harnesses[k] = h
		return h
	}

	w := c09StartWatch()
	defer close(w.stop)
	workers := 12
	if len(scenarios) < workers {
		workers = len(scenarios)
	}
	results := make([][]verifsupport.Ev, len(scenarios))
	var wg sync.WaitGroup
	next := make(chan int)
	go func() {
		for i := range scenarios {
			next <- i
		}
		close(next)
	}()
	var noisyMu sync.Mutex
	noisyRuns := 0
	for wk := 0; wk < workers; wk++ {
		wg.Add(1)
		go func() {
			defer wg.Done()
			for i := range next {
				sc := scenarios[i]
				if len(sc.Steps) == 0 || sc.Steps[0].Ev != "Reset" {
					t.Errorf("scenario %d does not start with Reset", sc.Sc)
					continue
				}
				h := harnessFor(sc.Steps[0].Builders)
				for attempt := 0; ; attempt++ {
					evs, noisy := h.runScenario(sc, w, attempt)
					if noisy && attempt < 3 {
						noisyMu.Lock()
						noisyRuns++
						noisyMu.Unlock()
						continue
					}
					results[i] = evs
					break
				}
			}
		}()
	}
	wg.Wait()
	for _, evs := range results {
		for _, ev := range evs {
			tr.Emit(ev)
		}
	}
	widened := 0
	for _, evs := range results {
		if len(evs) > 0 && evs[0]["attempt"] == 3 {
			widened++
		}
	}
	stats := fmt.Sprintf("{\"scenarios\":%d,\"repeated_for_noise\":%d,\"widened\":%d}\n", len(scenarios), noisyRuns, widened)
	_ = os.WriteFile(os.Getenv("VERIF_TRACE_OUT")+".stats.json", []byte(stats), 0o644)
}
