package standard

// Conformance driver for property C12 (spec/BlockRelay.tla, configuration part).  Injected with
// -overlay by /verif/check.  Package-internal: the lock state is projected with
// executionConfigMu.TryLock()/TryRLock() and the active configuration is read directly.

import (
	"context"
	"fmt"
	"math/rand"
	"os"
	"strconv"
	"sync"
	"sync/atomic"
	"testing"
	"time"

	"github.com/attestantio/go-eth2-client/spec/phase0"
	"github.com/attestantio/vouch/verifsupport"
	e2wtypes "github.com/wealdtech/go-eth2-wallet-types/v2"
)

type c12Step struct {
	Ev      string   `json:"ev"`
	Op      int      `json:"op"`
	Kind    string   `json:"kind"`
	V       int      `json:"v"`
	Name    string   `json:"name"`
	Out     string   `json:"out"`
	Doc     int      `json:"doc"`
	Init    int      `json:"init"`
	Docs    []c11Doc `json:"docs"`
	N       int      `json:"n"`
	Workers int      `json:"workers"`
}

type c12Scenario struct {
	Sc    int       `json:"sc"`
	Steps []c12Step `json:"steps"`
}

func c12Watchdog() time.Duration {
	ms, err := strconv.Atoi(os.Getenv("VERIF_WATCHDOG_MS"))
	if err != nil || ms <= 0 {
		ms = 10000
	}
	return time.Duration(ms) * time.Millisecond
}

const (
	c12ArriveWait = 100 * time.Millisecond // bounded waits that only steer the interleaving
	c12ReturnWait = 200 * time.Millisecond
	c12StuckLimit = 3 // after that many wedged scenarios the rest of the batch is not executed
)

type c12Run struct {
	t        *testing.T
	tr       *verifsupport.Trace
	sc       int
	env      *c11Env
	sys      *c11System
	ctx      context.Context
	ops      map[int]*c11Op
	order    []*c11Op
	inflight atomic.Int32
	returned atomic.Int32
	probed   int32
	// steering only
	resolves map[int]bool // operations whose schedule works out the settings after the lock was released
	retSeen  map[int]bool // operations whose Return step of the schedule has been passed
}

func (r *c12Run) emit(ev verifsupport.Ev) {
	ev["sc"] = r.sc
	r.tr.Emit(ev)
}

// runOp performs one operation on the real service and logs its return.
func (r *c12Run) runOp(op *c11Op) {
	ctx := context.WithValue(r.ctx, c11OpKey{}, op)
	s := r.sys.svc
	ev := verifsupport.Ev{"sc": r.sc, "ev": "Return", "op": op.id, "kind": op.kind}
	defer func() {
		// a panic of the code under test is an event no action of the specification explains
		if p := recover(); p != nil {
			r.tr.Locked(func() verifsupport.Ev {
				op.finished.Store(true)
				r.inflight.Add(-1)
				r.returned.Add(1)
				return verifsupport.Ev{"sc": r.sc, "ev": "Crash", "op": op.id, "kind": op.kind, "panic": fmt.Sprint(p)}
			})
			close(op.done)
		}
	}()
	switch op.kind {
	case "fetch":
		r.sys.sched.Get(c11FetchJob).Func(ctx)
		// no other fetch is in flight (Env_SingleFetcher): what is read here is what this fetch left
		ev["cfg"] = c11Projection(ctx, s)
	case "lookup":
		var account e2wtypes.Account
		if op.v <= 2 {
			account = c11AccountFor(op, op.v)
		}
		// the call is made when the schedule lets the operation take the lock (Start only announces it)
		op.pass("pre")
		pc, err := s.ProposerConfig(ctx, account, c11Pubkeys[op.v])
		if err != nil || pc == nil {
			ev["ok"] = false
		} else {
			ev["ok"] = true
			ev["fee"] = c11FeeID(pc.FeeRecipient)
			ev["rel"] = c11RelSummary(pc)
		}
	case "auction":
		_, err := s.AuctionBlock(ctx, phase0.Slot(op.id), phase0.Hash32{byte(op.id)}, c11Pubkeys[op.v])
		ev["ok"] = err == nil
		ev["bid"] = op.bidSeen
	case "register":
		r.sys.sched.Get(c11RegisterJob).Func(ctx)
	}
	r.tr.Locked(func() verifsupport.Ev {
		op.finished.Store(true)
		r.inflight.Add(-1)
		r.returned.Add(1)
		return ev
	})
	close(op.done)
}

// probe logs the lock state when nothing is in flight; false = the lock is not free.
func (r *c12Run) probe() bool {
	mu := &r.sys.svc.executionConfigMu
	lock := mu.TryLock()
	if lock {
		mu.Unlock()
	}
	rlock := mu.TryRLock()
	if rlock {
		mu.RUnlock()
	}
	r.emit(verifsupport.Ev{"ev": "Quiesce", "lock": lock, "rlock": rlock})
	return lock && rlock
}

// waitWriterPendingOrDone returns when the operation's Lock() call is visible (new readers are
// refused) or the operation has finished; bounded, only steers the interleaving.
func (r *c12Run) waitWriterPendingOrDone(op *c11Op) {
	mu := &r.sys.svc.executionConfigMu
	deadline := time.Now().Add(c12ArriveWait)
	for time.Now().Before(deadline) {
		if op.finished.Load() {
			return
		}
		if !mu.TryRLock() {
			return
		}
		mu.RUnlock()
		time.Sleep(20 * time.Microsecond)
	}
}

// heldAtName: an unfinished operation is being held mid-resolution by the driver.
func (r *c12Run) heldAtName() bool {
	for _, o := range r.order {
		if !o.finished.Load() && o.isArrived("name") && !o.isOpen("name") {
			return true
		}
	}
	return false
}

// blockedByDesign: somebody is held mid-resolution and the lock refuses new readers (a writer is pending
// behind the held reader): waiting for anybody else to return is pointless until the held one is let go.
func (r *c12Run) blockedByDesign() bool {
	if !r.heldAtName() {
		return false
	}
	mu := &r.sys.svc.executionConfigMu
	for i := 0; i < 3; i++ {
		if mu.TryRLock() {
			mu.RUnlock()
			return false
		}
		time.Sleep(200 * time.Microsecond)
	}
	return true
}

// waitReturn waits (bounded; only steers the interleaving) for an operation the schedule lets return here.
func (r *c12Run) waitReturn(op *c11Op, d time.Duration) {
	deadline := time.Now().Add(d)
	for time.Now().Before(deadline) {
		select {
		case <-op.done:
			return
		case <-time.After(time.Millisecond):
		}
		if r.blockedByDesign() {
			return
		}
	}
}

var c12Stuck atomic.Int32

func c12RunScenario(t *testing.T, tr *verifsupport.Trace, sc c12Scenario, watchdog time.Duration) {
	if len(sc.Steps) == 0 || sc.Steps[0].Ev != "Reset" {
		t.Fatalf("scenario %d does not start with Reset", sc.Sc)
	}
	reset := sc.Steps[0]
	if c12Stuck.Load() >= c12StuckLimit {
		// the tree is wedging: do not spend a watchdog period on every remaining scenario
		tr.Emit(verifsupport.Ev{"sc": sc.Sc, "ev": "Reset", "init": reset.Init, "skipped": true})
		return
	}
	env := c11NewEnv(t, tr, sc.Sc, reset.Docs)
	env.quiet = true
	initOut := "error"
	if reset.Init != 0 {
		initOut = "good"
	}
	sys := c11NewSystem(t, env, initOut, reset.Init, false)
	defer sys.close()
	r := &c12Run{t: t, tr: tr, sc: sc.Sc, env: env, sys: sys, ctx: context.Background(), ops: map[int]*c11Op{},
		resolves: map[int]bool{}, retSeen: map[int]bool{}}
	for _, st := range sc.Steps[1:] {
		if st.Ev == "Step" && (st.Name == "LookupResolve" || st.Name == "AuctionResolve") {
			r.resolves[st.Op] = true
		}
	}
	r.emit(verifsupport.Ev{"ev": "Reset", "init": reset.Init})

	aborted := false
	for _, st := range sc.Steps[1:] {
		if aborted {
			break
		}
		switch st.Ev {
		case "Stress":
			c12Stress(r, st, watchdog)
			return
		case "Start":
			if st.Kind == "fetch" {
				// Env_SingleFetcher is the driver's duty: an earlier fetch that has not returned yet (the
				// real interleaving drifted from the schedule) is let run freely and waited for
				for _, prev := range r.order {
					if prev.kind == "fetch" && !prev.finished.Load() {
						for _, o := range r.order {
							o.openAll()
						}
						select {
						case <-prev.done:
						case <-time.After(watchdog):
							aborted = true // wedged: reported as Stuck below
						}
					}
				}
				if aborted {
					continue
				}
			}
			// an operation the schedule has already let return, and which is only a little late, is waited
			// for, so that the calls that the schedule starts after it really start after it
			for _, prev := range r.order {
				if r.retSeen[prev.id] && !prev.finished.Load() {
					r.waitReturn(prev, c12ReturnWait)
				}
			}
			op := c11NewOp(st.Op, st.Kind, st.V)
			r.ops[st.Op] = op
			r.order = append(r.order, op)
			r.inflight.Add(1)
			r.emit(verifsupport.Ev{"ev": "Start", "op": st.Op, "kind": st.Kind, "v": st.V})
			go r.runOp(op)
		case "Source":
			op := r.ops[st.Op]
			op.out, op.doc = st.Out, st.Doc
		case "Bid":
			op := r.ops[st.Op]
			op.bid = st.Out
			op.open("bid")
		case "Return":
			r.retSeen[st.Op] = true
			r.waitReturn(r.ops[st.Op], c12ReturnWait)
		case "Step":
			op := r.ops[st.Op]
			switch st.Name {
			case "FetchRLock":
				op.open("pre")
			case "FetchLockReq":
				op.open("src")
				r.waitWriterPendingOrDone(op)
			case "LookupRLock", "AuctionRLock":
				op.open("pre")
				if op.v <= 2 {
					op.waitArrived("name", c12ArriveWait)
				}
			case "LookupRUnlock", "AuctionRUnlock":
				// the settings are worked out under the lock, or (schedules of the "snapshot" design) later:
				// then the operation stays held mid-resolution until its Resolve step
				if !r.resolves[st.Op] {
					op.open("name")
				}
			case "LookupResolve", "AuctionResolve":
				op.open("name")
			}
		default:
			t.Fatalf("unknown step %q", st.Ev)
		}
		if r.inflight.Load() == 0 && r.returned.Load() != r.probed {
			r.probed = r.returned.Load()
			if !r.probe() {
				aborted = true
			}
		}
	}
	// every gate open: whatever is still running must now return
	for _, op := range r.order {
		op.openAll()
	}
	deadline := time.After(watchdog)
	stuck := false
	for _, op := range r.order {
		select {
		case <-op.done:
		case <-deadline:
			stuck = true
		}
		if stuck {
			break
		}
	}
	if stuck {
		c12Stuck.Add(1)
		for _, op := range r.order {
			if !op.finished.Load() {
				r.emit(verifsupport.Ev{"ev": "Stuck", "op": op.id, "kind": op.kind, "watchdog_ms": int(watchdog / time.Millisecond)})
			}
		}
		return
	}
	if !aborted && r.returned.Load() != r.probed {
		r.probe()
	}
}

// c12Stress lets a fetch loop, auction loops, BuilderBid loops and lookup loops run freely against each other: the
// interleaving in which Lock() arrives between two lock operations of one call cannot be arranged
// from outside.  The loops must end (NoWedge); the trace records whether they did.
func c12Stress(r *c12Run, st c12Step, watchdog time.Duration) {
	r.env.quiet = true
	r.env.quietOps = true
	rng := rand.New(rand.NewSource(verifsupport.Seed()*1000003 + int64(r.sc)))
	docIDs := make([]int, 0, len(r.env.docs))
	for id := range r.env.docs {
		docIDs = append(docIDs, id)
	}
	docIDs = c11Ints(docIDs)
	workers := st.Workers
	if workers <= 0 {
		workers = 4
	}
	var progress, calls, fetches atomic.Int64
	var last atomic.Int64
	last.Store(int64(r.env.srcDoc))
	if r.env.srcOut != "good" {
		last.Store(0)
	}
	stop := make(chan struct{})
	var wg sync.WaitGroup
	s := r.sys.svc
	newOp := func(kind string, v int) (*c11Op, context.Context) {
		op := c11NewOp(0, kind, v)
		op.openAll()
		return op, context.WithValue(r.ctx, c11OpKey{}, op)
	}
	// outcomes are drawn before the loop starts (rng is not shared)
	type outcome struct {
		out string
		doc int
	}
	plan := make([]outcome, st.N)
	for i := range plan {
		switch k := rng.Intn(len(docIDs) + 3); {
		case k < len(docIDs):
			plan[i] = outcome{"good", docIDs[k]}
		case k == len(docIDs):
			plan[i] = outcome{"error", 0}
		case k == len(docIDs)+1:
			plan[i] = outcome{"malformed", 0}
		default:
			plan[i] = outcome{"empty", 0}
		}
	}
	wg.Add(1)
	go func() {
		defer wg.Done()
		job := r.sys.sched.Get(c11FetchJob).Func
		for _, o := range plan {
			op, ctx := newOp("fetch", 0)
			op.out, op.doc = o.out, o.doc
			job(ctx)
			if o.out == "good" {
				last.Store(int64(o.doc))
			}
			fetches.Add(1)
			progress.Add(1)
		}
		close(stop)
	}()
	for w := 0; w < workers; w++ {
		wg.Add(1)
		go func(w int) {
			defer wg.Done()
			for i := 0; ; i++ {
				select {
				case <-stop:
					return
				default:
				}
				v := 1 + (i+w)%2
				if (i+w)%3 == 0 {
					op, ctx := newOp("lookup", v)
					_, _ = s.ProposerConfig(ctx, c11AccountFor(op, v), c11Pubkeys[v])
				} else if (i+w)%4 == 1 {
					// the REST daemon's entry point: a bid that is never cached (a slot of its own), so every
					// request takes builderBidMu and runs an immediate auction - the window between that and
					// ProposerConfig's read lock cannot be gated
					op, ctx := newOp("bbid", v)
					op.bid = []string{"win", "nobid", "err"}[i%3]
					_, _ = s.BuilderBid(ctx, phase0.Slot(1000000+i*8+w), phase0.Hash32{byte(w)}, c11Pubkeys[v])
				} else {
					op, ctx := newOp("auction", v)
					op.bid = []string{"win", "nobid", "err"}[i%3]
					_, _ = s.AuctionBlock(ctx, phase0.Slot(i), phase0.Hash32{byte(w)}, c11Pubkeys[v])
				}
				calls.Add(1)
				progress.Add(1)
			}
		}(w)
	}
	finished := make(chan struct{})
	go func() { wg.Wait(); close(finished) }()
	wedged := false
	lastProgress, lastChange := progress.Load(), time.Now()
	tick := time.NewTicker(20 * time.Millisecond)
	defer tick.Stop()
loop:
	for {
		select {
		case <-finished:
			break loop
		case <-tick.C:
			if p := progress.Load(); p != lastProgress {
				lastProgress, lastChange = p, time.Now()
			} else if time.Since(lastChange) > watchdog {
				wedged = true
				break loop
			}
		}
	}
	ev := verifsupport.Ev{"ev": "Stress", "fetches": int(fetches.Load()), "calls": int(calls.Load()), "wedged": wedged,
		"last": int(last.Load()), "cfg": c11Projection(r.ctx, s)}
	if wedged {
		c12Stuck.Add(1)
		ev["watchdog_ms"] = int(watchdog / time.Millisecond)
	}
	r.emit(ev)
	if !wedged {
		r.probe()
	}
}

func TestVerifC12(t *testing.T) {
	var scenarios []c12Scenario
	verifsupport.Scenarios(t, &scenarios)
	tr := verifsupport.OpenTrace(t)
	defer tr.Close()
	watchdog := c12Watchdog()
	for _, sc := range scenarios {
		c12RunScenario(t, tr, sc, watchdog)
	}
}
