package standard

// Service-level conformance driver for property C10 (spec/ExecConfigSvc.tla on top of spec/ExecConfig.tla).
// Injected with -overlay by /verif/check.
//
// ONE real block relay service (New, its fetch job run through the scheduler it was registered with) per
// history.  The configuration source serves the abstract documents of ExecConfigSvc.tla (SvcDoc, lattice
// points of ExecConfig.tla) rendered to version-2 JSON here; ProposerConfig is called for validators V1 and V2
// (accounts "Wallet/validator1", "Wallet/validator2") before, after and - held at the account's Name() call
// inside the configuration's own resolution - ACROSS fetches.  Every answer is logged with its values mapped
// back to the tokens of the abstract document, and TLC judges it against ResolveSet of a document that was in
// force during the call.

import (
	"context"
	"encoding/json"
	"fmt"
	"os"
	"sort"
	"strconv"
	"sync/atomic"
	"testing"
	"time"

	"github.com/attestantio/go-eth2-client/spec/bellatrix"
	"github.com/attestantio/go-eth2-client/spec/phase0"
	"github.com/attestantio/vouch/services/beaconblockproposer"
	"github.com/attestantio/vouch/verifsupport"
	"github.com/shopspring/decimal"
	e2wtypes "github.com/wealdtech/go-eth2-wallet-types/v2"
)

type c10sObj = map[string]any

type c10sStep struct {
	Ev   string    `json:"ev"`
	Init int       `json:"init"`
	Docs []c10sObj `json:"docs"`
	Out  string    `json:"out"`
	Doc  int       `json:"doc"`
	V    string    `json:"v"`
	Acct *bool     `json:"acct"`
}

type c10sScenario struct {
	Sc    int        `json:"sc"`
	Steps []c10sStep `json:"steps"`
}

// ---------------------------------------------------------------------------------------------
// tokens <-> concrete values (one table per field; index 0 is the fallback / "not given anywhere")

var c10sTokens = []string{"F", "T", "B", "P", "Q", "B2", "P2", "Q2"}

func c10sIdx(tok string) int {
	for i, t := range c10sTokens {
		if t == tok {
			return i
		}
	}
	panic("unknown token " + tok)
}

func c10sFee(i int) bellatrix.ExecutionAddress {
	if i == 0 {
		return c11FeeAddr(0)
	}
	var a bellatrix.ExecutionAddress
	for k := range a {
		a[k] = byte(0xa0 + i)
	}
	return a
}

func c10sGas(i int) uint64 { return c11FallbackGas + uint64(i)*1000 }

func c10sGrace(i int) time.Duration { return time.Duration(i) * 100 * time.Millisecond }

// minimum value of token i in wei: i * 10^16 (0.0i Ether)
func c10sMinValue(i int) decimal.Decimal { return decimal.New(int64(i), 16) }

func c10sKey(i int) phase0.BLSPubKey {
	var k phase0.BLSPubKey
	for j := range k {
		k[j] = byte(0xc0 + i)
	}
	return k
}

func c10sRelayAddr(name string) string {
	switch name {
	case "R1":
		return c11RelayAddr(1)
	case "R2":
		return c11RelayAddr(2)
	case "R3":
		return "http://relay3.verif"
	}
	panic("unknown relay " + name)
}

func c10sRelayName(addr string) string {
	for _, n := range []string{"R1", "R2", "R3"} {
		if c10sRelayAddr(n) == addr {
			return n
		}
	}
	return "?" + addr
}

// document text of a field value
func c10sText(field, tok string) string {
	i := c10sIdx(tok)
	switch field {
	case "fr":
		return fmt.Sprintf("%#x", c10sFee(i))
	case "gl":
		return fmt.Sprintf("%d", c10sGas(i))
	case "gr":
		return fmt.Sprintf("%d", c10sGrace(i).Milliseconds())
	case "mv":
		return fmt.Sprintf("0.0%d", i)
	case "pk":
		return fmt.Sprintf("%#x", c10sKey(i))
	}
	panic("unknown field " + field)
}

var c10sJSONName = map[string]string{"fr": "fee_recipient", "gl": "gas_limit", "gr": "grace", "mv": "min_value", "pk": "public_key"}

func c10sFields(dst c10sObj, src c10sObj) {
	for f, name := range c10sJSONName {
		if tok, ok := src[f].(string); ok {
			dst[name] = c10sText(f, tok)
		}
	}
}

func c10sList(v any) []c10sObj {
	arr, _ := v.([]any)
	out := make([]c10sObj, 0, len(arr))
	for _, x := range arr {
		if o, ok := x.(c10sObj); ok {
			out = append(out, o)
		}
	}
	return out
}

// the text of a proposer entry's "proposer": a public key, or an account pattern standing for the entry's
// match set over {V1 = Wallet/validator1, V2 = Wallet/validator2} (decided here, never by the code under test)
func c10sProposer(e c10sObj) string {
	if e["kind"] == "pubkey" {
		switch e["key"] {
		case "V1":
			return fmt.Sprintf("%#x", c11Pubkeys[1])
		case "V2":
			return fmt.Sprintf("%#x", c11Pubkeys[2])
		case "K1":
			return fmt.Sprintf("%#x", c10sKey(0x21))
		default:
			return fmt.Sprintf("%#x", c10sKey(0x22))
		}
	}
	m := map[string]bool{}
	arr, _ := e["m"].([]any)
	for _, x := range arr {
		m[x.(string)] = true
	}
	switch {
	case m["V1"] && m["V2"]:
		return "Wallet/validator[12]"
	case m["V1"]:
		return "Wallet/validator1"
	case m["V2"]:
		return "Wallet/validator2"
	}
	return "Wallet/nobody"
}

// c10sRender renders an abstract version-2 document (ExecConfig.tla) to the JSON the real parser reads.
func c10sRender(doc c10sObj) []byte {
	out := c10sObj{"version": 2}
	c10sFields(out, doc)
	if rs := c10sList(doc["relays"]); len(rs) > 0 {
		relays := c10sObj{}
		for _, r := range rs {
			o := c10sObj{}
			c10sFields(o, r)
			relays[c10sRelayAddr(r["addr"].(string))] = o
		}
		out["relays"] = relays
	}
	if ps := c10sList(doc["proposers"]); len(ps) > 0 {
		proposers := make([]c10sObj, 0, len(ps))
		for _, p := range ps {
			o := c10sObj{"proposer": c10sProposer(p)}
			c10sFields(o, p)
			if b, _ := p["reset"].(bool); b {
				o["reset_relays"] = true
			}
			if rs := c10sList(p["relays"]); len(rs) > 0 {
				relays := c10sObj{}
				for _, r := range rs {
					ro := c10sObj{}
					c10sFields(ro, r)
					if b, _ := r["disabled"].(bool); b {
						ro["disabled"] = true
					}
					relays[c10sRelayAddr(r["addr"].(string))] = ro
				}
				o["relays"] = relays
			}
			proposers = append(proposers, o)
		}
		out["proposers"] = proposers
	}
	data, err := json.Marshal(out)
	if err != nil {
		panic(err)
	}
	return data
}

// values of an answer back to tokens
func c10sTok(field string, match func(i int) bool, zero string, isZero bool) string {
	if isZero && zero != "" {
		return zero
	}
	for i, t := range c10sTokens {
		if match(i) {
			return t
		}
	}
	return "?" + field
}

func c10sAnswer(pc *beaconblockproposer.ProposerConfig) c10sObj {
	feeTok := func(a bellatrix.ExecutionAddress) string {
		return c10sTok("fr", func(i int) bool { return c10sFee(i) == a }, "", false)
	}
	relays := make([]c10sObj, 0, len(pc.Relays))
	for _, r := range pc.Relays {
		pk := "none"
		if r.PublicKey != nil {
			pk = c10sTok("pk", func(i int) bool { return i > 0 && c10sKey(i) == *r.PublicKey }, "", false)
		}
		relays = append(relays, c10sObj{
			"addr": c10sRelayName(r.Address),
			"fr":   feeTok(r.FeeRecipient),
			"gl":   c10sTok("gl", func(i int) bool { return c10sGas(i) == r.GasLimit }, "", false),
			"gr":   c10sTok("gr", func(i int) bool { return i > 0 && c10sGrace(i) == r.Grace }, "0s", r.Grace == 0),
			"mv":   c10sTok("mv", func(i int) bool { return i > 0 && c10sMinValue(i).Equal(r.MinValue) }, "0", r.MinValue.IsZero()),
			"pk":   pk,
		})
	}
	sort.Slice(relays, func(i, j int) bool { return relays[i]["addr"].(string) < relays[j]["addr"].(string) })
	return c10sObj{"fr": feeTok(pc.FeeRecipient), "relays": relays}
}

// ---------------------------------------------------------------------------------------------
// accounts with a wallet: the version-2 configuration matches account entries on "wallet/account"

type c10sWallet struct{ e2wtypes.Wallet }

func (w *c10sWallet) Name() string { return "Wallet" }

type c10sAccount struct {
	*c11Account
	w *c10sWallet
}

func (a *c10sAccount) Wallet() e2wtypes.Wallet { return a.w }

func c10sVID(v string) int {
	if v == "V2" {
		return 2
	}
	return 1
}

// ---------------------------------------------------------------------------------------------

func c10sWatchdog() time.Duration {
	ms, err := strconv.Atoi(os.Getenv("VERIF_WATCHDOG_MS"))
	if err != nil || ms <= 0 {
		ms = 5000
	}
	return time.Duration(ms) * time.Millisecond
}

var c10sHung atomic.Int32

type c10sRun struct {
	tr   *verifsupport.Trace
	sc   int
	sys  *c11System
	ctx  context.Context
	wd   time.Duration
	n    int           // calls made so far
	held *c11Op        // the call that is being held mid-resolution, if any
	late chan struct{} // the fetch that could not finish while the call was held, if any
	src  *c11Op        // the fetch that is being held at the configuration source, if any
	hung bool
}

func (r *c10sRun) emit(ev verifsupport.Ev) {
	ev["sc"] = r.sc
	r.tr.Emit(ev)
}

// call runs ProposerConfig for validator v on a goroutine of its own and logs its return there.
func (r *c10sRun) call(v string, acct bool, hold bool) *c11Op {
	r.n++
	id := c10sVID(v)
	op := c11NewOp(r.n, "lookup", id)
	for _, g := range []string{"pre", "src", "bid"} {
		op.open(g)
	}
	if !hold {
		op.open("name")
	}
	// a caller that does not know the validator's account (the REST daemon) passes none
	var account e2wtypes.Account
	if acct {
		account = &c10sAccount{c11Account: c11AccountFor(op, id), w: &c10sWallet{}}
	}
	ctx := context.WithValue(r.ctx, c11OpKey{}, op)
	r.emit(verifsupport.Ev{"ev": "CallStart", "i": op.id, "v": v, "acct": acct})
	go func() {
		pc, err := r.sys.svc.ProposerConfig(ctx, account, c11Pubkeys[id])
		ev := verifsupport.Ev{"sc": r.sc, "ev": "CallReturn", "i": op.id, "v": v, "ok": err == nil && pc != nil}
		if err == nil && pc != nil {
			ev["res"] = c10sAnswer(pc)
		} else {
			ev["res"] = c10sObj{"fr": "none", "relays": []c10sObj{}}
		}
		r.tr.Locked(func() verifsupport.Ev {
			op.finished.Store(true)
			return ev
		})
		close(op.done)
	}()
	return op
}

func (r *c10sRun) wait(ch <-chan struct{}, what string, id int) bool {
	select {
	case <-ch:
		return true
	case <-time.After(r.wd):
		// no action of the specification explains this line
		r.emit(verifsupport.Ev{"ev": "Hung", "what": what, "i": id, "after_ms": int(r.wd / time.Millisecond)})
		r.hung = true
		c10sHung.Add(1)
		return false
	}
}

// fetch runs the service's fetch job; with a call held mid-resolution the job may be unable to finish before
// the call is let go (the code works the settings out under the configuration lock): that is waited for at
// Release, not here.
func (r *c10sRun) fetch(out string, doc int, holdAtSource bool) {
	op := c11NewOp(0, "fetch", 0)
	op.out, op.doc = out, doc
	if holdAtSource {
		op.open("pre")
	} else {
		op.openAll()
	}
	ctx := context.WithValue(r.ctx, c11OpKey{}, op)
	done := make(chan struct{})
	r.emit(verifsupport.Ev{"ev": "FetchStart"})
	go func() {
		r.sys.sched.Get(c11FetchJob).Func(ctx)
		r.tr.Locked(func() verifsupport.Ev { return verifsupport.Ev{"sc": r.sc, "ev": "FetchReturn"} })
		close(done)
	}()
	if holdAtSource {
		// the job is left waiting for the source's answer (FetchEnd lets the source answer)
		op.waitArrived("src", 300*time.Millisecond)
		r.src, r.late = op, done
		return
	}
	if r.held == nil {
		r.wait(done, "fetch", 0)
		return
	}
	mu := &r.sys.svc.executionConfigMu
	deadline := time.Now().Add(300 * time.Millisecond)
	for time.Now().Before(deadline) {
		select {
		case <-done:
			return
		case <-time.After(500 * time.Microsecond):
		}
		if !mu.TryRLock() {
			// a writer is pending behind the held reader: nothing moves until the call is let go
			time.Sleep(500 * time.Microsecond)
			if !mu.TryRLock() {
				break
			}
		}
		mu.RUnlock()
	}
	r.late = done
}

func c10sRunScenario(t *testing.T, tr *verifsupport.Trace, sc c10sScenario) {
	if len(sc.Steps) == 0 || sc.Steps[0].Ev != "Reset" {
		t.Fatalf("scenario %d does not start with Reset", sc.Sc)
	}
	reset := sc.Steps[0]
	if c10sHung.Load() >= 3 {
		// the tree is wedging: do not spend a watchdog period on every remaining history
		tr.Emit(verifsupport.Ev{"sc": sc.Sc, "ev": "Reset", "init": reset.Init, "skipped": true})
		return
	}
	env := c11NewEnv(t, tr, sc.Sc, nil)
	env.quiet = true
	env.rawDocs = map[int][]byte{}
	for i, d := range reset.Docs {
		env.rawDocs[i+1] = c10sRender(d)
	}
	initOut := "error"
	if reset.Init != 0 {
		initOut = "good"
	}
	sys := c11NewSystem(t, env, initOut, reset.Init, false)
	defer sys.close()
	ctx, cancel := context.WithCancel(context.Background())
	defer cancel()
	r := &c10sRun{tr: tr, sc: sc.Sc, sys: sys, ctx: ctx, wd: c10sWatchdog()}
	r.emit(verifsupport.Ev{"ev": "Reset", "init": reset.Init})
	for _, st := range sc.Steps[1:] {
		if r.hung {
			break
		}
		switch st.Ev {
		case "Fetch":
			r.fetch(st.Out, st.Doc, false)
		case "FetchBegin":
			r.fetch(st.Out, st.Doc, true)
		case "FetchEnd":
			if r.src != nil {
				r.src.openAll()
				r.src = nil
			}
			if r.late != nil {
				r.wait(r.late, "fetch", 0)
				r.late = nil
			}
		case "Lookup":
			op := r.call(st.V, st.Acct == nil || *st.Acct, false)
			r.wait(op.done, "call", op.id)
		case "Hold":
			r.held = r.call(st.V, true, true)
			r.held.waitArrived("name", 300*time.Millisecond)
		case "Release":
			if r.held != nil {
				r.held.open("name")
				r.wait(r.held.done, "call", r.held.id)
				r.held = nil
			}
			if r.late != nil && !r.hung {
				r.wait(r.late, "fetch", 0)
				r.late = nil
			}
		default:
			t.Fatalf("unknown step %q", st.Ev)
		}
	}
	if r.held != nil {
		r.held.openAll()
	}
	if r.src != nil {
		r.src.openAll()
	}
}

func TestVerifC10Service(t *testing.T) {
	var scenarios []c10sScenario
	verifsupport.Scenarios(t, &scenarios)
	tr := verifsupport.OpenTrace(t)
	defer tr.Close()
	for _, sc := range scenarios {
		c10sRunScenario(t, tr, sc)
	}
}
