package standard

// Shared fakes of the C11 and C12 conformance drivers (spec/BlockRelay.tla).  Injected with
// -overlay by /verif/check; never committed to the repository.
//
// The environment of the block relay is scripted here: configuration source (majordomo), validating
// accounts, accounts with real BLS keys, signer (the real standard signer or a hashing one behind a
// wrapper that scripts failures), relays (pre-registered in util's builder client cache), beacon
// nodes and the builder-bid strategy.  Every fake writes the trace event of the spec action it stands
// for at the moment it is called.

import (
	"bytes"
	"context"
	"crypto/sha256"
	"encoding/json"
	"errors"
	"fmt"
	"math/big"
	"net/url"
	"os"
	"runtime"
	"sort"
	"strconv"
	"strings"
	"sync"
	"sync/atomic"
	"testing"
	"time"

	"github.com/attestantio/go-block-relay/services/blockauctioneer"
	builderclient "github.com/attestantio/go-builder-client"
	builderapi "github.com/attestantio/go-builder-client/api"
	"github.com/attestantio/go-builder-client/api/deneb"
	builderapiv1 "github.com/attestantio/go-builder-client/api/v1"
	builderspec "github.com/attestantio/go-builder-client/spec"
	consensusclient "github.com/attestantio/go-eth2-client"
	consensusapi "github.com/attestantio/go-eth2-client/api"
	consensusapiv1 "github.com/attestantio/go-eth2-client/api/v1"
	consensusspec "github.com/attestantio/go-eth2-client/spec"
	"github.com/attestantio/go-eth2-client/spec/bellatrix"
	"github.com/attestantio/go-eth2-client/spec/phase0"
	"github.com/attestantio/vouch/mock"
	"github.com/attestantio/vouch/services/beaconblockproposer"
	"github.com/attestantio/vouch/services/blockrelay"
	nullmetrics "github.com/attestantio/vouch/services/metrics/null"
	"github.com/attestantio/vouch/services/signer"
	standardsigner "github.com/attestantio/vouch/services/signer/standard"
	"github.com/attestantio/vouch/util"
	"github.com/attestantio/vouch/verifsupport"
	"github.com/holiman/uint256"
	pkgerrors "github.com/pkg/errors"
	"github.com/rs/zerolog"
	e2types "github.com/wealdtech/go-eth2-types/v2"
	e2wtypes "github.com/wealdtech/go-eth2-wallet-types/v2"
)

// ---------------------------------------------------------------------------------------------
// catalogue of configuration documents (comes from the specification with the Reset step)
// ---------------------------------------------------------------------------------------------

type c11DocVal struct {
	V   int      `json:"v"`
	Fee int      `json:"fee"`
	Rel [][3]int `json:"rel"`
}

type c11Doc struct {
	ID   int         `json:"id"`
	Bad  []int       `json:"bad"`
	Vals []c11DocVal `json:"vals"`
}

const (
	c11NumValidators = 3 // validators 1,2 have accounts; 3 is only seen in REST registrations
	c11NumRelays     = 2
	c11FallbackGas   = uint64(30000000)
)

func c11FeeAddr(id int) bellatrix.ExecutionAddress {
	var a bellatrix.ExecutionAddress
	if id == 0 {
		// the fallback fee recipient
		for i := range a {
			a[i] = 0xfb
		}
		return a
	}
	for i := range a {
		a[i] = byte(0x10*id + i%7)
	}
	return a
}

func c11FeeID(a bellatrix.ExecutionAddress) int {
	for id := 0; id <= 5; id++ {
		if a == c11FeeAddr(id) {
			return id
		}
	}
	return 99
}

func c11Gas(id int) uint64 {
	if id == 0 {
		return c11FallbackGas
	}
	return c11FallbackGas + uint64(id)*1000
}

func c11GasID(g uint64) int {
	for id := 0; id <= 5; id++ {
		if g == c11Gas(id) {
			return id
		}
	}
	return 99
}

func c11RelayAddr(id int) string { return fmt.Sprintf("http://relay%d.verif", id) }

func c11RelayID(addr string) int {
	for id := 1; id <= c11NumRelays; id++ {
		if addr == c11RelayAddr(id) {
			return id
		}
	}
	return 99
}

// ---------------------------------------------------------------------------------------------
// keys and accounts
// ---------------------------------------------------------------------------------------------

var (
	c11KeysOnce sync.Once
	c11Keys     map[int]*e2types.BLSPrivateKey
	c11Pubkeys  map[int]phase0.BLSPubKey
)

func c11InitKeys(t testing.TB) {
	c11KeysOnce.Do(func() {
		if err := e2types.InitBLS(); err != nil {
			t.Fatalf("bls: %v", err)
		}
		c11Keys = map[int]*e2types.BLSPrivateKey{}
		c11Pubkeys = map[int]phase0.BLSPubKey{}
		for v := 1; v <= c11NumValidators; v++ {
			raw := make([]byte, 32)
			raw[0] = 0x01
			raw[31] = byte(v)
			raw[17] = byte(3*v + 1)
			k, err := e2types.BLSPrivateKeyFromBytes(raw)
			if err != nil {
				t.Fatalf("bls key: %v", err)
			}
			c11Keys[v] = k
			var pk phase0.BLSPubKey
			copy(pk[:], k.PublicKey().Marshal())
			c11Pubkeys[v] = pk
		}
	})
}

func c11ValidatorID(pk phase0.BLSPubKey) int {
	for v, k := range c11Pubkeys {
		if k == pk {
			return v
		}
	}
	return 99
}

// c11Account is an account with a real BLS key.  onName is called from Name() and PublicKey() when they
// are called from inside the execution configuration's own resolution (services/blockrelay/v1 or v2 on the
// stack): the version-2 configuration asks for the account's name while it works out a validator's
// settings - on the current tree that is while ProposerConfig holds the configuration read lock.  Calls
// from anywhere else (a caller working out a key of its own, say) are answered at once, so that an
// operation is held MID-RESOLUTION and nowhere else.
type c11Account struct {
	e2wtypes.Account // ID() is never called on these paths (google/uuid is only an indirect requirement)
	v                int
	onName           func()
}

// c11InResolution tells whether the caller's caller runs inside an execution configuration's resolution.
func c11InResolution() bool {
	var pcs [48]uintptr
	n := runtime.Callers(3, pcs[:])
	frames := runtime.CallersFrames(pcs[:n])
	for {
		fr, more := frames.Next()
		if strings.Contains(fr.Function, "/services/blockrelay/v2.") || strings.Contains(fr.Function, "/services/blockrelay/v1.") {
			return true
		}
		if !more {
			return false
		}
	}
}

func (a *c11Account) Name() string {
	if a.onName != nil && c11InResolution() {
		a.onName()
	}
	return fmt.Sprintf("validator%d", a.v)
}

func (a *c11Account) PublicKey() e2types.PublicKey {
	if a.onName != nil && c11InResolution() {
		a.onName()
	}
	return c11Keys[a.v].PublicKey()
}
func (a *c11Account) Sign(_ context.Context, data []byte) (e2types.Signature, error) {
	return c11Keys[a.v].Sign(data), nil
}

// ---------------------------------------------------------------------------------------------
// rendering a catalogue document as a version-2 execution configuration
// ---------------------------------------------------------------------------------------------

func c11DocJSON(doc *c11Doc) []byte {
	type relayJSON struct {
		FeeRecipient string `json:"fee_recipient,omitempty"`
		GasLimit     string `json:"gas_limit,omitempty"`
	}
	type proposerJSON struct {
		Proposer     string                `json:"proposer"`
		FeeRecipient string                `json:"fee_recipient,omitempty"`
		ResetRelays  bool                  `json:"reset_relays,omitempty"`
		Relays       map[string]*relayJSON `json:"relays,omitempty"`
	}
	type docJSON struct {
		Version   int             `json:"version"`
		Proposers []*proposerJSON `json:"proposers,omitempty"`
	}
	out := &docJSON{Version: 2}
	vals := append([]c11DocVal{}, doc.Vals...)
	sort.Slice(vals, func(i, j int) bool { return vals[i].V < vals[j].V })
	for _, val := range vals {
		p := &proposerJSON{
			Proposer:    fmt.Sprintf("%#x", c11Pubkeys[val.V]),
			ResetRelays: true,
			Relays:      map[string]*relayJSON{},
		}
		if val.Fee != 0 {
			p.FeeRecipient = fmt.Sprintf("%#x", c11FeeAddr(val.Fee))
		}
		for _, rel := range val.Rel {
			r := &relayJSON{}
			if rel[1] != 0 {
				r.FeeRecipient = fmt.Sprintf("%#x", c11FeeAddr(rel[1]))
			}
			if rel[2] != 0 {
				r.GasLimit = fmt.Sprintf("%d", c11Gas(rel[2]))
			}
			p.Relays[c11RelayAddr(rel[0])] = r
		}
		out.Proposers = append(out.Proposers, p)
	}
	if len(doc.Bad) > 0 {
		// An entry that names neither an account nor a validator: every validator that reaches it
		// (the ones not listed above) cannot be resolved.
		out.Proposers = append(out.Proposers, &proposerJSON{Proposer: fmt.Sprintf("%#x", phase0.BLSPubKey{})})
	}
	data, err := json.Marshal(out)
	if err != nil {
		panic(err)
	}
	return data
}

// c11SourceBytes is what the source serves for an outcome of the specification.
func c11SourceBytes(docs map[int]*c11Doc, out string, doc int, variant int64) ([]byte, error) {
	switch out {
	case "good":
		d, ok := docs[doc]
		if !ok {
			panic(fmt.Sprintf("unknown document %d", doc))
		}
		return c11DocJSON(d), nil
	case "error":
		return nil, errors.New("scripted source failure")
	case "timeout", "canceled":
		// the source's client ran into its own time-out / cancelled its own request: the error wraps a context
		// error although the context of the fetch is live
		kind := map[string]string{"timeout": "deadline", "canceled": "canceled"}[out]
		_, err := c11KindErr(context.Background(), kind, "verif://execution-config", variant)
		return nil, err
	case "malformed":
		bad := []string{
			`{`, `[]`, `{"version":3}`, `{"version":2,"fee_recipient":"0x12"}`, `{"version":2,"proposers":[{"proposer":""}]}`,
			`null`, `{}`, `{"version":2,"gas_limit":"-1"}`, "\x00\x01garbage", `{"version":"2"}`,
			`{"version":2,"proposers":[{"proposer":"0x1234"}]}`, `{"default_config":{"gas_limit":"1"}}`,
		}
		return []byte(bad[int(variant%int64(len(bad)))]), nil
	case "empty":
		empties := []string{"", " ", "\n"}
		return []byte(empties[int(variant%int64(len(empties)))]), nil
	}
	panic("unknown outcome " + out)
}

// ---------------------------------------------------------------------------------------------
// the environment
// ---------------------------------------------------------------------------------------------

type c11OpKey struct{}

// c11Op is what a C12 operation carries in its context so that fakes know whom they serve.
type c11Op struct {
	id   int
	kind string
	v    int
	// scripted answers
	out string // source outcome
	doc int
	bid string
	// gates: closed channel = open
	gates    map[string]chan struct{}
	arrived  map[string]chan struct{}
	finished atomic.Bool
	done     chan struct{}
	bidSeen  string
}

func c11NewOp(id int, kind string, v int) *c11Op {
	op := &c11Op{id: id, kind: kind, v: v, bid: "nobid", out: "error", bidSeen: "none",
		gates: map[string]chan struct{}{}, arrived: map[string]chan struct{}{}, done: make(chan struct{})}
	for _, g := range []string{"pre", "src", "name", "bid"} {
		op.gates[g] = make(chan struct{})
		op.arrived[g] = make(chan struct{})
	}
	return op
}

var c11GateMu sync.Mutex

func (op *c11Op) open(g string) {
	c11GateMu.Lock()
	defer c11GateMu.Unlock()
	select {
	case <-op.gates[g]:
	default:
		close(op.gates[g])
	}
}

func (op *c11Op) openAll() {
	for g := range op.gates {
		op.open(g)
	}
}

// pass is called by a fake: announces arrival and waits until the driver opens the gate.
func (op *c11Op) pass(g string) {
	c11GateMu.Lock()
	select {
	case <-op.arrived[g]:
	default:
		close(op.arrived[g])
	}
	ch := op.gates[g]
	c11GateMu.Unlock()
	<-ch
}

func (op *c11Op) isOpen(g string) bool {
	c11GateMu.Lock()
	defer c11GateMu.Unlock()
	select {
	case <-op.gates[g]:
		return true
	default:
		return false
	}
}

func (op *c11Op) isArrived(g string) bool {
	c11GateMu.Lock()
	defer c11GateMu.Unlock()
	select {
	case <-op.arrived[g]:
		return true
	default:
		return false
	}
}

func (op *c11Op) waitArrived(g string, d time.Duration) bool {
	select {
	case <-op.arrived[g]:
		return true
	case <-op.done:
		return true
	case <-time.After(d):
		return false
	}
}

func c11OpFrom(ctx context.Context) *c11Op {
	op, _ := ctx.Value(c11OpKey{}).(*c11Op)
	return op
}

type c11Env struct {
	t     testing.TB
	tr    *verifsupport.Trace
	sc    int
	docs  map[int]*c11Doc
	seed  int64
	calls atomic.Int64

	mu sync.Mutex
	// configuration source
	srcOut  string
	srcDoc  int
	rawDocs map[int][]byte // documents served as they are (service-level driver of C10), instead of the catalogue's
	// validating accounts
	accts         []int
	acctsCalls    int
	acctsFailFrom int // calls >= this number fail (0 = never)
	acctsCond     *sync.Cond
	// signer
	realSigner signer.ValidatorRegistrationSigner
	signFail   map[[3]int]bool
	signKind   string // kind of the scripted signing failures ("" = "err")
	// relays and nodes: the scripted-failing ones with the KIND of their failure (ErrKindsAll of the specification:
	// "err" | "deadline" | "canceled" | "notactive"); prepOut has an entry for every node ("ok" included)
	relayFail map[int]string
	nodeFail  map[int]string
	prepOut   map[int]string
	numNodes  int // beacon nodes configured (secondary registration submitters = preparation submitters); 0 = 2
	fwdIn     map[[3]int]*builderapiv1.SignedValidatorRegistration
	mode      string // "reg" | "fwd": how a relay judges the signature of what it receives
	prepSeen  int
	// latency script of the current round: "" / "none" = every fake answers at once; "slow" = a healthy relay
	// or node answers only after the scripted-failing ones of the same fan-out have answered (bounded) and a
	// further short period, watching its context all the while; "batched" = as slow, and a relay receives
	// its payload one registration at a time, with such a period before every batch
	lat      string
	fanout   map[string]*c11Fanout
	quiet    bool // no registration events (C12: the registration part is not in its trace)
	quietOps bool // no Source / Bid events (stress)
	// "held" rounds (C11 overlap): the healthy relays keep the round's calls in flight until the driver opens
	// the gate; meanwhile a forwarding call of the second lane (context value c11LaneKey = "f2") and a fetch run
	gate        chan struct{}
	gateArrived int
	f2In        map[[3]int]*builderapiv1.SignedValidatorRegistration
	f2RelayFail map[int]string
	// the instance was abandoned by the watchdog: nothing it still does is recorded
	dead atomic.Bool
}

// c11LaneKey marks the context of a call with the lane it belongs to ("f2" = forwarding call that overlaps a round).
type c11LaneKey struct{}

func c11Lane(ctx context.Context) string {
	l, _ := ctx.Value(c11LaneKey{}).(string)
	return l
}

func c11NewEnv(t testing.TB, tr *verifsupport.Trace, sc int, docs []c11Doc) *c11Env {
	c11InitKeys(t)
	e := &c11Env{t: t, tr: tr, sc: sc, docs: map[int]*c11Doc{}, seed: verifsupport.Seed(),
		srcOut: "error", signFail: map[[3]int]bool{}, relayFail: map[int]string{}, nodeFail: map[int]string{},
		prepOut: map[int]string{}, fwdIn: map[[3]int]*builderapiv1.SignedValidatorRegistration{}, mode: "reg"}
	e.acctsCond = sync.NewCond(&e.mu)
	for i := range docs {
		d := docs[i]
		e.docs[d.ID] = &d
	}
	return e
}

func (e *c11Env) emit(ev verifsupport.Ev) {
	if e.dead.Load() {
		return
	}
	ev["sc"] = e.sc
	e.tr.Emit(ev)
}

// ---- configuration source (majordomo) ----

type c11Majordomo struct{ env *c11Env }

func (m *c11Majordomo) Fetch(ctx context.Context, _ string) ([]byte, error) {
	e := m.env
	op := c11OpFrom(ctx)
	variant := e.seed*7919 + e.calls.Add(1)
	if op == nil {
		e.mu.Lock()
		out, doc := e.srcOut, e.srcDoc
		e.mu.Unlock()
		return e.sourceBytes(out, doc, variant)
	}
	op.pass("src")
	var data []byte
	var err error
	// the event is ordered with the answer: written under the trace lock when the source answers
	e.tr.Locked(func() verifsupport.Ev {
		data, err = e.sourceBytes(op.out, op.doc, variant)
		if e.quietOps {
			return nil
		}
		return verifsupport.Ev{"sc": e.sc, "ev": "Source", "op": op.id, "out": op.out, "doc": op.doc}
	})
	return data, err
}

func (e *c11Env) sourceBytes(out string, doc int, variant int64) ([]byte, error) {
	if out == "good" && e.rawDocs != nil {
		if raw, ok := e.rawDocs[doc]; ok {
			return raw, nil
		}
	}
	return c11SourceBytes(e.docs, out, doc, variant)
}

// ---- accounts ----

func (e *c11Env) ValidatingAccountsForEpoch(ctx context.Context, _ phase0.Epoch) (map[phase0.ValidatorIndex]e2wtypes.Account, error) {
	if op := c11OpFrom(ctx); op != nil && op.kind == "fetch" {
		// before fetchExecutionConfig touches the lock
		op.pass("pre")
	}
	e.mu.Lock()
	defer e.mu.Unlock()
	e.acctsCalls++
	e.acctsCond.Broadcast()
	if e.acctsFailFrom != 0 && e.acctsCalls >= e.acctsFailFrom {
		return nil, errors.New("scripted accounts failure")
	}
	res := map[phase0.ValidatorIndex]e2wtypes.Account{}
	for _, v := range e.accts {
		res[phase0.ValidatorIndex(100+v)] = &c11Account{v: v}
	}
	return res, nil
}

func (e *c11Env) ValidatingAccountsForEpochByIndex(ctx context.Context, epoch phase0.Epoch, _ []phase0.ValidatorIndex) (map[phase0.ValidatorIndex]e2wtypes.Account, error) {
	return e.ValidatingAccountsForEpoch(ctx, epoch)
}

func (e *c11Env) SyncCommitteeAccountsForEpoch(ctx context.Context, epoch phase0.Epoch) (map[phase0.ValidatorIndex]e2wtypes.Account, error) {
	return e.ValidatingAccountsForEpoch(ctx, epoch)
}

func (e *c11Env) SyncCommitteeAccountsForEpochByIndex(ctx context.Context, epoch phase0.Epoch, _ []phase0.ValidatorIndex) (map[phase0.ValidatorIndex]e2wtypes.Account, error) {
	return e.ValidatingAccountsForEpoch(ctx, epoch)
}

func (e *c11Env) waitAcctsCalls(n int) {
	e.mu.Lock()
	for e.acctsCalls < n {
		e.acctsCond.Wait()
	}
	e.mu.Unlock()
}

// AccountByPublicKey hands an operation its own account object, so that the operation can be held
// inside ProposerConfig's critical section (Name() is called there).
func (e *c11Env) AccountByPublicKey(ctx context.Context, pubkey phase0.BLSPubKey) (e2wtypes.Account, error) {
	v := c11ValidatorID(pubkey)
	if v == 99 || v > 2 {
		return nil, errors.New("unknown account")
	}
	op := c11OpFrom(ctx)
	if op != nil {
		// before auctionBlock touches the lock
		op.pass("pre")
	}
	return c11AccountFor(op, v), nil
}

func c11AccountFor(op *c11Op, v int) *c11Account {
	a := &c11Account{v: v}
	if op != nil {
		a.onName = func() { op.pass("name") }
	}
	return a
}

// ---- signer ----

type c11Signer struct{ env *c11Env }

func c11HashSig(pubkey phase0.BLSPubKey, root [32]byte) phase0.BLSSignature {
	var sig phase0.BLSSignature
	h := sha256.Sum256(append(append([]byte("verif-c11-sig"), pubkey[:]...), root[:]...))
	copy(sig[:], h[:])
	copy(sig[32:], h[:])
	copy(sig[64:], h[:])
	return sig
}

func (s *c11Signer) SignValidatorRegistration(ctx context.Context, account e2wtypes.Account, registration *builderapi.VersionedValidatorRegistration) (phase0.BLSSignature, error) {
	e := s.env
	reg := registration.V1
	v := c11ValidatorID(reg.Pubkey)
	key := [3]int{v, c11FeeID(reg.FeeRecipient), c11GasID(reg.GasLimit)}
	e.mu.Lock()
	fail := e.signFail[key]
	kind := e.signKind
	real := e.realSigner
	quiet := e.quiet
	e.mu.Unlock()
	var sig phase0.BLSSignature
	var err error
	switch {
	case fail:
		if kind == "" || kind == "err" {
			err = errors.New("scripted signing failure")
		} else {
			_, err = c11KindErr(context.Background(), kind, "signer", e.calls.Add(1))
		}
	case real != nil:
		sig, err = real.SignValidatorRegistration(ctx, account, registration)
	default:
		var root [32]byte
		root, err = reg.HashTreeRoot()
		if err == nil {
			sig = c11HashSig(util.ValidatorPubkey(account), root)
		}
	}
	if !quiet {
		e.emit(verifsupport.Ev{"ev": "SignReq", "v": key[0], "fee": key[1], "gas": key[2], "ok": err == nil})
	}
	return sig, err
}

// c11SigOK tells whether sig is the validator's signature over exactly this message.
func (e *c11Env) c11SigOK(pubkey phase0.BLSPubKey, root [32]byte, sig phase0.BLSSignature) bool {
	e.mu.Lock()
	real := e.realSigner != nil
	e.mu.Unlock()
	if !real {
		return sig == c11HashSig(pubkey, root)
	}
	v := c11ValidatorID(pubkey)
	if v == 99 {
		return false
	}
	// builder domain as the real signer derives it from the mock providers: domain type in the first four bytes
	var domain phase0.Domain
	copy(domain[:], []byte{0x00, 0x00, 0x00, 0x01})
	container := phase0.SigningData{ObjectRoot: root, Domain: domain}
	signingRoot, err := container.HashTreeRoot()
	if err != nil {
		return false
	}
	s, err := e2types.BLSSignatureFromBytes(sig[:])
	if err != nil {
		return false
	}
	return s.Verify(signingRoot[:], c11Keys[v].PublicKey())
}

// ---- calls that honour their context ----

// c11Fanout tells the healthy fakes of one fan-out (relays "R", secondary nodes "N", preparation nodes
// "P") when a scripted-failing one has answered.
type c11Fanout struct {
	once   sync.Once
	failed chan struct{}
}

// c11LatPeriod is the period a slow fake stays "in flight" (an ordering device, not a deadline: the
// verdict never depends on it - on a tree where the property holds no context is ever cancelled, however
// the overlap resolves).  Longer on the confirming re-runs.
func c11LatPeriod() time.Duration {
	ms, err := strconv.Atoi(os.Getenv("VERIF_C11_LAT_MS"))
	if err != nil || ms <= 0 {
		ms = 8
	}
	return time.Duration(ms) * time.Millisecond
}

// newRound resets the latency script (called with e.mu held).
func (e *c11Env) newRound(lat string) {
	e.lat = lat
	e.fanout = map[string]*c11Fanout{}
	for _, k := range []string{"R", "N", "P"} {
		e.fanout[k] = &c11Fanout{failed: make(chan struct{})}
	}
}

func (e *c11Env) fanoutOf(k string) (*c11Fanout, string) {
	e.mu.Lock()
	defer e.mu.Unlock()
	if e.fanout == nil {
		e.newRound("")
	}
	return e.fanout[k], e.lat
}

// failedNow is called by a scripted-failing fake just before it returns its error.
func (e *c11Env) failedNow(k string) {
	f, _ := e.fanoutOf(k)
	f.once.Do(func() { close(f.failed) })
}

// inFlight is what a healthy fake does before it accepts (a batch of) its payload, like a request that
// is on the wire: it returns the context's error as soon as the context is done, nil otherwise.
// first: also wait (bounded) until a scripted-failing fake of the same fan-out has answered.
func (e *c11Env) inFlight(ctx context.Context, k string, anyFailing bool, first bool) error {
	if err := ctx.Err(); err != nil {
		return err
	}
	f, lat := e.fanoutOf(k)
	if lat != "slow" && lat != "batched" {
		return nil
	}
	period := c11LatPeriod()
	if anyFailing && first {
		t := time.NewTimer(3 * period)
		select {
		case <-f.failed:
		case <-ctx.Done():
		case <-t.C:
		}
		t.Stop()
	}
	t := time.NewTimer(period)
	defer t.Stop()
	select {
	case <-ctx.Done():
	case <-t.C:
	}
	return ctx.Err()
}

// ---- the kind of a failure ----

// c11KindErr is the error the client of a relay / beacon node returns for a failure of the given kind of the
// specification's alphabet, built the way go-eth2-client and go-builder-client build theirs:
//
//	"deadline"   the client's OWN per-call time-out (context.WithTimeout derived from the caller's context) fires:
//	             the error wraps context.DeadlineExceeded although the caller's context is live and has no deadline
//	"canceled"   the client's own request context is cancelled: wraps context.Canceled
//	"notactive"  ErrNotActive
//	"err"        an ordinary error
//
// wrapped as errors.Join(msg, *url.Error{Err: cause}) (net/http under go-eth2-client), github.com/pkg/errors.Wrap,
// fmt.Errorf("%w") or returned bare, by turns.  If the CALLER's context is done when the error is ready the outcome
// is the context error ("ctx"), as for any other call.
func c11KindErr(ctx context.Context, kind string, what string, variant int64) (string, error) {
	var cause error
	if variant < 0 {
		variant = -variant
	}
	switch kind {
	case "deadline":
		opCtx, cancel := context.WithTimeout(ctx, time.Millisecond)
		<-opCtx.Done()
		cause = opCtx.Err()
		cancel()
	case "canceled":
		opCtx, cancel := context.WithCancel(ctx)
		cancel()
		cause = opCtx.Err()
	case "notactive":
		cause = consensusclient.ErrNotActive
	default:
		kind = "err"
		msgs := []string{"scripted failure: connection refused", "scripted failure: POST failed with status 500", "scripted failure: unexpected EOF"}
		cause = errors.New(msgs[int(variant%int64(len(msgs)))])
	}
	if err := ctx.Err(); err != nil {
		return "ctx", err
	}
	switch variant % 4 {
	case 0:
		if kind == "deadline" || kind == "canceled" {
			return kind, errors.Join(errors.New("failed to call POST endpoint"), &url.Error{Op: "Post", URL: what, Err: cause})
		}
		return kind, errors.Join(errors.New("failed to call POST endpoint"), cause)
	case 1:
		return kind, pkgerrors.Wrap(cause, "failed to submit to "+what)
	case 2:
		return kind, fmt.Errorf("request to %s: %w", what, cause)
	}
	return kind, cause
}

// failWith is c11KindErr for a fake of this environment.
func (e *c11Env) failWith(ctx context.Context, kind string, what string) (string, error) {
	return c11KindErr(ctx, kind, what, e.seed*31+e.calls.Add(1))
}

// ---- relays ----

// c11Relay is a relay client living in util's builder client cache; it serves the current environment.
type c11Relay struct {
	id  int
	env atomic.Pointer[c11Env]
}

var (
	c11RelaysOnce sync.Once
	c11Relays     map[int]*c11Relay
)

func c11InstallRelays(e *c11Env) {
	c11RelaysOnce.Do(func() {
		c11Relays = map[int]*c11Relay{}
		for id := 1; id <= c11NumRelays; id++ {
			r := &c11Relay{id: id}
			c11Relays[id] = r
			util.VerifSetBuilderClient(c11RelayAddr(id), r)
		}
	})
	for _, r := range c11Relays {
		r.env.Store(e)
	}
}

func (r *c11Relay) Name() string              { return "verif relay" }
func (r *c11Relay) Address() string           { return c11RelayAddr(r.id) }
func (r *c11Relay) Pubkey() *phase0.BLSPubKey { return nil }

type c11RegEv struct {
	V     int  `json:"v"`
	Fee   int  `json:"fee"`
	Gas   int  `json:"gas"`
	SigOK bool `json:"sigok"`
}

func c11SortRegs(regs []c11RegEv) {
	sort.Slice(regs, func(i, j int) bool {
		if regs[i].V != regs[j].V {
			return regs[i].V < regs[j].V
		}
		if regs[i].Fee != regs[j].Fee {
			return regs[i].Fee < regs[j].Fee
		}
		return regs[i].Gas < regs[j].Gas
	})
}

// SubmitValidatorRegistrations behaves like the HTTP client of a relay: the request fails with the
// context's error when the context is done on entry or becomes done while the request is in flight (what
// has not been delivered by then never arrives); a scripted-failing relay answers with its error at once.
// Events: RelayStart (what the client was handed, state of the context on entry), RelayBatch (what the
// relay received), RelayFinish (ok / err = the relay's own failure / ctx = context error).
func (r *c11Relay) SubmitValidatorRegistrations(ctx context.Context, opts *builderapi.SubmitValidatorRegistrationsOpts) error {
	e := r.env.Load()
	if e == nil {
		return errors.New("no environment")
	}
	lane2 := c11Lane(ctx) == "f2"
	e.mu.Lock()
	fail := e.relayFail[r.id]
	anyFailing := len(e.relayFail) > 0
	mode := e.mode
	quiet := e.quiet
	lat := e.lat
	fwdIn := e.fwdIn
	gate := e.gate
	prefix := ""
	if lane2 {
		// the overlapping forwarding call: its own script, no latency, never held
		fail, anyFailing, mode, lat, fwdIn, gate, prefix = e.f2RelayFail[r.id], len(e.f2RelayFail) > 0, "fwd", "none", e.f2In, nil, "F2"
	}
	if lat != "held" {
		gate = nil
	}
	e.mu.Unlock()
	regs := make([]c11RegEv, 0, len(opts.Registrations))
	for _, reg := range opts.Registrations {
		ev := c11RegEv{V: 99, Fee: 99, Gas: 99}
		if reg != nil && reg.V1 != nil && reg.V1.Message != nil && reg.Version == builderspec.BuilderVersionV1 {
			msg := reg.V1.Message
			ev.V, ev.Fee, ev.Gas = c11ValidatorID(msg.Pubkey), c11FeeID(msg.FeeRecipient), c11GasID(msg.GasLimit)
			if mode == "fwd" {
				e.mu.Lock()
				in := fwdIn[[3]int{ev.V, ev.Fee, ev.Gas}]
				e.mu.Unlock()
				ev.SigOK = in != nil && in.Signature == reg.V1.Signature && in.Message.Timestamp.Equal(msg.Timestamp)
			} else if root, err := msg.HashTreeRoot(); err == nil {
				ev.SigOK = e.c11SigOK(msg.Pubkey, root, reg.V1.Signature)
			}
		}
		regs = append(regs, ev)
	}
	c11SortRegs(regs)
	emit := func(ev verifsupport.Ev) {
		if !quiet {
			ev["r"] = r.id
			ev["ev"] = prefix + ev["ev"].(string)
			e.emit(ev)
		}
	}
	emit(verifsupport.Ev{"ev": "RelayStart", "regs": regs, "cx": ctx.Err() != nil})
	if err := ctx.Err(); err != nil {
		emit(verifsupport.Ev{"ev": "RelayFinish", "out": "ctx"})
		return err
	}
	if fail != "" {
		if fail == "deadline" && lat == "batched" && len(regs) > 1 {
			// the time-out strikes while the payload is on its way: a part has arrived
			emit(verifsupport.Ev{"ev": "RelayBatch", "regs": regs[:1]})
		}
		out, err := e.failWith(ctx, fail, c11RelayAddr(r.id)+"/eth/v1/builder/validators")
		emit(verifsupport.Ev{"ev": "RelayFinish", "out": out})
		e.failedNow("R")
		return err
	}
	if gate != nil {
		// a held round: the request stays on the wire until the driver lets the round go (or its context ends)
		e.mu.Lock()
		e.gateArrived++
		e.acctsCond.Broadcast()
		e.mu.Unlock()
		select {
		case <-gate:
		case <-ctx.Done():
		}
		if err := ctx.Err(); err != nil {
			emit(verifsupport.Ev{"ev": "RelayFinish", "out": "ctx"})
			return err
		}
	}
	// the payload travels in one piece, or one registration at a time
	batches := [][]c11RegEv{regs}
	if lat == "batched" {
		batches = batches[:0]
		for i := range regs {
			batches = append(batches, regs[i:i+1])
		}
	}
	for i, batch := range batches {
		if err := e.inFlight(ctx, "R", anyFailing, i == 0); err != nil {
			emit(verifsupport.Ev{"ev": "RelayFinish", "out": "ctx"})
			return err
		}
		if len(batch) > 0 {
			emit(verifsupport.Ev{"ev": "RelayBatch", "regs": batch})
		}
	}
	emit(verifsupport.Ev{"ev": "RelayFinish", "out": "ok"})
	return nil
}

var _ builderclient.ValidatorRegistrationsSubmitter = (*c11Relay)(nil)

// ---- beacon nodes ----

type c11Node struct {
	id  int
	env *c11Env
}

func (n *c11Node) Name() string    { return "verif node" }
func (n *c11Node) Address() string { return fmt.Sprintf("node%d", n.id) }
func (n *c11Node) IsActive() bool  { return true }
func (n *c11Node) IsSynced() bool  { return true }

// SubmitValidatorRegistrations and SubmitProposalPreparations honour their context like the relay fake
// (a node receives its single request when the call finishes "ok").  Events: NodeStart / NodeFinish and
// PrepCall / PrepReturn.
func (n *c11Node) SubmitValidatorRegistrations(ctx context.Context, registrations []*consensusapi.VersionedSignedValidatorRegistration) error {
	e := n.env
	e.mu.Lock()
	fail := e.nodeFail[n.id]
	anyFailing := len(e.nodeFail) > 0
	quiet := e.quiet
	e.mu.Unlock()
	regs := make([]c11RegEv, 0, len(registrations))
	for _, reg := range registrations {
		ev := c11RegEv{V: 99, Fee: 99, Gas: 99}
		if reg != nil && reg.V1 != nil && reg.V1.Message != nil && reg.Version == consensusspec.BuilderVersionV1 {
			msg := reg.V1.Message
			ev.V, ev.Fee, ev.Gas = c11ValidatorID(msg.Pubkey), c11FeeID(msg.FeeRecipient), c11GasID(msg.GasLimit)
			if root, err := msg.HashTreeRoot(); err == nil {
				ev.SigOK = e.c11SigOK(msg.Pubkey, root, reg.V1.Signature)
			}
		}
		regs = append(regs, ev)
	}
	c11SortRegs(regs)
	emit := func(ev verifsupport.Ev) {
		if !quiet {
			ev["n"] = n.id
			e.emit(ev)
		}
	}
	emit(verifsupport.Ev{"ev": "NodeStart", "regs": regs, "cx": ctx.Err() != nil})
	if err := ctx.Err(); err != nil {
		emit(verifsupport.Ev{"ev": "NodeFinish", "out": "ctx"})
		return err
	}
	if fail != "" {
		out, err := e.failWith(ctx, fail, n.Address()+"/eth/v1/validator/register_validator")
		emit(verifsupport.Ev{"ev": "NodeFinish", "out": out})
		e.failedNow("N")
		return err
	}
	if err := e.inFlight(ctx, "N", anyFailing, true); err != nil {
		emit(verifsupport.Ev{"ev": "NodeFinish", "out": "ctx"})
		return err
	}
	emit(verifsupport.Ev{"ev": "NodeFinish", "out": "ok"})
	return nil
}

func (n *c11Node) SubmitProposalPreparations(ctx context.Context, preparations []*consensusapiv1.ProposalPreparation) error {
	e := n.env
	e.mu.Lock()
	out := e.prepOut[n.id]
	anyFailing := false
	for _, o := range e.prepOut {
		anyFailing = anyFailing || (o != "ok" && o != "")
	}
	e.mu.Unlock()
	if out == "" {
		out = "ok"
	}
	preps := make([][2]int, 0, len(preparations))
	for _, p := range preparations {
		preps = append(preps, [2]int{int(p.ValidatorIndex) - 100, c11FeeID(p.FeeRecipient)})
	}
	sort.Slice(preps, func(i, j int) bool { return preps[i][0] < preps[j][0] })
	e.emit(verifsupport.Ev{"ev": "PrepCall", "n": n.id, "preps": preps, "cx": ctx.Err() != nil})
	var err error
	switch {
	case ctx.Err() != nil:
		out, err = "ctx", ctx.Err()
	case out != "ok":
		// the node fails of its own accord, with the scripted kind of error
		out, err = e.failWith(ctx, out, n.Address()+"/eth/v1/validator/prepare_beacon_proposer")
	default:
		if err = e.inFlight(ctx, "P", anyFailing, true); err != nil {
			out = "ctx"
		}
	}
	e.emit(verifsupport.Ev{"ev": "PrepReturn", "n": n.id, "out": out})
	if out != "ok" && out != "ctx" {
		e.failedNow("P")
	}
	e.mu.Lock()
	e.prepSeen++
	e.acctsCond.Broadcast()
	e.mu.Unlock()
	return err
}

// ---- builder-bid strategy ----

type c11BidProvider struct{ env *c11Env }

func (p *c11BidProvider) BuilderBid(ctx context.Context, slot phase0.Slot, _ phase0.Hash32, _ phase0.BLSPubKey,
	proposerConfig *beaconblockproposer.ProposerConfig, _ map[phase0.BLSPubKey]*blockrelay.BuilderConfig,
) (*blockauctioneer.Results, error) {
	e := p.env
	op := c11OpFrom(ctx)
	if op == nil {
		return &blockauctioneer.Results{Participation: map[string]*blockauctioneer.Participation{}}, nil
	}
	op.pass("bid")
	op.bidSeen = op.bid
	if !e.quietOps {
		e.emit(verifsupport.Ev{"ev": "Bid", "op": op.id, "out": op.bid, "rel": c11RelSummary(proposerConfig)})
	}
	switch op.bid {
	case "err":
		return nil, errors.New("scripted bid failure")
	case "win":
		part := &blockauctioneer.Participation{
			Category: "verif",
			Score:    big.NewInt(int64(slot) + 1),
			Bid: &builderspec.VersionedSignedBuilderBid{
				Version: consensusspec.DataVersionDeneb,
				Deneb:   &deneb.SignedBuilderBid{Message: &deneb.BuilderBid{Value: uint256.NewInt(1000)}},
			},
		}
		return &blockauctioneer.Results{
			Participation:        map[string]*blockauctioneer.Participation{c11RelayAddr(1): part},
			WinningParticipation: part,
		}, nil
	}
	return &blockauctioneer.Results{Participation: map[string]*blockauctioneer.Participation{}}, nil
}

// c11RelSummary is the relay part of a proposer configuration as <<relay, fee, gas>> ids.
func c11RelSummary(cfg *beaconblockproposer.ProposerConfig) [][3]int {
	rel := make([][3]int, 0, len(cfg.Relays))
	for _, r := range cfg.Relays {
		rel = append(rel, [3]int{c11RelayID(r.Address), c11FeeID(r.FeeRecipient), c11GasID(r.GasLimit)})
	}
	sort.Slice(rel, func(i, j int) bool { return rel[i][0] < rel[j][0] })
	return rel
}

// c11Projection is the active configuration seen through ProposerConfig for every validator, read
// without the lock (only used when no fetch is in flight).
func c11Projection(ctx context.Context, s *Service) []map[string]interface{} {
	cfg := s.executionConfig
	res := make([]map[string]interface{}, 0, c11NumValidators)
	for v := 1; v <= c11NumValidators; v++ {
		var account e2wtypes.Account
		if v <= 2 {
			account = &c11Account{v: v}
		}
		row := map[string]interface{}{"v": v}
		if cfg == nil {
			// ProposerConfig answers with the fallback values when there is no configuration
			row["ok"], row["fee"], row["rel"] = true, 0, [][3]int{}
			res = append(res, row)
			continue
		}
		pc, err := cfg.ProposerConfig(ctx, account, c11Pubkeys[v], s.fallbackFeeRecipient, s.fallbackGasLimit)
		if err != nil || pc == nil {
			row["ok"] = false
			row["fee"] = 0
			row["rel"] = [][3]int{}
		} else {
			row["ok"] = true
			row["fee"] = c11FeeID(pc.FeeRecipient)
			row["rel"] = c11RelSummary(pc)
		}
		res = append(res, row)
	}
	return res
}

// ---------------------------------------------------------------------------------------------
// building the real services
// ---------------------------------------------------------------------------------------------

type c11System struct {
	ct     *verifsupport.ChainTime
	env    *c11Env
	svc    *Service
	sched  *verifsupport.Scheduler
	nodes  []*c11Node
	cancel context.CancelFunc
}

const (
	c11FetchJob    = "Fetch execution configuration"
	c11RegisterJob = "Submit validator registrations"
)

// c11NewSystem builds the real block relay with New().  The inline fetch of New() is answered with
// (initOut, initDoc); the registration round New() starts on its own goroutine finds no validating
// accounts (scripted failure of its accounts call) and is waited for, so that nothing runs behind
// the driver's back.
func c11NewSystem(t testing.TB, env *c11Env, initOut string, initDoc int, realSigner bool) *c11System {
	ctx, cancel := context.WithCancel(context.Background())
	sys := &c11System{env: env, sched: verifsupport.NewScheduler(), cancel: cancel}
	c11InstallRelays(env)
	numNodes := env.numNodes
	if numNodes == 0 {
		numNodes = 2
	}
	for id := 1; id <= numNodes; id++ {
		sys.nodes = append(sys.nodes, &c11Node{id: id, env: env})
	}
	if realSigner {
		sg, err := standardsigner.New(ctx,
			standardsigner.WithLogLevel(zerolog.Disabled),
			standardsigner.WithMonitor(nullmetrics.New()),
			standardsigner.WithClientMonitor(nullmetrics.New()),
			standardsigner.WithSpecProvider(mock.NewSpecProvider()),
			standardsigner.WithDomainProvider(mock.NewDomainProvider()),
		)
		if err != nil {
			t.Fatalf("signer New: %v", err)
		}
		env.realSigner = sg
	}
	env.srcOut, env.srcDoc = initOut, initDoc
	env.accts = []int{1, 2}
	env.acctsFailFrom = 2
	submitters := make([]consensusclient.ValidatorRegistrationsSubmitter, 0, len(sys.nodes))
	for _, n := range sys.nodes {
		submitters = append(submitters, n)
	}
	ct := verifsupport.NewChainTime(32, 12*time.Second)
	ct.SetSlot(3 * 32)
	sys.ct = ct
	svc, err := New(ctx,
		WithLogLevel(zerolog.Disabled),
		WithMonitor(nullmetrics.New()),
		WithMajordomo(&c11Majordomo{env: env}),
		WithScheduler(sys.sched),
		WithListenAddress("127.0.0.1:0"),
		WithChainTime(ct),
		WithConfigURL("verif://execution-config"),
		WithFallbackFeeRecipient(c11FeeAddr(0)),
		WithFallbackGasLimit(c11FallbackGas),
		WithAccountsProvider(env),
		WithValidatorsProvider(mock.NewValidatorsProvider()),
		WithValidatingAccountsProvider(env),
		WithValidatorRegistrationSigner(&c11Signer{env: env}),
		WithSecondaryValidatorRegistrationsSubmitters(submitters),
		WithReleaseVersion("verif"),
		WithBuilderBidProvider(&c11BidProvider{env: env}),
	)
	if err != nil {
		t.Fatalf("blockrelay New: %v", err)
	}
	sys.svc = svc
	// the initial registration round: started (second accounts call seen), then finished (semaphore free)
	env.waitAcctsCalls(2)
	if err := svc.activitySem.Acquire(ctx, 1); err != nil {
		t.Fatalf("semaphore: %v", err)
	}
	svc.activitySem.Release(1)
	env.mu.Lock()
	env.acctsFailFrom = 0
	env.mu.Unlock()
	for _, name := range []string{c11FetchJob, c11RegisterJob} {
		if sys.sched.Get(name) == nil {
			t.Fatalf("block relay did not register job %q", name)
		}
	}
	return sys
}

func (sys *c11System) close() { sys.cancel() }

func c11Ints(in []int) []int {
	out := append([]int{}, in...)
	sort.Ints(out)
	return out
}

var _ = bytes.Equal
var _ = strings.HasPrefix
