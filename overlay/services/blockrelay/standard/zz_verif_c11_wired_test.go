package standard

// WIRED conformance driver for property C11, resolution clause (spec/BlockRelayResolve.tla, fifth round).
// Injected with -overlay by /verif/check; never committed to the repository.
//
// "Relays and beacon nodes are told exactly what the configuration says for each validator" - whatever OTHER entry
// point of the block relay resolved that validator before.  What a validator's settings are depends on (public key,
// ACCOUNT): a version-2 execution configuration selects proposer entries by a regular expression over wallet/account.
// The service resolves from six entry points, wired by main.go to different callers; this driver wires the neighbours
// the way main.go does and puts the fakes one layer further out:
//
//	REAL  services/blockrelay/standard.Service (New; fetch and registration jobs run through the scheduler they were
//	      registered with; the start-up round New() starts on its own runs for real and is the first Round line)
//	REAL  services/accountmanager/wallet.Service over a filesystem store with real nd wallets / accounts: it is the
//	      AccountsProvider and the ValidatingAccountsProvider of the block relay and of the preparer (behind a wrapper
//	      that only RECORDS which accounts it listed)
//	REAL  services/validatorsmanager/standard.Service over a scripted beacon node (c13support), which is also the
//	      ValidatorsProvider UnblindBlock asks for the proposer's public key
//	REAL  services/signer/standard.Service (registrations are signed with the accounts' real keys)
//	REAL  services/proposalpreparer/standard.Service with the block relay as its ExecutionConfigProvider
//	REAL  util.FetchBuilderClient + go-builder-client HTTP clients
//	fake  configuration source (majordomo) serving VERSION-2 documents with ACCOUNT-REGEX entries rendered from the
//	      catalogue of the specification; relays = httptest servers that decode POST /eth/v1/builder/validators,
//	      verify every signature with the validator's public key and record; beacon nodes = recording
//	      ProposalPreparationsSubmitter / ValidatorRegistrationsSubmitter; bid strategy = recorder
//
// ONE wired instance per history.  Steps: Fetch (fetch job), Act (a validator becomes active: route "epoch" = the
// beacon node now reports its activation, route "import" = its account file appears in the wallet; manager refreshed),
// Round (registration job, or its sibling the exported SubmitValidatorRegistrations), Prep (UpdatePreparations), Call fwd (ValidatorRegistrations with a foreign-made
// registration), Call unblind (UnblindBlock), Call auction (AuctionBlock), Call bid (BuilderBid, no cached bid).
// A goroutine panic is a Crash line, a step that does not return a Hung line (watchdog); neither is allowed by the
// trace specification.

import (
	"context"
	"encoding/json"
	"fmt"
	"net/http"
	"net/http/httptest"
	"os"
	"sort"
	"strconv"
	"strings"
	"sync"
	"sync/atomic"
	"testing"
	"time"

	"github.com/attestantio/go-block-relay/services/blockauctioneer"
	blockrelaytypes "github.com/attestantio/go-block-relay/types"
	builderclient "github.com/attestantio/go-builder-client"
	builderapiv1 "github.com/attestantio/go-builder-client/api/v1"
	consensusclient "github.com/attestantio/go-eth2-client"
	consensusapi "github.com/attestantio/go-eth2-client/api"
	consensusapiv1 "github.com/attestantio/go-eth2-client/api/v1"
	apiv1deneb "github.com/attestantio/go-eth2-client/api/v1/deneb"
	consensusspec "github.com/attestantio/go-eth2-client/spec"
	"github.com/attestantio/go-eth2-client/spec/bellatrix"
	"github.com/attestantio/go-eth2-client/spec/phase0"
	"github.com/attestantio/vouch/mock"
	walletam "github.com/attestantio/vouch/services/accountmanager/wallet"
	"github.com/attestantio/vouch/services/beaconblockproposer"
	"github.com/attestantio/vouch/services/blockrelay"
	nullmetrics "github.com/attestantio/vouch/services/metrics/null"
	standardpreparer "github.com/attestantio/vouch/services/proposalpreparer/standard"
	standardsigner "github.com/attestantio/vouch/services/signer/standard"
	"github.com/attestantio/vouch/util"
	"github.com/attestantio/vouch/verifdrivers/c13support"
	"github.com/attestantio/vouch/verifsupport"
	"github.com/rs/zerolog"
	"github.com/spf13/viper"
	e2types "github.com/wealdtech/go-eth2-types/v2"
	filesystem "github.com/wealdtech/go-eth2-wallet-store-filesystem"
	e2wtypes "github.com/wealdtech/go-eth2-wallet-types/v2"
)

// ---------------------------------------------------------------------------------------------
// scenarios

type c11wEnt struct {
	By    string `json:"by"`
	Who   []int  `json:"who"`
	Fee   int    `json:"fee"`
	Gas   int    `json:"gas"`
	Reset bool   `json:"reset"`
	Rel   []int  `json:"rel"`
}

type c11wDoc struct {
	ID  int       `json:"id"`
	Fee int       `json:"fee"`
	Gas int       `json:"gas"`
	Rel []int     `json:"rel"`
	Ent []c11wEnt `json:"ent"`
}

type c11wStep struct {
	Ev      string    `json:"ev"`
	Init    int       `json:"init"`
	Docs    []c11wDoc `json:"docs"`
	Active  []int     `json:"active"`
	Pending []int     `json:"pending"`
	Out     string    `json:"out"`
	Doc     int       `json:"doc"`
	Kind    string    `json:"kind"`
	V       int       `json:"v"`
	Route   string    `json:"route"`
	Via     string    `json:"via"`
}

type c11wScenario struct {
	Sc    int        `json:"sc"`
	Steps []c11wStep `json:"steps"`
}

var c11wVs = []int{1, 2}

const (
	c11wUnset   = -1
	c11wFwdFee  = 9
	c11wFwdGas  = 9
	c11wNumNode = 2
)

func c11wName(v int) c13support.Name {
	return c13support.Name{W: "Wallet", A: []string{fmt.Sprintf("validator%d", v)}}
}

func c11wFee(id int) bellatrix.ExecutionAddress {
	if id <= 5 {
		return c11FeeAddr(id)
	}
	var a bellatrix.ExecutionAddress
	for i := range a {
		a[i] = byte(0xa0 + id + i%5)
	}
	return a
}

func c11wFeeID(a bellatrix.ExecutionAddress) int {
	for id := 0; id <= 9; id++ {
		if a == c11wFee(id) {
			return id
		}
	}
	return 99
}

func c11wGas(id int) uint64 { return c11FallbackGas + uint64(id)*1000 }

func c11wGasID(g uint64) int {
	for id := 0; id <= 9; id++ {
		if g == c11wGas(id) {
			return id
		}
	}
	return 99
}

// ---------------------------------------------------------------------------------------------
// the world: wallet store, real signer, relay servers (one per process; a book per history)

type c11wReg struct {
	relay int
	v     int
	fee   int
	gas   int
	sigok bool
	sig   phase0.BLSSignature
	ts    time.Time
}

type c11wBook struct {
	mu       sync.Mutex
	regs     []c11wReg
	unblinds []int
	nodeRegs [][3]int // secondary beacon nodes: v, fee, gas
	preps    [][3]int // node, v, fee
	prepCh   chan struct{}
	seen     []*beaconblockproposer.ProposerConfig
}

func (b *c11wBook) takeRegs() []c11wReg {
	b.mu.Lock()
	defer b.mu.Unlock()
	res := b.regs
	b.regs = nil
	return res
}

func (b *c11wBook) takeNodeRegs() [][3]int {
	b.mu.Lock()
	defer b.mu.Unlock()
	res := b.nodeRegs
	b.nodeRegs = nil
	return res
}

func (b *c11wBook) takePreps() [][3]int {
	b.mu.Lock()
	defer b.mu.Unlock()
	res := b.preps
	b.preps = nil
	return res
}

func (b *c11wBook) takeUnblinds() []int {
	b.mu.Lock()
	defer b.mu.Unlock()
	res := b.unblinds
	b.unblinds = nil
	return res
}

type c11wWorld struct {
	t      *testing.T
	dir    string
	u      *c13support.Universe
	signer *standardsigner.Service
	index  map[int]phase0.ValidatorIndex
	keys   map[phase0.BLSPubKey]int
	pubs   map[int]e2types.PublicKey
	relays []*c11wRelaySrv
	hung   atomic.Int32
}

type c11wRelaySrv struct {
	id   int
	w    *c11wWorld
	srv  *httptest.Server
	book atomic.Pointer[c11wBook]
}

func (w *c11wWorld) sigOK(v int, root [32]byte, sig phase0.BLSSignature) bool {
	pub, ok := w.pubs[v]
	if !ok {
		return false
	}
	// builder domain as the real signer derives it from the mock providers (as c11SigOK)
	var domain phase0.Domain
	copy(domain[:], []byte{0x00, 0x00, 0x00, 0x01})
	container := phase0.SigningData{ObjectRoot: root, Domain: domain}
	signingRoot, err := container.HashTreeRoot()
	if err != nil {
		return false
	}
	s, err := e2types.BLSSignatureFromBytes(sig[:])
	if err != nil {
		return false
	}
	return s.Verify(signingRoot[:], pub)
}

func (r *c11wRelaySrv) ServeHTTP(rw http.ResponseWriter, req *http.Request) {
	book := r.book.Load()
	switch {
	case req.Method == http.MethodPost && strings.HasSuffix(req.URL.Path, "/eth/v1/builder/validators"):
		var regs []*builderapiv1.SignedValidatorRegistration
		if err := json.NewDecoder(req.Body).Decode(&regs); err != nil || book == nil {
			rw.WriteHeader(http.StatusBadRequest)
			return
		}
		book.mu.Lock()
		for _, reg := range regs {
			ev := c11wReg{relay: r.id, v: 99, fee: 99, gas: 99}
			if reg != nil && reg.Message != nil {
				msg := reg.Message
				if v, ok := r.w.keys[msg.Pubkey]; ok {
					ev.v = v
				}
				ev.fee, ev.gas, ev.sig, ev.ts = c11wFeeID(msg.FeeRecipient), c11wGasID(msg.GasLimit), reg.Signature, msg.Timestamp
				if root, err := msg.HashTreeRoot(); err == nil {
					ev.sigok = r.w.sigOK(ev.v, root, reg.Signature)
				}
			}
			book.regs = append(book.regs, ev)
		}
		book.mu.Unlock()
		rw.WriteHeader(http.StatusOK)
	case req.Method == http.MethodPost && strings.HasSuffix(req.URL.Path, "/eth/v1/builder/blinded_blocks"):
		if book != nil {
			book.mu.Lock()
			book.unblinds = append(book.unblinds, r.id)
			book.mu.Unlock()
		}
		// "the relay does not know of the payload": the service does not try again
		rw.WriteHeader(http.StatusBadRequest)
	default:
		rw.WriteHeader(http.StatusNotFound)
	}
}

func (w *c11wWorld) relayAddr(id int) string { return w.relays[id-1].srv.URL }

// ---------------------------------------------------------------------------------------------
// rendering a catalogue document as a version-2 execution configuration with account-regex entries

// c11wPattern spells "the accounts of these validators" as a regular expression over wallet/account.
func c11wPattern(who []int, variant int64) string {
	sort.Ints(who)
	if len(who) == 1 {
		v := who[0]
		forms := []string{
			fmt.Sprintf("Wallet/validator%d", v),
			fmt.Sprintf("Wallet/validator[%d]", v),
			fmt.Sprintf("^Wallet/validator%d$", v),
			fmt.Sprintf("W.*/validator%d", v),
			fmt.Sprintf("Wallet/.*%d", v),
			fmt.Sprintf("Wal+et/valid.tor%d", v),
		}
		return forms[int(variant%int64(len(forms)))]
	}
	forms := []string{"Wallet/validator.*", "Wallet/validator[12]", ".*/validator[0-9]", "Wallet/.*", "^Wallet/validator.$"}
	return forms[int(variant%int64(len(forms)))]
}

func (w *c11wWorld) render(doc c11wDoc, variant int64) []byte {
	type obj = map[string]interface{}
	relays := func(ids []int) obj {
		o := obj{}
		for _, r := range ids {
			o[w.relayAddr(r)] = obj{}
		}
		return o
	}
	out := obj{"version": 2}
	if doc.Fee != 0 {
		out["fee_recipient"] = fmt.Sprintf("%#x", c11wFee(doc.Fee))
	}
	if doc.Gas != 0 {
		out["gas_limit"] = strconv.FormatUint(c11wGas(doc.Gas), 10)
	}
	if len(doc.Rel) > 0 {
		out["relays"] = relays(doc.Rel)
	}
	proposers := []obj{}
	for i, e := range doc.Ent {
		p := obj{}
		if e.By == "pubkey" {
			for k, v := range w.keys {
				if v == e.Who[0] {
					p["proposer"] = fmt.Sprintf("%#x", k)
				}
			}
		} else {
			p["proposer"] = c11wPattern(append([]int{}, e.Who...), variant+int64(7*doc.ID+i))
		}
		if e.Fee != c11wUnset {
			p["fee_recipient"] = fmt.Sprintf("%#x", c11wFee(e.Fee))
		}
		if e.Gas != c11wUnset {
			p["gas_limit"] = strconv.FormatUint(c11wGas(e.Gas), 10)
		}
		if e.Reset {
			p["reset_relays"] = true
		}
		if len(e.Rel) > 0 {
			p["relays"] = relays(e.Rel)
		}
		proposers = append(proposers, p)
	}
	if len(proposers) > 0 {
		out["proposers"] = proposers
	}
	data, err := json.Marshal(out)
	if err != nil {
		panic(err)
	}
	if _, err := blockrelay.UnmarshalJSON(data); err != nil {
		panic(fmt.Sprintf("c11w: document %d is not accepted by the real parser: %v\n%s", doc.ID, err, data))
	}
	return data
}

// ---------------------------------------------------------------------------------------------
// the recording wrapper around the REAL account manager

type c11wManager interface {
	ValidatingAccountsForEpoch(ctx context.Context, epoch phase0.Epoch) (map[phase0.ValidatorIndex]e2wtypes.Account, error)
	ValidatingAccountsForEpochByIndex(ctx context.Context, epoch phase0.Epoch, indices []phase0.ValidatorIndex) (map[phase0.ValidatorIndex]e2wtypes.Account, error)
	SyncCommitteeAccountsForEpoch(ctx context.Context, epoch phase0.Epoch) (map[phase0.ValidatorIndex]e2wtypes.Account, error)
	SyncCommitteeAccountsForEpochByIndex(ctx context.Context, epoch phase0.Epoch, indices []phase0.ValidatorIndex) (map[phase0.ValidatorIndex]e2wtypes.Account, error)
	AccountByPublicKey(ctx context.Context, pubkey phase0.BLSPubKey) (e2wtypes.Account, error)
}

type c11wAccounts struct {
	real c11wManager
	keys map[phase0.BLSPubKey]int

	mu       sync.Mutex
	cond     *sync.Cond
	listings int
	listed   []int // what the last listing answered
}

func (a *c11wAccounts) ValidatingAccountsForEpoch(ctx context.Context, epoch phase0.Epoch) (map[phase0.ValidatorIndex]e2wtypes.Account, error) {
	res, err := a.real.ValidatingAccountsForEpoch(ctx, epoch)
	listed := []int{}
	for _, acc := range res {
		if v, ok := a.keys[util.ValidatorPubkey(acc)]; ok {
			listed = append(listed, v)
		} else {
			listed = append(listed, 99)
		}
	}
	sort.Ints(listed)
	a.mu.Lock()
	a.listings++
	a.listed = listed
	a.cond.Broadcast()
	a.mu.Unlock()
	return res, err
}

func (a *c11wAccounts) ValidatingAccountsForEpochByIndex(ctx context.Context, epoch phase0.Epoch, indices []phase0.ValidatorIndex) (map[phase0.ValidatorIndex]e2wtypes.Account, error) {
	return a.real.ValidatingAccountsForEpochByIndex(ctx, epoch, indices)
}

func (a *c11wAccounts) SyncCommitteeAccountsForEpoch(ctx context.Context, epoch phase0.Epoch) (map[phase0.ValidatorIndex]e2wtypes.Account, error) {
	return a.real.SyncCommitteeAccountsForEpoch(ctx, epoch)
}

func (a *c11wAccounts) SyncCommitteeAccountsForEpochByIndex(ctx context.Context, epoch phase0.Epoch, indices []phase0.ValidatorIndex) (map[phase0.ValidatorIndex]e2wtypes.Account, error) {
	return a.real.SyncCommitteeAccountsForEpochByIndex(ctx, epoch, indices)
}

func (a *c11wAccounts) AccountByPublicKey(ctx context.Context, pubkey phase0.BLSPubKey) (e2wtypes.Account, error) {
	return a.real.AccountByPublicKey(ctx, pubkey)
}

// forget clears the record of the last listing; lastListed returns it ([] when nobody asked).
func (a *c11wAccounts) forget() {
	a.mu.Lock()
	a.listed = []int{}
	a.mu.Unlock()
}

func (a *c11wAccounts) lastListed() []int {
	a.mu.Lock()
	defer a.mu.Unlock()
	return append([]int{}, a.listed...)
}

func (a *c11wAccounts) waitListings(n int, d time.Duration) bool {
	timer := time.AfterFunc(d, func() {
		a.mu.Lock()
		a.cond.Broadcast()
		a.mu.Unlock()
	})
	defer timer.Stop()
	deadline := time.Now().Add(d)
	a.mu.Lock()
	defer a.mu.Unlock()
	for a.listings < n {
		if time.Now().After(deadline) {
			return false
		}
		a.cond.Wait()
	}
	return true
}

// ---------------------------------------------------------------------------------------------
// recorders one layer out: beacon nodes, bid strategy

type c11wNode struct {
	id    int
	w     *c11wWorld
	book  *c11wBook
	index map[phase0.ValidatorIndex]int
}

func (n *c11wNode) Name() string    { return "verif recording node" }
func (n *c11wNode) Address() string { return fmt.Sprintf("node%d", n.id) }
func (n *c11wNode) IsActive() bool  { return true }
func (n *c11wNode) IsSynced() bool  { return true }

func (n *c11wNode) SubmitProposalPreparations(_ context.Context, preparations []*consensusapiv1.ProposalPreparation) error {
	n.book.mu.Lock()
	for _, p := range preparations {
		ev := [3]int{n.id, 99, 99}
		if p != nil {
			if v, ok := n.index[p.ValidatorIndex]; ok {
				ev[1] = v
			}
			ev[2] = c11wFeeID(p.FeeRecipient)
		}
		n.book.preps = append(n.book.preps, ev)
	}
	n.book.mu.Unlock()
	n.book.prepCh <- struct{}{}
	return nil
}

func (n *c11wNode) SubmitValidatorRegistrations(_ context.Context, registrations []*consensusapi.VersionedSignedValidatorRegistration) error {
	n.book.mu.Lock()
	defer n.book.mu.Unlock()
	for _, reg := range registrations {
		ev := [3]int{99, 99, 99}
		if reg != nil && reg.V1 != nil && reg.V1.Message != nil {
			msg := reg.V1.Message
			if v, ok := n.w.keys[msg.Pubkey]; ok {
				ev[0] = v
			}
			ev[1], ev[2] = c11wFeeID(msg.FeeRecipient), c11wGasID(msg.GasLimit)
			if root, err := msg.HashTreeRoot(); err != nil || !n.w.sigOK(ev[0], root, reg.V1.Signature) {
				ev[0] = 98 // not this validator's signature over this content
			}
		}
		n.book.nodeRegs = append(n.book.nodeRegs, ev)
	}
	return nil
}

var (
	_ consensusclient.ProposalPreparationsSubmitter   = (*c11wNode)(nil)
	_ consensusclient.ValidatorRegistrationsSubmitter = (*c11wNode)(nil)
)

type c11wBids struct{ book *c11wBook }

func (b *c11wBids) BuilderBid(_ context.Context, _ phase0.Slot, _ phase0.Hash32, _ phase0.BLSPubKey,
	proposerConfig *beaconblockproposer.ProposerConfig, _ map[phase0.BLSPubKey]*blockrelay.BuilderConfig,
) (*blockauctioneer.Results, error) {
	b.book.mu.Lock()
	b.book.seen = append(b.book.seen, proposerConfig)
	b.book.mu.Unlock()
	return &blockauctioneer.Results{
		Participation: map[string]*blockauctioneer.Participation{},
		AllProviders:  []builderclient.BuilderBidProvider{},
		Providers:     []builderclient.BuilderBidProvider{},
	}, nil
}

// ---------------------------------------------------------------------------------------------
// one wired instance

type c11wInstance struct {
	w      *c11wWorld
	tr     *verifsupport.Trace
	sc     int
	ctx    context.Context
	cancel context.CancelFunc
	wd     time.Duration
	dead   bool

	node  *c13support.Node
	am    *walletam.Service
	acc   *c11wAccounts
	env   *c11Env
	svc   *Service
	sched *verifsupport.Scheduler
	prep  *standardpreparer.Service
	ct    *verifsupport.ChainTime
	book  *c11wBook

	state map[int]string // "foreign" | "pending" | "active" as the driver arranged it
	slot  uint64
}

func c11wWatchdog() time.Duration {
	ms, err := strconv.Atoi(os.Getenv("VERIF_WATCHDOG_MS"))
	if err != nil || ms <= 0 {
		ms = 5000
	}
	return time.Duration(ms) * time.Millisecond
}

func (in *c11wInstance) emit(ev verifsupport.Ev) {
	ev["sc"] = in.sc
	in.tr.Emit(ev)
}

// guarded runs fn on a goroutine of its own: a panic is a Crash line, no return within the watchdog a Hung line.
func (in *c11wInstance) guarded(what string, fn func()) bool {
	done := make(chan struct{})
	var crashed atomic.Bool
	go func() {
		defer close(done)
		defer func() {
			if p := recover(); p != nil {
				crashed.Store(true)
				in.emit(verifsupport.Ev{"ev": "Crash", "what": what, "panic": fmt.Sprint(p)})
			}
		}()
		fn()
	}()
	select {
	case <-done:
	case <-time.After(in.wd):
		in.emit(verifsupport.Ev{"ev": "Hung", "what": what})
		in.dead = true
		in.w.hung.Add(1)
		return false
	}
	if crashed.Load() {
		in.dead = true
		return false
	}
	return true
}

func (in *c11wInstance) offer() {
	offer := []c13support.Name{}
	for _, v := range c11wVs {
		if in.state[v] != "foreign" {
			offer = append(offer, c11wName(v))
		}
	}
	if err := in.w.u.ShowOnly(in.w.dir, offer); err != nil {
		in.w.t.Fatalf("offer: %v", err)
	}
}

func (in *c11wInstance) script() {
	recs := make([]c13support.Rec, 0, len(c11wVs))
	for _, v := range c11wVs {
		rec := c13support.Rec{N: c11wName(v), Index: uint64(in.w.index[v]), Elig: 0, Act: 0,
			Exit: c13support.ModelFFE, Wd: c13support.ModelFFE}
		if in.state[v] == "pending" {
			// in the activation queue: eligible, no activation epoch yet
			rec.Elig, rec.Act = 1, c13support.ModelFFE
		}
		recs = append(recs, rec)
	}
	in.node.Script("ok", recs)
}

// listing reads, through the manager's own interface, which validators it lists as validating in the next epoch.
func (in *c11wInstance) listing() []int {
	res := []int{}
	accs, err := in.am.ValidatingAccountsForEpoch(in.ctx, in.ct.CurrentEpoch()+1)
	if err != nil {
		return []int{99}
	}
	for _, acc := range accs {
		if v, ok := in.w.keys[util.ValidatorPubkey(acc)]; ok {
			res = append(res, v)
		} else {
			res = append(res, 99)
		}
	}
	sort.Ints(res)
	return res
}

func (in *c11wInstance) held() []int {
	res := []int{}
	for _, v := range c11wVs {
		for k, id := range in.w.keys {
			if id != v {
				continue
			}
			if acc, err := in.am.AccountByPublicKey(in.ctx, k); err == nil && acc != nil {
				res = append(res, v)
			}
		}
	}
	return res
}

func c11wNewInstance(w *c11wWorld, tr *verifsupport.Trace, sc int, reset c11wStep) *c11wInstance {
	t := w.t
	ctx, cancel := context.WithCancel(context.Background())
	in := &c11wInstance{w: w, tr: tr, sc: sc, ctx: ctx, cancel: cancel, wd: c11wWatchdog(), state: map[int]string{},
		book: &c11wBook{prepCh: make(chan struct{}, 64)}, slot: 1000}
	for _, v := range c11wVs {
		in.state[v] = "foreign"
	}
	for _, v := range reset.Pending {
		in.state[v] = "pending"
	}
	for _, v := range reset.Active {
		in.state[v] = "active"
	}
	for _, r := range w.relays {
		r.book.Store(in.book)
	}
	in.offer()
	in.node = c13support.NewNode(w.u)
	in.script()
	vm := c13support.NewValidatorsManager(ctx, t, in.node)
	in.ct = verifsupport.NewChainTime(32, 12*time.Second)
	in.ct.SetSlot(3 * 32)
	am, err := walletam.New(ctx,
		walletam.WithLogLevel(zerolog.Disabled),
		walletam.WithMonitor(nullmetrics.New()),
		walletam.WithProcessConcurrency(2),
		walletam.WithLocations([]string{w.dir}),
		walletam.WithAccountPaths([]string{"Wallet"}),
		walletam.WithPassphrases([][]byte{[]byte(c13support.Passphrase)}),
		walletam.WithValidatorsManager(vm),
		walletam.WithSpecProvider(mock.NewSpecProvider()),
		walletam.WithFarFutureEpochProvider(mock.NewFarFutureEpochProvider(c13support.FarFutureEpoch)),
		walletam.WithDomainProvider(mock.NewDomainProvider()),
		walletam.WithCurrentEpochProvider(in.ct),
	)
	if err != nil {
		t.Fatalf("wallet account manager New: %v", err)
	}
	in.am = am
	in.acc = &c11wAccounts{real: am, keys: w.keys, listed: []int{}}
	in.acc.cond = sync.NewCond(&in.acc.mu)

	env := c11NewEnv(t, tr, sc, nil)
	env.quiet = true
	env.rawDocs = map[int][]byte{}
	for _, d := range reset.Docs {
		env.rawDocs[d.ID] = w.render(d, verifsupport.Seed()*13+int64(sc))
	}
	env.srcOut, env.srcDoc = "error", 0
	if reset.Init != 0 {
		env.srcOut, env.srcDoc = "good", reset.Init
	}
	in.env = env
	in.sched = verifsupport.NewScheduler()
	nodes := make([]*c11wNode, 0, c11wNumNode)
	index := map[phase0.ValidatorIndex]int{}
	for v, i := range w.index {
		index[i] = v
	}
	for id := 1; id <= c11wNumNode; id++ {
		nodes = append(nodes, &c11wNode{id: id, w: w, book: in.book, index: index})
	}
	secondaries := make([]consensusclient.ValidatorRegistrationsSubmitter, 0, len(nodes))
	preparers := make([]consensusclient.ProposalPreparationsSubmitter, 0, len(nodes))
	for _, n := range nodes {
		secondaries = append(secondaries, n)
		preparers = append(preparers, n)
	}
	before := env.calls.Load()
	svc, err := New(ctx,
		WithLogLevel(zerolog.Disabled),
		WithMonitor(nullmetrics.New()),
		WithMajordomo(&c11Majordomo{env: env}),
		WithScheduler(in.sched),
		WithListenAddress("127.0.0.1:0"),
		WithChainTime(in.ct),
		WithConfigURL("verif://execution-config"),
		WithFallbackFeeRecipient(c11wFee(0)),
		WithFallbackGasLimit(c11wGas(0)),
		WithAccountsProvider(in.acc),
		WithValidatorsProvider(in.node),
		WithValidatingAccountsProvider(in.acc),
		WithValidatorRegistrationSigner(w.signer),
		WithSecondaryValidatorRegistrationsSubmitters(secondaries),
		WithReleaseVersion("verif"),
		WithBuilderBidProvider(&c11wBids{book: in.book}),
	)
	if err != nil {
		t.Fatalf("blockrelay New: %v", err)
	}
	in.svc = svc
	asked := env.calls.Load() > before
	for _, name := range []string{c11FetchJob, c11RegisterJob} {
		if in.sched.Get(name) == nil {
			t.Fatalf("block relay did not register job %q", name)
		}
	}
	prep, err := standardpreparer.New(ctx,
		standardpreparer.WithLogLevel(zerolog.Disabled),
		standardpreparer.WithMonitor(nullmetrics.New()),
		standardpreparer.WithChainTimeService(in.ct),
		standardpreparer.WithValidatingAccountsProvider(in.acc),
		standardpreparer.WithProposalPreparationsSubmitters(preparers),
		standardpreparer.WithExecutionConfigProvider(blockrelay.ExecutionConfigProvider(svc)),
	)
	if err != nil {
		t.Fatalf("proposal preparer New: %v", err)
	}
	in.prep = prep

	// the registration round New() starts on its own goroutine runs for real: it is the first Round of the history.
	// (listing 1 = New()'s inline fetch, listing 2 = the round; the round holds the activity semaphore meanwhile)
	init := 0
	if asked && reset.Init != 0 {
		init = reset.Init
	}
	pending := []int{}
	for _, v := range c11wVs {
		if in.state[v] == "pending" {
			pending = append(pending, v)
		}
	}
	in.emit(verifsupport.Ev{"ev": "Reset", "init": init, "active": in.listing(), "pending": pending, "held": in.held()})
	if !in.guarded("startup", func() {
		if !in.acc.waitListings(2, in.wd) {
			panic("the start-up registration round never asked for the validating accounts")
		}
		if err := svc.activitySem.Acquire(ctx, 1); err == nil {
			svc.activitySem.Release(1)
		}
	}) {
		return in
	}
	in.roundLine("job")
	return in
}

func (in *c11wInstance) close() {
	in.cancel()
	for _, r := range in.w.relays {
		r.book.Store(nil)
	}
}

// roundLine writes what a registration round let the outside see.
func (in *c11wInstance) roundLine(via string) {
	regs := in.book.takeRegs()
	rows := [][4]int{}
	sigok := true
	for _, g := range regs {
		rows = append(rows, [4]int{g.v, g.relay, g.fee, g.gas})
		sigok = sigok && g.sigok
	}
	sort.Slice(rows, func(i, j int) bool { return fmt.Sprint(rows[i]) < fmt.Sprint(rows[j]) })
	nodes := map[[3]int]bool{}
	for _, n := range in.book.takeNodeRegs() {
		nodes[n] = true
	}
	nrows := [][3]int{}
	for n := range nodes {
		nrows = append(nrows, n)
	}
	sort.Slice(nrows, func(i, j int) bool { return fmt.Sprint(nrows[i]) < fmt.Sprint(nrows[j]) })
	in.emit(verifsupport.Ev{"ev": "Round", "via": via, "vs": in.acc.lastListed(), "regs": rows, "sigok": sigok, "nodes": nrows})
}

func (in *c11wInstance) fetch(st c11wStep) {
	in.env.mu.Lock()
	in.env.srcOut, in.env.srcDoc = st.Out, st.Doc
	in.env.mu.Unlock()
	before := in.env.calls.Load()
	if !in.guarded("fetch", func() { in.sched.Get(c11FetchJob).Func(in.ctx) }) {
		return
	}
	in.emit(verifsupport.Ev{"ev": "Fetch", "out": st.Out, "doc": st.Doc, "asked": in.env.calls.Load() > before})
}

func (in *c11wInstance) act(st c11wStep) {
	in.state[st.V] = "active"
	if st.Route == "import" {
		in.offer()
	} else {
		in.script()
	}
	if !in.guarded("refresh", func() { in.am.Refresh(in.ctx) }) {
		return
	}
	in.emit(verifsupport.Ev{"ev": "Act", "v": st.V, "route": st.Route, "now": in.listing()})
}

// round runs the registration job, or ("api") its sibling implementation: the exported SubmitValidatorRegistrations of
// blockrelay.ValidatorRegistrationsSubmitter, handed the accounts the account manager lists for the next epoch.
func (in *c11wInstance) round(via string) {
	if via == "" {
		via = "job"
	}
	in.acc.forget()
	in.book.takeRegs()
	in.book.takeNodeRegs()
	if !in.guarded("round", func() {
		if via == "job" {
			in.sched.Get(c11RegisterJob).Func(in.ctx)
			return
		}
		accounts, err := in.acc.ValidatingAccountsForEpoch(in.ctx, in.ct.CurrentEpoch()+1)
		if err != nil {
			panic(fmt.Sprintf("listing: %v", err))
		}
		_ = blockrelay.ValidatorRegistrationsSubmitter(in.svc).SubmitValidatorRegistrations(in.ctx, accounts)
	}) {
		return
	}
	in.roundLine(via)
}

func (in *c11wInstance) prepare() {
	in.acc.forget()
	in.book.takePreps()
	for len(in.book.prepCh) > 0 {
		<-in.book.prepCh
	}
	var err error
	if !in.guarded("prep", func() { err = in.prep.UpdatePreparations(in.ctx) }) {
		return
	}
	vs := in.acc.lastListed()
	if err == nil && len(vs) > 0 {
		// the submission runs on a goroutine of the preparer's own: wait (bounded) until every node was called
		deadline := time.After(in.wd)
	wait:
		for got := 0; got < c11wNumNode; got++ {
			select {
			case <-in.book.prepCh:
			case <-deadline:
				break wait
			}
		}
	}
	rows := in.book.takePreps()
	sort.Slice(rows, func(i, j int) bool { return fmt.Sprint(rows[i]) < fmt.Sprint(rows[j]) })
	if rows == nil {
		rows = [][3]int{}
	}
	in.emit(verifsupport.Ev{"ev": "Prep", "vs": vs, "preps": rows})
}

func (in *c11wInstance) key(v int) phase0.BLSPubKey {
	for k, id := range in.w.keys {
		if id == v {
			return k
		}
	}
	return phase0.BLSPubKey{}
}

func (in *c11wInstance) call(st c11wStep) {
	in.slot++
	slot := phase0.Slot(in.slot)
	var parent phase0.Hash32
	parent[0], parent[1] = byte(in.slot), byte(in.slot>>8)
	key := in.key(st.V)
	switch st.Kind {
	case "fwd":
		// a registration made elsewhere (the validator's previous home): content, time stamp and signature are its own
		in.book.takeRegs()
		var sig phase0.BLSSignature
		for i := range sig {
			sig[i] = byte(0x40 + (i+in.sc+int(in.slot))%61)
		}
		ts := time.Unix(1700000000+int64(in.slot), 0)
		if !in.guarded("fwd", func() {
			_, _ = in.svc.ValidatorRegistrations(in.ctx, []*blockrelaytypes.SignedValidatorRegistration{{
				Message: &blockrelaytypes.ValidatorRegistration{
					FeeRecipient: c11wFee(c11wFwdFee),
					GasLimit:     c11wGas(c11wFwdGas),
					Timestamp:    ts,
					Pubkey:       key,
				},
				Signature: sig,
			}})
		}) {
			return
		}
		rows := [][3]int{}
		same := true
		for _, g := range in.book.takeRegs() {
			if g.v != st.V {
				rows = append(rows, [3]int{99, 99, 99})
				continue
			}
			rows = append(rows, [3]int{g.relay, g.fee, g.gas})
			same = same && g.sig == sig && g.ts.Equal(ts)
		}
		sort.Slice(rows, func(i, j int) bool { return fmt.Sprint(rows[i]) < fmt.Sprint(rows[j]) })
		in.emit(verifsupport.Ev{"ev": "Call", "kind": "fwd", "v": st.V, "c": []int{c11wFwdFee, c11wFwdGas}, "regs": rows, "same": same})
	case "unblind":
		in.book.takeUnblinds()
		var err error
		if !in.guarded("unblind", func() {
			// (the outcome does not matter: the relays answer that they do not know the payload; the call ends with its context)
			uctx, cancel := context.WithTimeout(in.ctx, 30*time.Millisecond)
			defer cancel()
			_, err = in.svc.UnblindBlock(uctx, &consensusapi.VersionedSignedBlindedBeaconBlock{
				Version: consensusspec.DataVersionDeneb,
				Deneb: &apiv1deneb.SignedBlindedBeaconBlock{
					Message: &apiv1deneb.BlindedBeaconBlock{Slot: slot, ProposerIndex: in.w.index[st.V]},
				},
			})
		}) {
			return
		}
		asked := in.book.takeUnblinds()
		sort.Ints(asked)
		if asked == nil {
			asked = []int{}
		}
		in.emit(verifsupport.Ev{"ev": "Call", "kind": "unblind", "v": st.V, "asked": asked, "err": err != nil})
	case "auction", "bid":
		var err error
		if !in.guarded(st.Kind, func() {
			if st.Kind == "auction" {
				_, err = in.svc.AuctionBlock(in.ctx, slot, parent, key)
			} else {
				_, err = in.svc.BuilderBid(in.ctx, slot, parent, key)
			}
		}) {
			return
		}
		in.book.mu.Lock()
		seen := in.book.seen
		in.book.seen = nil
		in.book.mu.Unlock()
		handed := [][3]int{}
		for _, pc := range seen {
			if pc == nil {
				continue
			}
			for _, r := range pc.Relays {
				id := 99
				for _, srv := range in.w.relays {
					if srv.srv.URL == r.Address {
						id = srv.id
					}
				}
				handed = append(handed, [3]int{id, c11wFeeID(r.FeeRecipient), c11wGasID(r.GasLimit)})
			}
		}
		sort.Slice(handed, func(i, j int) bool { return fmt.Sprint(handed[i]) < fmt.Sprint(handed[j]) })
		in.emit(verifsupport.Ev{"ev": "Call", "kind": st.Kind, "v": st.V, "strategy": len(seen), "handed": handed, "err": err != nil})
	default:
		in.w.t.Fatalf("unknown call kind %q", st.Kind)
	}
}

func c11wRunScenario(w *c11wWorld, tr *verifsupport.Trace, sc c11wScenario) {
	if len(sc.Steps) == 0 || sc.Steps[0].Ev != "Reset" {
		w.t.Fatalf("scenario %d does not start with Reset", sc.Sc)
	}
	if w.hung.Load() >= 3 {
		tr.Emit(verifsupport.Ev{"sc": sc.Sc, "ev": "Reset", "skipped": true})
		return
	}
	in := c11wNewInstance(w, tr, sc.Sc, sc.Steps[0])
	defer in.close()
	for _, st := range sc.Steps[1:] {
		if in.dead {
			break
		}
		switch st.Ev {
		case "Fetch":
			in.fetch(st)
		case "Act":
			in.act(st)
		case "Round":
			in.round(st.Via)
		case "Prep":
			in.prepare()
		case "Call":
			in.call(st)
		default:
			w.t.Fatalf("unknown step %q", st.Ev)
		}
	}
	// leave the store as it was found
	for _, v := range c11wVs {
		in.state[v] = "active"
	}
	in.offer()
}

func TestVerifC11Wired(t *testing.T) {
	var scenarios []c11wScenario
	verifsupport.Scenarios(t, &scenarios)
	tr := verifsupport.OpenTrace(t)
	defer tr.Close()
	ctx := context.Background()
	zerolog.SetGlobalLevel(zerolog.Disabled)
	viper.Set("timeout", "10s")

	dir := t.TempDir()
	store := filesystem.New(filesystem.WithLocation(dir))
	u := c13support.BuildUniverse(ctx, t, store, map[string][][]string{"Wallet": {{"validator1"}, {"validator2"}}})
	w := &c11wWorld{t: t, dir: dir, u: u, index: map[int]phase0.ValidatorIndex{1: 101, 2: 102},
		keys: map[phase0.BLSPubKey]int{}, pubs: map[int]e2types.PublicKey{}}
	for _, v := range c11wVs {
		acc := u.Accounts[c11wName(v).Text()]
		w.keys[util.ValidatorPubkey(acc)] = v
		w.pubs[v] = acc.PublicKey()
	}
	sg, err := standardsigner.New(ctx,
		standardsigner.WithLogLevel(zerolog.Disabled),
		standardsigner.WithMonitor(nullmetrics.New()),
		standardsigner.WithClientMonitor(nullmetrics.New()),
		standardsigner.WithSpecProvider(mock.NewSpecProvider()),
		standardsigner.WithDomainProvider(mock.NewDomainProvider()),
	)
	if err != nil {
		t.Fatalf("signer New: %v", err)
	}
	w.signer = sg
	for id := 1; id <= c11NumRelays; id++ {
		r := &c11wRelaySrv{id: id, w: w}
		r.srv = httptest.NewServer(r)
		w.relays = append(w.relays, r)
	}
	defer func() {
		for _, r := range w.relays {
			r.srv.CloseClientConnections()
			r.srv.Close()
		}
	}()
	for _, sc := range scenarios {
		c11wRunScenario(w, tr, sc)
	}
}
